#!/bin/bash
# run every check in one tier at one seed; print one line each
tier=$1; seed=$2
for p in C01 C02 C03 C04 C05 C06 C07 C08 C09 C10 C11 C12 C13 C14 C15 C16 C17 C18 C19 C20; do
  s=$(date +%s); out=$(VERIF_SEED=$seed ./check $p --tier $tier 2>&1); rc=$?; e=$(date +%s)
  echo "$p seed=$seed tier=$tier rc=$rc $((e-s))s $(echo "$out" | grep SUMMARY | cut -c1-150)"
  echo "$out" | grep "VIOLATION\|INFRA" | head -4 | cut -c1-400
done
