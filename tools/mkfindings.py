#!/usr/bin/env python3
"""Development helper (not used by any registered command): turn the
reproducers a survey run (VERIF_SURVEY=1) left under <root>/.tmp/survey/<ID>/
into committed repro files under replays/known/<ID>/ and print candidate
`finding:` lines for KNOWN_FINDINGS.txt.  A human decides which lines go in.

usage: tools/mkfindings.py <ID> [survey-root]
"""
import json, os, sys, glob, shutil

prop = sys.argv[1]
root = sys.argv[2] if len(sys.argv) > 2 else "/verif"
src = os.path.join(root, ".tmp", "survey", prop)
dst = os.path.join("/verif", "replays", "known", prop)
os.makedirs(dst, exist_ok=True)
have = set()
try:
    for l in open("/verif/KNOWN_FINDINGS.txt"):
        if l.startswith("finding:") and ("property=%s " % prop) in l:
            for kv in l.split(" :: ")[0].split():
                if kv.startswith("key="):
                    have.add(kv[4:])
except OSError:
    pass
for f in sorted(glob.glob(os.path.join(src, "*.json"))):
    r = json.load(open(f))
    key = r["key"]
    if key in have:
        continue
    name = os.path.basename(f)
    shutil.copy(f, os.path.join(dst, name))
    what = r["detail"].split("\n")[0]
    if len(what) > 220:
        what = what[:220] + "..."
    print("finding: property=%s key=%s repro=replays/known/%s/%s :: %s" % (prop, key, prop, name, what))
