#!/usr/bin/env python3
"""Development helper (not used by any registered command): turn the
reproducers a survey run (VERIF_SURVEY=1) left under <root>/.tmp/survey/<ID>/
into committed repro files under replays/known/<ID>/ and print candidate
`finding:` lines for KNOWN_FINDINGS.txt.  A human decides which lines go in.

usage: tools/mkfindings.py <ID> [survey-root]
"""
import json, os, sys, glob, shutil

norepro = "--norepro" in sys.argv
args = [a for a in sys.argv[1:] if not a.startswith("--")]
prop = args[0]
root = args[1] if len(args) > 1 else "/verif"
src = os.path.join(root, ".tmp", "survey", prop)
dst = os.path.join("/verif", "replays", "known", prop)
if "--norepro" not in sys.argv:
    os.makedirs(dst, exist_ok=True)
have = set()
try:
    for l in open("/verif/KNOWN_FINDINGS.txt"):
        if l.startswith("finding:") and ("property=%s " % prop) in l:
            for kv in l.split(" :: ")[0].split():
                if kv.startswith("key="):
                    have.add(kv[4:])
except OSError:
    pass
for f in sorted(glob.glob(os.path.join(src, "*.json"))):
    r = json.load(open(f))
    key = r["key"]
    if key in have:
        continue
    name = os.path.basename(f)
    if not norepro:
        shutil.copy(f, os.path.join(dst, name))
    what = r["detail"].split("\n")[0]
    if len(what) > 220:
        what = what[:220] + "..."
    if norepro:
        print("finding: property=%s key=%s :: %s" % (prop, key, what))
    else:
        print("finding: property=%s key=%s repro=replays/known/%s/%s :: %s" % (prop, key, prop, name, what))
