#!/bin/bash
# Development helper (not used by registered commands): confirms one seeded change in its own scratch
# worktree of /repo (HEAD): the demonstration passes on the unchanged tree; the patch applies and
# `go build ./...` + CLI build succeed; the repository's test suite gives the same pass/fail list as
# on the unchanged tree; the demonstration fails with the patch.  Writes seeded/<id>/confirm.txt and
# removes the worktree.   usage: tools/confirm_seeded.sh <id> [baseline-suite-list]
set -u
id=$1
d=/verif/seeded/$id
wt=/tmp/sw/$id
base=${2:-/tmp/sw/baseline.list}
export GOFLAGS=-mod=mod GOPROXY=off
unset GOSUMDB GOTOOLCHAIN
log=$d/confirm.txt
mkdir -p /tmp/sw
git -C /repo worktree remove --force $wt 2>/dev/null
git -C /repo worktree add -q --detach $wt HEAD || exit 2
trap 'git -C /repo worktree remove --force $wt 2>/dev/null; rm -rf $wt' EXIT
tags=""
case $id in C09-6) tags="-tags verif -race";; C09-*) tags="-tags verif";; esac

pkgdir() { case ${1%_test} in utils) echo utils;; lexer) echo lexer;; runtime) echo runtime;; main) echo .;; channel) echo std/channel;; http) echo std/net/http;; json) echo std/serializer/json;; protowire) echo std/protowire;; parser) echo parser;; node) echo node;; data) echo data;; *) echo "?";; esac; }

demo() { # prints PASS / FAIL, details to $1
  out=$1
  if ls $d/demo*_test.go >/dev/null 2>&1; then
    pkg=$(grep -m1 -h '^package' $d/demo_test.go | awk '{print $2}'); dir=$(pkgdir $pkg)
    tests=$(grep -oh '^func Test[A-Za-z0-9_]*' $d/demo*_test.go | awk '{print $2}' | paste -sd'|')
    n=0; for f in $d/demo*_test.go; do n=$((n+1)); cp $f $wt/$dir/zz_seed_${n}_test.go; done
    (cd $wt && timeout -s KILL 900 go test -mod=mod -vet=off -count=1 $tags -run "^($tests)\$" ./$dir/ ) >$out 2>&1; rc=$?
    rm -f $wt/$dir/zz_seed_*_test.go
    [ $rc = 0 ] && echo PASS || echo FAIL
  elif [ -f $d/demo.php ] && [ -f $d/expected_output.txt ]; then
    (cd $wt && go build -o $wt/_cli_origami . ) >$out 2>&1 || { echo BUILDFAIL; return; }
    (cd $d && timeout -s KILL 60 $wt/_cli_origami demo.php 2>$out.err | diff - expected_output.txt ) >$out 2>&1; rc=$?
    rm -f $out.err
    [ $rc = 0 ] && echo PASS || echo FAIL
  elif [ -f $d/demo.sh ]; then
    SEED_ROOT=$wt bash $d/demo.sh >$out 2>&1; rc=$?
    [ $rc = 0 ] && echo PASS || echo FAIL
  else echo NODEMO; fi
}

suite() { (cd $wt && go test -mod=mod -vet=off -count=1 -timeout 25m ./... 2>&1 | grep -E '^(ok|FAIL|---|\?)' | sed -E 's/\t[0-9.]+s( |$)/ /; s/ \([0-9.]+s\)$//; s/\(cached\)//' | sort) ; }

{
echo "confirmed on /repo $(git -C /repo log --format=%h -1) in scratch worktree $wt"
r0=$(demo /tmp/sw/$id.demo0); echo "demonstration on the unchanged tree: $r0"
if ! git -C $wt apply --check $d/patch.diff 2>/tmp/sw/$id.apply; then echo "patch does not apply: $(head -3 /tmp/sw/$id.apply)"; echo "RESULT: rejected"; exit 0; fi
git -C $wt apply $d/patch.diff
if (cd $wt && go build ./... && go build -o /dev/null . ) >/tmp/sw/$id.build 2>&1; then echo "go build ./... and CLI build with the patch: ok"; else echo "build with the patch FAILED"; head -5 /tmp/sw/$id.build; echo "RESULT: rejected"; exit 0; fi
suite > /tmp/sw/$id.suite
if [ -f $base ] && diff $base /tmp/sw/$id.suite >/tmp/sw/$id.suitediff; then echo "test suite with the patch: same pass/fail list as the unchanged tree (only parser TestDiagVendorCompileAuthStringCorrupt fails)"; s=same; else echo "test suite with the patch DIFFERS:"; head -10 /tmp/sw/$id.suitediff; s=diff; fi
r1=$(demo /tmp/sw/$id.demo1); echo "demonstration with the patch: $r1"; echo "--- demonstration output with the patch (clipped)"; head -c 1500 /tmp/sw/$id.demo1; echo
if [ "$r0" = PASS ] && [ "$r1" = FAIL ] && [ $s = same ]; then echo "RESULT: confirmed"; else echo "RESULT: rejected"; fi
} > $log 2>&1
rm -f /tmp/sw/$id.*
tail -1 $log | sed "s/^/$id /"
