#!/usr/bin/env python3
"""Regenerates /verif/MANIFEST.json from the table below (development helper)."""
import json, subprocess

ENGINE = "sandbox+rapid harness"
# id -> (technique, level text, level note, design ref)
CHECKS = {
 "C01": ("property-based fuzzing: complete operand-omission matrix (value position x way of being incomplete, accepted sources run) + complete corpus-derived enumeration + rapid token/byte mutation + nesting bombs, crash/termination validity oracle in sandbox workers",
         "Every token-boundary prefix / single-token deletion / duplication of the 331-file corpus (thorough: complete; quick: seeded 1/16 sample), rapid-generated mutants of seed and generated programs in both lexing modes (accepted mutants of generated programs are run), 98 value positions x 587 incomplete or value-less fillers (accepted ones are run: no nil dereference), and nesting bombs (brackets, variable-first lists, operator chains up to a million); the outcome must be a program or a diagnostic, never a Go panic, process death, stack exhaustion or missed deadline.",
         "Validity oracle on the worker reply; hang = deadline 2 s + 0.25 ms/byte confirmed by a 5x re-run; findings keyed by phase and innermost /repo function (hang site = deepest frame stable across stack samples)."),
 "C02": ("differential testing of generated programs against an independent reference interpreter (rapid + AST-level reducer)",
         "Typed program generator (pgen) over the control-flow core; each program is run by origami in a sandbox worker and by pgen's own big-step interpreter; stdout and uncaught outcome must agree. Per-construct probe campaigns attribute failures to single constructs; the main campaign searches all constructs not excluded by a listed finding.",
         "The reference interpreter implements PHP's semantics for the generated core; integer overflow, '/', by-reference parameters and a bare continue inside switch are not asserted."),
 "C03": ("exhaustive operand-pair enumeration + rapid random operands against a Go reference model, algebraic coherence laws and metamorphic truthiness contexts",
         "All ordered pairs over a boundary pool x 23 binary operators + unary ! - ~ (complete in both tiers) and seeded random operands; exact value+type on the documented domain, ==/!=/===/!==/<=> coherence laws and no-crash on every pair, eight truthiness contexts per value.",
         "Exact results only on the documented domain (see evidence assumptions); overflow, float %, float ** and negative shifts are not asserted beyond 'value or catchable error'."),
}
CHECKS["C04"] = ("metamorphic testing: minimal vs full vs redundant parenthesisation of generated typed expression trees (exhaustive operator pairs + rapid trees, subtree-to-leaf reduction)",
         "Every ordered pair of binary operators in both tree shapes, unary/cast/ternary/assignment against every binary operator, negative literals in both spellings (complete), plus rapid-drawn well-typed trees to depth 5; the three printings of a tree must evaluate to the same value, type and final variable state.",
         "Metamorphic oracle only (no external value); '.' is mixed bare only where the statement fixes its position; non-triviality decided by an independent Go evaluator.")
CHECKS["C05"] = ("differential testing of generated try/catch/finally programs against the reference interpreter + real-subprocess exit-status checks",
         "Generated exception hierarchies and nested try/catch/finally inside loops, switches and functions with every exit path; marker traces compared with the reference interpreter (first matching catch, same object, finally exactly once, return/throw in finally overrides); a seeded subset plus truncated variants run through the CLI for exit status, diagnostic and flush.",
         "PHP semantics for try/catch/finally as the reference; base control-flow constructs inherit the C02 exclusions; break/continue out of finally are not generated.")
CHECKS["C06"] = ("exhaustive shape x aliasing-route x mutation x side matrix with in-run before/after snapshots against a Go model of each mutation; rapid random shapes",
         "Seven shapes x eleven routes (assign, by-value parameter, return, static-local return, property store/read, outer-array store/read, clone; positive controls & reference and object handle) x thirteen mutations x mutated side, and seven arrays built by statements (unset / sparse / keyed append / pop) x fourteen by-reference library calls (sort family, shift / unshift / splice / push / pop, by-reference walk and foreach) judged for independence, complete in both tiers, plus random shapes: the untouched name keeps its deep snapshot, the mutated name shows exactly the model's effect, explicit sharing must write through.",
         "Snapshots compared modulo integer keys; positional mutations on string-keyed literals (object-like values in origami) are not asserted.")
CHECKS["C07"] = ("exhaustive decision-table testing: generated class fixtures for every (member kind x modifier x static-ness x access site x operation) and (declared type x value kind x boundary) cell, judged against the statement's table",
         "Complete cross product of visibility cells (9 access sites incl. closures, dynamic names and parent::, two hierarchy depths) and of type cells (10 declared types x 11 value kinds x 15 boundaries incl. writes through $this to properties declared in ancestors, static and promoted properties, method returns; visibility also for typed / promoted / readonly declaration spellings) plus abstract/interface instantiation; a denied access / foreign value must raise a catchable error and leave the member unchanged, an allowed access / value of the type must go through unchanged.",
         "Coercible scalar-to-scalar combinations are recorded, not judged; every cell runs as its own script on a fresh VM.")
CHECKS["C08"] = ("exhaustive enumeration of small class/interface hierarchies (+ seeded larger ones) judged against an independent reachability and nearest-definition computation",
         "All hierarchies with <= 3 classes and <= 2 interfaces (forests x interface-extends DAGs x implements subsets x method placements), seeded hierarchies to 5+4; per hierarchy every (object class, type) pair through instanceof, typed parameter and catch, every call form ($o->m(), parent::, self::, static::), and a structural-typing (like) enumeration over class chains unrelated to the target and below it (nominal supertypes with arity-changing overrides).",
         "Root classes extend Exception so one hierarchy serves all judges; like is asserted for targets that declare their methods directly.")
CHECKS["C09"] = ("controlled-schedule enumeration (DFS with replay) and rapid-drawn schedules over real goroutines parked at verif-tag hook points, history invariants at quiescence; plus -race stress of spawn scripts",
         "A controlled scheduler owns every decision point of Send/Close/Receive (hook points between the closed test and the chan operation); all interleavings of the small configurations are enumerated, larger ones drawn by rapid and shrunk; invariants: exactly-once, per-sender order, no phantom values, send after close fails, no panic, nobody stuck. A second engine runs spawn-based producer/consumer scripts through the interpreter built with -race at GOMAXPROCS 1..16; a third lets m > k receivers race on real threads for the k values buffered in a closed channel (all must return, each value once).",
         "Needs the verif build tag (hook in std/channel); blocking inside a real chan operation is recognised from the goroutine's runtime state (no timing assumption); the -race stress sends the loop variable itself.")
CHECKS["C10"] = ("seeded concurrent stress under the race detector with a sequential-witness (linearizability-style) check of the recorded call history",
         "Rapid-drawn histories of 2..16 goroutines x up to 10^4 mixed registry calls (incl. GetOrLoadClass of classes that exist only as files in sub-directories of a registered namespace directory) over overlapping names on one VM, run in a -race worker at GOMAXPROCS 1..16; the worker must survive without a fatal concurrent-map error or race report, and the stamped history must admit a sequential witness (one winner per name, completed registrations visible, no phantom lookups, one global cell per name, final state = union).",
         "Go's scheduler owns the interleaving (stress, not schedule control): a green run is evidence, not exclusion; the race detector turns a latent race into a report without needing the bad interleaving.")
CHECKS["C11"] = ("differential testing of generated HTTP handlers: concurrent (real goroutines / gated two-request interleavings) vs the same request served alone on a fresh VM",
         "Generated route handlers reading request inputs through the request object and the superglobals; engine (i) 2..64 requests in flight (GOMAXPROCS varied, -race build in thorough), engine (ii) every placement of a gate between two reads with the other request run to completion in between; status, headers and body must equal the alone run; handler styles include per-request objects whose methods evaluate capture-less closures reading $this, and one fixed annotation-routed application (directory scan, controller, class middleware with state across $next) is served gated, sequentially and in parallel.",
         "In-process mux with httptest recorders; handlers avoid by-design shared state; the parallel engine does not own the schedule, the gated engine does; requests carry a per-request tag in every value, so the one-at-a-time run has an absolute oracle too (no value of another request may appear), and half of the servers put a closure middleware in front of the routes.")
CHECKS["C12"] = ("model-based stateful testing: exhaustive short histories + rapid histories over base and temporary VMs, every lookup on every VM compared with a set model after every step",
         "Histories of define (by parsing source through the VM's parser, or by Add*) / autoload of a class file / load of the same file (class + interface + function) through several temporary VMs / probing script / discard over one base VM and up to four temporary VMs with colliding names; after each step every VM answers GetClass / GetInterface / GetFunc / LoadPkg (and class_exists / function_exists / new / call) for every name and must agree with Base U Local[i].",
         "For names defined on several VMs resolvability is asserted, and that the definition a script runs was made on the base VM or on the VM running it (each class reports where it was defined); intended write-through sharing (file cache, constants, globals) is not modelled.")
CHECKS["C13"] = ("exhaustive enumeration of response-operation sequences and middleware stacks against a reference model of commit-once semantics; rapid longer sequences",
         "All sequences up to length 4 (thorough 6, symmetry-pruned) over 11 response operations as generated route handlers served through an instrumented ResponseWriter (WriteHeader count, header snapshot at commit); all middleware stacks of <= 5 entries with priorities {-1,0,0,1,5} in every registration order; longer sequences seeded.",
         "Single-operation body/header contributions are calibrated from the implementation; the model asserts ordering and commit semantics.")
CHECKS["C14"] = ("round-trip and differential testing against reference codecs (Go encoding/json, base64, hex, net/url, crypto, protowire.Consume*, an independent PHP-serialize reader/writer) over rapid-generated value trees and grammar-aware mutated byte strings",
         "Value trees and byte strings through every listed encoder/decoder: encoder output must be read back by the reference implementation as the same value and the matching decoder must invert it; json_decode / unserialize / ParseRawFields must accept exactly what their reference parser accepts, produce the same tree and account for every byte; every decoder call must return inside the sandbox watchdog without a Go panic; single bytes and structural byte pairs enumerated; every RFC 8259 spelling of numbers, escapes and white space enumerated and JSON texts drawn from the grammar.",
         "Depth-limit borderlines of the protobuf parser are asserted only where both plausible counting conventions agree; empty keyed values may encode as [] or {}.")
CHECKS["C15"] = ("exhaustive (method x receiver x argument-tuple) enumeration against an independent Go implementation of the documented (JavaScript Array/String) semantics; rapid longer receivers",
         "Every array and string method with each optional argument omitted or given, boundary indexes {-len-1 .. len+1}, 0..3 variadic items, callbacks using element / index / array; the return value and the receiver afterwards are both observed and compared with the model (mutators change the receiver exactly as specified, others leave it untouched).",
         "Model follows docs/array_methods.md and docs/strings.md, JavaScript semantics where the docs defer to Node.js; byte-vs-code-point questions on non-ASCII strings are not asserted.")
CHECKS["C17"] = ("exhaustive signature enumeration with reflect.MakeFunc-manufactured Go functions, a fixture struct and the generic converter; round-trip oracle on recorded Go-side arguments and script-side results",
         "All signatures of arity 0..3 over {string,bool,int,int64,float64} x result kinds, sized integer/float kinds at arity 1..2, struct methods through RegisterReflectClass and utils.ConvertFromIndex[T] for every kind, with boundary argument values (width limits, +-0.0, subnormals, empty / non-UTF-8 / 64 KiB strings): the Go side must receive exactly the passed value, the script exactly the returned one, a non-representable value must raise a catchable error, and no signature may panic the interpreter.",
         "Exact transfer asserted for matching kinds only; mismatched kinds are checked for 'value or catchable error'.")
CHECKS["C19"] = ("model-based history testing: exhaustive short histories + rapid histories of generic instantiations and typed member writes against a per-instance acceptance model",
         "Every history of instantiations Box<A> (and Pair<A,B> in the seeded part) with interleaved typed property writes / typed method calls on any live instance; each write must be accepted iff the value belongs to that instance's own type argument and read back unchanged, whatever was instantiated before.",
         "Per-instance model from the statement; the same histories inside a namespace and with imported classes; fresh new-sites evaluated for the first time by 8 goroutines at once must all yield instantiations bound to their type argument.")
CHECKS["C18"] = ("invariant checking over generated and injected sources (token span invariants) and planted-fault location testing through the CLI",
         "Token span invariants (bounds, order, line = newline count, literal = source slice) on every corpus file and on generated programs with seeded injections of multi-byte text, CRLF, comments, heredoc/nowdoc, interpolation, full-width space and inline HTML at token boundaries; and generated one-statement-per-line programs with exactly one planted fault (five runtime faults, three parse faults) moved over all top-level positions, whose printed file:line must be the planted line.",
         "Only the line of a diagnostic is asserted; a lexer crash is C01's subject and makes a span case unjudgeable here.")
CHECKS["C20"] = ("metamorphic repetition testing (fresh processes and fresh VMs), generated enumeration-order programs against a known insertion order, and ordered-pair residue testing",
         "Generated class and control-flow programs run k times (6 quick / 21 thorough) on fresh VMs in one process and in fresh CLI processes with byte-identical output, diagnostics and status required; declaration/insertion order of properties and keyed entries through foreach / json_encode / keyed library calls, after unset and re-insertion, and through json_decode (document order) compared with the order the generator knows; every ordered pair of residue-leaving programs run as [A, B] vs [B] in one process; the statically deterministic corpus files repeated in fresh processes.",
         "Go map-iteration randomisation is the adversary: k = 21 leaves a 2-way order dependence undetected with probability 2^-20; corpus determinism is decided by a static denylist, never by running twice.")
CHECKS["C16"] = ("translation validation: generated programs compiled by `origami compile`, built into one Go binary per batch and run compiled vs interpreted (differential on stdout, exit status, diagnostic)",
         "Batches of generated programs (control flow, namespaced exceptions, expressions, class programs, class hierarchies, multi-namespace files, user attributes), 20 fixed class chains, 20 hand-written programs for language areas the generators do not reach (float literals, global, statics, references, closures, constants, enums ...) and the deterministic corpus files: each is translated by its own compile invocation, the generated Go sources are built once per batch against /repo, and the compiled and interpreted runs must agree on stdout bytes, exit status and the location-free diagnostic; a rejected file must be reported by name, generated code must build.",
         "Only programs the generators produce plus the filtered corpus; the node constructors that appeared in generated Go sources are listed in the evidence labels.")
NOT_YET = {
}

def main():
    ids = [json.loads(l)["id"] for l in open("/verif/properties.jsonl")]
    commits = subprocess.run(["git", "-C", "/repo", "log", "--format=%h %s", "365b59f..HEAD"], capture_output=True, text=True).stdout.splitlines()
    hook_commits = [c.split()[0] for c in commits if c.split(" ", 1)[1].startswith("verif hook")]
    m = {
        "version": 1,
        "setup_cmd": "mkdir -p .bin && cd harness && GOFLAGS=-mod=mod GOPROXY=off go test -c -tags verif -o ../.bin/props.test ./props",
        "hooks": {"guard": "verif", "enable": "-tags verif", "baseline_off_cmd": "cd /repo && go test -mod=mod -vet=off -count=1 ./...", "source_commits": hook_commits, "add_only": True},
        "engines": [
            {"name": ENGINE, "path": "harness", "serves_properties": sorted(CHECKS), "kind_free_text": "one Go test binary (pgregory.net/rapid v1.3.0, replace => /repo) whose cases run in re-exec'd sandbox worker processes (watchdog, rss ceiling, hang-site sampling, typed observation sink); python driver ./check builds, shards and merges evidence"},
            {"name": "pgen+refint", "path": "harness/pgen", "serves_properties": [p for p in ["C01", "C02", "C04", "C05", "C16", "C18", "C20"] if p in CHECKS], "kind_free_text": "typed program generator, printer, independent reference interpreter and AST-level reducer"},
        ],
        "checks": [],
        "not_applicable": [],
        "notes": "Genuine defects that are recorded rather than repaired are listed in KNOWN_FINDINGS.txt; repairs are the 'fix:' commits in /repo (also listed there as 'fixed:' lines).",
    }
    for pid in ids:
        if pid in CHECKS:
            tech, text, note = CHECKS[pid]
            m["checks"].append({
                "property_id": pid,
                "quick_cmd": "./check %s --tier quick" % pid,
                "thorough_cmd": "./check %s --tier thorough" % pid,
                "evidence_file": "evidence/%s.json" % pid,
                "replay_cmd_template": "./check %s --replay {path}" % pid,
                "engine": ENGINE,
                "level_claimed": {"category": "translation_validation" if pid == "C16" else "exploration", "text": text, "design_ref": "DESIGN.md section 4, " + pid},
                "level_note": note,
                "technique": tech,
            })
        else:
            m["not_applicable"].append({"property_id": pid, "reason": NOT_YET.get(pid, "check not built yet in this session (planned, see DESIGN.md section 4 " + pid + "); not claimed until it runs")})
    json.dump(m, open("/verif/MANIFEST.json", "w"), indent=1)
    print("checks:", [c["property_id"] for c in m["checks"]])

main()
