#!/usr/bin/env python3-vt
import json, jsonschema, sys, glob
m = json.load(open('/verif/MANIFEST.json'))
jsonschema.validate(m, json.load(open('/root/.vp/MANIFEST.schema.json')))
es = json.load(open('/root/.vp/EVIDENCE.schema.json'))
for f in sorted(glob.glob('/verif/evidence/*.json')):
    try:
        d = json.load(open(f))
        jsonschema.validate(d, es)
        cov = d.get('coverage', {})
        if not isinstance(cov.get('samples'), list) or len(cov['samples']) < 1:
            raise Exception('coverage.samples empty')
        print('ok', f)
    except Exception as e:
        print('BAD', f, str(e)[:300])
ids = [json.loads(l)['id'] for l in open('/verif/properties.jsonl')]
claimed = [c['property_id'] for c in m['checks']]
na = [c['property_id'] for c in m.get('not_applicable', [])]
print('claimed', claimed); print('not_applicable', na); print('unaccounted', [i for i in ids if i not in claimed and i not in na])
