#!/usr/bin/env python3-vt
import json, jsonschema, sys, glob
m = json.load(open('/verif/MANIFEST.json'))
jsonschema.validate(m, json.load(open('/root/.vp/MANIFEST.schema.json')))
es = json.load(open('/root/.vp/EVIDENCE.schema.json'))
for f in sorted(glob.glob('/verif/evidence/*.json')):
    try:
        jsonschema.validate(json.load(open(f)), es)
        print('ok', f)
    except Exception as e:
        print('BAD', f, str(e)[:300])
ids = [json.loads(l)['id'] for l in open('/verif/properties.jsonl')]
claimed = [c['property_id'] for c in m['checks']]
na = [c['property_id'] for c in m.get('not_applicable', [])]
print('claimed', claimed); print('not_applicable', na); print('unaccounted', [i for i in ids if i not in claimed and i not in na])
