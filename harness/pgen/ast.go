// Package pgen is the typed program generator shared by C01 C02 C04 C05 C16
// C18 C20, together with its printer and an independent reference interpreter
// (refint.go) that works on the generator's own AST and shares no code with
// the implementation under test.
package pgen

// Type of an expression.
type Type int

const (
	TInt Type = iota
	TBool
	TStr
)

// Expr is an expression node.
type Expr interface{ Type() Type }

type Lit struct {
	T Type
	I int64
	B bool
	S string
}

func (l *Lit) Type() Type { return l.T }

type Var struct {
	Name string
	T    Type
}

func (v *Var) Type() Type { return v.T }

// Bin is a binary expression. Ops: + - * % (int), . (str), == != < <= > >=
// (int,int or str,str -> bool), && || (bool).
type Bin struct {
	Op   string
	L, R Expr
	T    Type
}

func (b *Bin) Type() Type { return b.T }

type Not struct{ E Expr }

func (n *Not) Type() Type { return TBool }

type Neg struct{ E Expr }

func (n *Neg) Type() Type { return TInt }

type Ternary struct {
	C, A, B Expr
}

func (t *Ternary) Type() Type { return t.A.Type() }

// Interp is a double-quoted string with {$var} interpolations; Parts are
// literal strings or *Var.
type Interp struct{ Parts []any }

func (i *Interp) Type() Type { return TStr }

type Call struct {
	Fn   *Func
	Args []Expr
}

func (c *Call) Type() Type { return c.Fn.Ret }

// ExcInfo reads the caught exception inside a catch body: get_class($e) or $e->getMessage().
type ExcInfo struct{ What string }

func (e *ExcInfo) Type() Type { return TStr }

// MatchExpr is match(subject) { v1, v2 => r, default => d }.
type MatchExpr struct {
	Subject Expr
	Arms    []MatchArm
	Default Expr
}
type MatchArm struct {
	Vals   []Expr
	Result Expr
}

func (m *MatchExpr) Type() Type { return m.Default.Type() }

// Stmt is a statement node.
type Stmt interface{}

type Assign struct {
	V  *Var
	Op string // "=", "+=", "-=", "*=", ".="
	E  Expr
}
type IncDec struct {
	V  *Var
	Op string // "++" or "--"
	// Prefix prints ++$v instead of $v++
	Prefix bool
}
type Echo struct{ Args []Expr }

// Collect appends a value to the main program's list: $acc[] = e;  (Program.Acc makes the printer
// declare `$acc = [];` before the main statements and print `echo implode(",", $acc), "#";` after them).
type Collect struct{ E Expr }
type If struct {
	Cond  Expr
	Then  []Stmt
	Elifs []Elif
	Else  []Stmt // nil = no else
}
type Elif struct {
	Cond Expr
	Body []Stmt
}

// Loop kinds.
const (
	KWhile = iota
	KDoWhile
	KFor
	KForeach
	// KForDown: for (; $v > 0; $v--) over an existing int variable (a local or a parameter): the loop
	// header itself writes a variable that other names may share
	KForDown
)

// Loop is a bounded loop. while/do-while/for use the dedicated counter K
// (never written by the body) and the literal bound N. foreach iterates Over.
type Loop struct {
	Kind int
	K    *Var
	N    int64
	Le   bool // KFor only: the bound is spelled "$k <= N-1" instead of "$k < N"
	Body []Stmt
	// foreach
	Over   []ForeachItem // literal items
	OverV  string        // "" = literal list inline, else the array variable holding Over
	KeyVar *Var          // nil = value only
	ValVar *Var
	Keyed  bool // string keys
}
type ForeachItem struct {
	Key string
	Val Expr // literal
}
type Switch struct {
	Subject Expr
	Cases   []SwitchCase // Default has IsDefault
}
type SwitchCase struct {
	IsDefault bool
	Val       Expr // literal
	Body      []Stmt
}
type Break struct{ Level int }
type Continue struct{ Level int }
type Return struct{ E Expr }
type ExprStmt struct{ E Expr }
type StaticDecl struct {
	V    *Var
	Init *Lit
}

// exceptions (C05)
type Throw struct {
	Class string
	Msg   string
}
type Try struct {
	ID      int
	Body    []Stmt
	Catches []Catch
	Finally []Stmt // nil = none
	HasFin  bool
}
type Catch struct {
	Class string
	Body  []Stmt
}

// ArrDecl assigns a literal array to a variable: $a = [..];
type ArrDecl struct {
	Name  string
	Items []ForeachItem
	Keyed bool
}

// Func is a user function.
type Func struct {
	Name    string
	Params  []Param
	Ret     Type
	Body    []Stmt // ends with Return
	Recurse bool
}
type Param struct {
	V       *Var
	Default *Lit // nil = required
}

// ClassDecl is an exception class or marker interface of the C05 fragment.
type ClassDecl struct {
	Name       string
	Parent     string // "" for interfaces
	Interfaces []string
	IsIface    bool
}

// Program is a whole generated program.
type Program struct {
	Classes []ClassDecl
	Funcs   []*Func
	Main    []Stmt
	Acc     bool // main collects values in $acc (see Collect)
	Feats   map[string]int
}
