package pgen

import (
	"errors"
	"fmt"
	"strconv"
	"strings"
)

// Result of a reference execution.
type Result struct {
	Out       string
	Uncaught  bool
	ExcClass  string
	ExcMsg    string
	Steps     int
	BackEdges int
	Calls     int
	// dynamic features hit
	Dyn map[string]int
}

// ErrBudget means the program is outside the asserted domain (too many steps,
// integer beyond 2^40, string too long); the generator draws another one.
var ErrBudget = errors.New("outside budget")

type ctlKind int

const (
	cNone ctlKind = iota
	cBreak
	cContinue
	cReturn
	cThrow
)

type ctl struct {
	kind  ctlKind
	level int
	val   any
	exc   *excObj
}

type excObj struct {
	Class string
	Msg   string
}

type frame struct {
	vars map[string]any
	arrs map[string]*ArrDecl
	fn   *Func
}

type interp struct {
	p       *Program
	acc     []string // values collected by main ($acc)
	out     strings.Builder
	steps   int
	res     *Result
	statics map[string]map[string]any
	parents map[string]string
	ifaces  map[string][]string
	depth   int
}

const (
	maxSteps = 40000
	maxInt   = int64(1) << 40
	maxStr   = 4000
	maxOut   = 200000
	maxDepth = 60
)

type budgetPanic struct{}

// Run executes the program with the reference semantics.
func Run(p *Program) (res *Result, err error) {
	in := &interp{p: p, res: &Result{Dyn: map[string]int{}}, statics: map[string]map[string]any{}, parents: map[string]string{}, ifaces: map[string][]string{}}
	for _, c := range p.Classes {
		if !c.IsIface {
			in.parents[c.Name] = c.Parent
		}
		in.ifaces[c.Name] = c.Interfaces // for an interface: the interfaces it extends
	}
	defer func() {
		if r := recover(); r != nil {
			if _, ok := r.(budgetPanic); ok {
				res, err = nil, ErrBudget
				return
			}
			panic(r)
		}
	}()
	fr := &frame{vars: map[string]any{}, arrs: map[string]*ArrDecl{}}
	c := in.block(fr, p.Main)
	if p.Acc && c.kind == cNone {
		in.out.WriteString(strings.Join(in.acc, ",") + "#")
	}
	in.res.Out = in.out.String()
	in.res.Steps = in.steps
	switch c.kind {
	case cThrow:
		in.res.Uncaught = true
		in.res.ExcClass = c.exc.Class
		in.res.ExcMsg = c.exc.Msg
	case cBreak, cContinue:
		// cannot happen: the generator never emits break/continue outside a loop
		return nil, fmt.Errorf("break/continue escaped to top level")
	}
	return in.res, nil
}

func (in *interp) tick() {
	in.steps++
	if in.steps > maxSteps || in.out.Len() > maxOut {
		panic(budgetPanic{})
	}
}

func (in *interp) block(fr *frame, ss []Stmt) ctl {
	for _, s := range ss {
		if c := in.stmt(fr, s); c.kind != cNone {
			return c
		}
	}
	return ctl{}
}

func chk(v int64) int64 {
	if v > maxInt || v < -maxInt {
		panic(budgetPanic{})
	}
	return v
}

func (in *interp) stmt(fr *frame, s Stmt) ctl {
	in.tick()
	switch x := s.(type) {
	case *Assign:
		v, c := in.eval(fr, x.E)
		if c.kind != cNone {
			return c
		}
		switch x.Op {
		case "=":
			fr.vars[x.V.Name] = v
		case "+=":
			fr.vars[x.V.Name] = chk(fr.vars[x.V.Name].(int64) + v.(int64))
		case "-=":
			fr.vars[x.V.Name] = chk(fr.vars[x.V.Name].(int64) - v.(int64))
		case "*=":
			fr.vars[x.V.Name] = chk(fr.vars[x.V.Name].(int64) * v.(int64))
		case ".=":
			s := fr.vars[x.V.Name].(string) + v.(string)
			if len(s) > maxStr {
				panic(budgetPanic{})
			}
			fr.vars[x.V.Name] = s
		}
		in.syncStatic(fr, x.V.Name)
	case *IncDec:
		if x.Op == "++" {
			fr.vars[x.V.Name] = chk(fr.vars[x.V.Name].(int64) + 1)
		} else {
			fr.vars[x.V.Name] = chk(fr.vars[x.V.Name].(int64) - 1)
		}
		in.syncStatic(fr, x.V.Name)
	case *Collect:
		v, c := in.eval(fr, x.E)
		if c.kind != cNone {
			return c
		}
		in.acc = append(in.acc, toStr(v))
		if len(in.acc) > 4096 {
			panic(budgetPanic{})
		}
	case *Echo:
		for _, a := range x.Args {
			v, c := in.eval(fr, a)
			if c.kind != cNone {
				return c
			}
			in.out.WriteString(toStr(v))
		}
	case *If:
		v, c := in.eval(fr, x.Cond)
		if c.kind != cNone {
			return c
		}
		if v.(bool) {
			return in.block(fr, x.Then)
		}
		for _, e := range x.Elifs {
			v, c := in.eval(fr, e.Cond)
			if c.kind != cNone {
				return c
			}
			if v.(bool) {
				return in.block(fr, e.Body)
			}
		}
		if x.Else != nil {
			return in.block(fr, x.Else)
		}
	case *Loop:
		return in.loop(fr, x)
	case *Switch:
		return in.sw(fr, x)
	case *Break:
		return ctl{kind: cBreak, level: x.Level}
	case *Continue:
		return ctl{kind: cContinue, level: x.Level}
	case *Return:
		v, c := in.eval(fr, x.E)
		if c.kind != cNone {
			return c
		}
		return ctl{kind: cReturn, val: v}
	case *ExprStmt:
		_, c := in.eval(fr, x.E)
		if c.kind != cNone {
			return c
		}
	case *StaticDecl:
		st := in.statics[fr.fn.Name]
		if st == nil {
			st = map[string]any{}
			in.statics[fr.fn.Name] = st
		}
		if _, ok := st[x.V.Name]; !ok {
			st[x.V.Name] = litVal(x.Init)
		}
		fr.vars[x.V.Name] = st[x.V.Name]
	case *ArrDecl:
		fr.arrs[x.Name] = x
	case *Throw:
		return ctl{kind: cThrow, exc: &excObj{Class: x.Class, Msg: x.Msg}}
	case *Try:
		return in.try(fr, x)
	default:
		panic(fmt.Sprintf("refint stmt %T", s))
	}
	return ctl{}
}

// syncStatic writes a static local back to the function's persistent store.
func (in *interp) syncStatic(fr *frame, name string) {
	if fr.fn == nil {
		return
	}
	if st := in.statics[fr.fn.Name]; st != nil {
		if _, ok := st[name]; ok {
			st[name] = fr.vars[name]
		}
	}
}

// loopCtl interprets a control that reached a loop or switch boundary.
// returns (exitLoop, nextIteration, propagate)
func loopCtl(c ctl) (exit bool, prop ctl) {
	switch c.kind {
	case cBreak:
		if c.level > 1 {
			return true, ctl{kind: cBreak, level: c.level - 1}
		}
		return true, ctl{}
	case cContinue:
		if c.level > 1 {
			return true, ctl{kind: cContinue, level: c.level - 1}
		}
		return false, ctl{}
	case cReturn, cThrow:
		return true, c
	}
	return false, ctl{}
}

func (in *interp) loop(fr *frame, l *Loop) ctl {
	switch l.Kind {
	case KWhile:
		fr.vars[l.K.Name] = int64(0)
		for fr.vars[l.K.Name].(int64) < l.N {
			in.tick()
			fr.vars[l.K.Name] = fr.vars[l.K.Name].(int64) + 1
			c := in.block(fr, l.Body)
			if exit, p := loopCtl(c); exit {
				return p
			}
			in.res.BackEdges++
		}
	case KDoWhile:
		fr.vars[l.K.Name] = int64(0)
		for {
			in.tick()
			fr.vars[l.K.Name] = fr.vars[l.K.Name].(int64) + 1
			c := in.block(fr, l.Body)
			if exit, p := loopCtl(c); exit {
				return p
			}
			if !(fr.vars[l.K.Name].(int64) < l.N) {
				break
			}
			in.res.BackEdges++
		}
	case KFor:
		for fr.vars[l.K.Name] = int64(0); fr.vars[l.K.Name].(int64) < l.N; fr.vars[l.K.Name] = fr.vars[l.K.Name].(int64) + 1 {
			in.tick()
			c := in.block(fr, l.Body)
			if exit, p := loopCtl(c); exit {
				return p
			}
			in.res.BackEdges++
		}
	case KForDown:
		for fr.vars[l.K.Name].(int64) > 0 {
			in.tick()
			c := in.block(fr, l.Body)
			if exit, p := loopCtl(c); exit {
				return p
			}
			fr.vars[l.K.Name] = fr.vars[l.K.Name].(int64) - 1
			in.syncStatic(fr, l.K.Name)
			in.res.BackEdges++
		}
	case KForeach:
		items := l.Over
		if l.OverV != "" {
			items = fr.arrs[l.OverV].Items
		}
		for i, it := range items {
			in.tick()
			if l.KeyVar != nil {
				if l.Keyed {
					fr.vars[l.KeyVar.Name] = it.Key
				} else {
					fr.vars[l.KeyVar.Name] = int64(i)
				}
			}
			fr.vars[l.ValVar.Name] = litVal(it.Val.(*Lit))
			c := in.block(fr, l.Body)
			if exit, p := loopCtl(c); exit {
				return p
			}
			in.res.BackEdges++
		}
	}
	return ctl{}
}

func (in *interp) sw(fr *frame, s *Switch) ctl {
	v, c := in.eval(fr, s.Subject)
	if c.kind != cNone {
		return c
	}
	start := -1
	for i, cs := range s.Cases {
		if cs.IsDefault {
			continue
		}
		if litVal(cs.Val.(*Lit)) == v {
			start = i
			break
		}
	}
	if start < 0 {
		for i, cs := range s.Cases {
			if cs.IsDefault {
				start = i
			}
		}
	}
	if start < 0 {
		return ctl{}
	}
	for i := start; i < len(s.Cases); i++ {
		if i > start {
			in.res.Dyn["dyn.switch.fell-through"]++
		}
		c := in.block(fr, s.Cases[i].Body)
		switch c.kind {
		case cNone:
			continue
		case cBreak:
			if c.level > 1 {
				return ctl{kind: cBreak, level: c.level - 1}
			}
			return ctl{}
		case cContinue:
			// PHP: switch counts as a loop structure for continue
			if c.level > 1 {
				return ctl{kind: cContinue, level: c.level - 1}
			}
			return ctl{}
		default:
			return c
		}
	}
	return ctl{}
}

// isA reports whether class cls is typ, a descendant of typ, or implements typ.
func (in *interp) isA(cls, typ string) bool {
	if typ == "Throwable" {
		return true
	}
	for c := cls; c != ""; c = in.parents[c] {
		if c == typ {
			return true
		}
		for _, i := range in.ifaces[c] {
			if in.ifaceIs(i, typ) {
				return true
			}
		}
		if c == "Exception" {
			break
		}
	}
	return false
}

// ifaceIs: interface i is typ or extends it, transitively.
func (in *interp) ifaceIs(i, typ string) bool {
	if i == typ {
		return true
	}
	for _, p := range in.ifaces[i] {
		if in.ifaceIs(p, typ) {
			return true
		}
	}
	return false
}

func (in *interp) try(fr *frame, t *Try) ctl {
	c := in.block(fr, t.Body)
	if c.kind == cThrow {
		for _, cb := range t.Catches {
			if in.isA(c.exc.Class, cb.Class) {
				in.res.Dyn["dyn.catch"]++
				fr.vars["e"] = c.exc
				c = in.block(fr, cb.Body)
				break
			}
		}
	}
	if t.HasFin {
		if c.kind != cNone {
			in.res.Dyn["dyn.finally.on-"+[]string{"none", "break", "continue", "return", "throw"}[c.kind]]++
		}
		fc := in.block(fr, t.Finally)
		if fc.kind != cNone {
			in.res.Dyn["dyn.finally.overrides"]++
			return fc
		}
	}
	return c
}

func litVal(l *Lit) any {
	switch l.T {
	case TInt:
		return l.I
	case TBool:
		return l.B
	}
	return l.S
}

func toStr(v any) string {
	switch x := v.(type) {
	case int64:
		return strconv.FormatInt(x, 10)
	case bool:
		if x {
			return "1"
		}
		return ""
	case string:
		return x
	}
	return fmt.Sprint(v)
}

func (in *interp) eval(fr *frame, e Expr) (any, ctl) {
	in.tick()
	switch x := e.(type) {
	case *Lit:
		return litVal(x), ctl{}
	case *Var:
		v, ok := fr.vars[x.Name]
		if !ok {
			panic("refint: read of unset variable $" + x.Name)
		}
		return v, ctl{}
	case *Not:
		v, c := in.eval(fr, x.E)
		if c.kind != cNone {
			return nil, c
		}
		return !v.(bool), ctl{}
	case *Neg:
		v, c := in.eval(fr, x.E)
		if c.kind != cNone {
			return nil, c
		}
		return chk(-v.(int64)), ctl{}
	case *Ternary:
		v, c := in.eval(fr, x.C)
		if c.kind != cNone {
			return nil, c
		}
		if v.(bool) {
			return in.eval(fr, x.A)
		}
		return in.eval(fr, x.B)
	case *Interp:
		var sb strings.Builder
		for _, p := range x.Parts {
			switch y := p.(type) {
			case string:
				sb.WriteString(y)
			case *Var:
				v, ok := fr.vars[y.Name]
				if !ok {
					panic("refint: read of unset variable $" + y.Name)
				}
				sb.WriteString(toStr(v))
			}
		}
		return sb.String(), ctl{}
	case *Bin:
		if x.Op == "&&" || x.Op == "||" {
			l, c := in.eval(fr, x.L)
			if c.kind != cNone {
				return nil, c
			}
			if x.Op == "&&" && !l.(bool) {
				return false, ctl{}
			}
			if x.Op == "||" && l.(bool) {
				return true, ctl{}
			}
			r, c := in.eval(fr, x.R)
			if c.kind != cNone {
				return nil, c
			}
			return r.(bool), ctl{}
		}
		l, c := in.eval(fr, x.L)
		if c.kind != cNone {
			return nil, c
		}
		r, c := in.eval(fr, x.R)
		if c.kind != cNone {
			return nil, c
		}
		switch x.Op {
		case "+":
			return chk(l.(int64) + r.(int64)), ctl{}
		case "-":
			return chk(l.(int64) - r.(int64)), ctl{}
		case "*":
			return chk(l.(int64) * r.(int64)), ctl{}
		case "%":
			if r.(int64) == 0 {
				return nil, ctl{kind: cThrow, exc: &excObj{Class: "DivisionByZeroError", Msg: "Modulo by zero"}}
			}
			return l.(int64) % r.(int64), ctl{}
		case ".":
			s := toStr(l) + toStr(r)
			if len(s) > maxStr {
				panic(budgetPanic{})
			}
			return s, ctl{}
		case "==", "!=", "<", "<=", ">", ">=":
			var cmp int
			switch a := l.(type) {
			case int64:
				b := r.(int64)
				switch {
				case a < b:
					cmp = -1
				case a > b:
					cmp = 1
				}
			case string:
				cmp = strings.Compare(a, r.(string))
			case bool:
				b := r.(bool)
				if a != b {
					cmp = 1
					if !a {
						cmp = -1
					}
				}
			}
			switch x.Op {
			case "==":
				return cmp == 0, ctl{}
			case "!=":
				return cmp != 0, ctl{}
			case "<":
				return cmp < 0, ctl{}
			case "<=":
				return cmp <= 0, ctl{}
			case ">":
				return cmp > 0, ctl{}
			default:
				return cmp >= 0, ctl{}
			}
		}
		panic("refint: op " + x.Op)
	case *Call:
		return in.call(fr, x)
	case *ExcInfo:
		ex := fr.vars["e"].(*excObj)
		if x.What == "class" {
			return ex.Class, ctl{}
		}
		return ex.Msg, ctl{}
	case *MatchExpr:
		v, c := in.eval(fr, x.Subject)
		if c.kind != cNone {
			return nil, c
		}
		for _, a := range x.Arms {
			for _, av := range a.Vals {
				w, c := in.eval(fr, av)
				if c.kind != cNone {
					return nil, c
				}
				if w == v {
					return in.eval(fr, a.Result)
				}
			}
		}
		return in.eval(fr, x.Default)
	}
	panic(fmt.Sprintf("refint expr %T", e))
}

func (in *interp) call(fr *frame, c *Call) (any, ctl) {
	in.res.Calls++
	in.depth++
	defer func() { in.depth-- }()
	if in.depth > maxDepth {
		panic(budgetPanic{})
	}
	nf := &frame{vars: map[string]any{}, arrs: map[string]*ArrDecl{}, fn: c.Fn}
	for i, pa := range c.Fn.Params {
		if i < len(c.Args) {
			v, cc := in.eval(fr, c.Args[i])
			if cc.kind != cNone {
				return nil, cc
			}
			nf.vars[pa.V.Name] = v
		} else {
			nf.vars[pa.V.Name] = litVal(pa.Default)
			in.res.Dyn["dyn.default-param-used"]++
		}
	}
	r := in.block(nf, c.Fn.Body)
	switch r.kind {
	case cReturn:
		return r.val, ctl{}
	case cThrow:
		return nil, r
	}
	panic("refint: function " + c.Fn.Name + " ended without return")
}
