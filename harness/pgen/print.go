package pgen

import (
	"fmt"
	"strconv"
	"strings"
)

// PrintOpts controls the printer.
type PrintOpts struct {
	NoHeader bool // omit "<?php\n"
	// Namespace wraps the program in "namespace X;" (C16: only namespaced classes are carried into compiled ASTs).
	Namespace string
}

// Print renders the program, fully parenthesised, one simple statement per line.
func (p *Program) Print(o PrintOpts) string {
	var sb strings.Builder
	if !o.NoHeader {
		sb.WriteString("<?php\n")
	}
	if o.Namespace != "" {
		sb.WriteString("namespace " + o.Namespace + ";\n")
	}
	for _, c := range p.Classes {
		if c.IsIface {
			if len(c.Interfaces) > 0 {
				fmt.Fprintf(&sb, "interface %s extends %s {}\n", c.Name, strings.Join(c.Interfaces, ", "))
			} else {
				fmt.Fprintf(&sb, "interface %s {}\n", c.Name)
			}
			continue
		}
		fmt.Fprintf(&sb, "class %s extends %s", c.Name, c.Parent)
		if len(c.Interfaces) > 0 {
			sb.WriteString(" implements " + strings.Join(c.Interfaces, ", "))
		}
		sb.WriteString(" {}\n")
	}
	for _, f := range p.Funcs {
		sb.WriteString("function " + f.Name + "(")
		for i, pa := range f.Params {
			if i > 0 {
				sb.WriteString(", ")
			}
			sb.WriteString("$" + pa.V.Name)
			if pa.Default != nil {
				sb.WriteString(" = " + ExprString(pa.Default))
			}
		}
		sb.WriteString(") {\n")
		printStmts(&sb, f.Body, 1)
		sb.WriteString("}\n")
	}
	if p.Acc {
		sb.WriteString("$acc = [];\n")
	}
	printStmts(&sb, p.Main, 0)
	if p.Acc {
		sb.WriteString("echo implode(\",\", $acc), \"#\";\n")
	}
	return sb.String()
}

func ind(n int) string { return strings.Repeat("    ", n) }

func printStmts(sb *strings.Builder, ss []Stmt, d int) {
	for _, s := range ss {
		printStmt(sb, s, d)
	}
}

func printStmt(sb *strings.Builder, s Stmt, d int) {
	in := ind(d)
	switch x := s.(type) {
	case *Assign:
		fmt.Fprintf(sb, "%s$%s %s %s;\n", in, x.V.Name, x.Op, ExprString(x.E))
	case *IncDec:
		if x.Prefix {
			fmt.Fprintf(sb, "%s%s$%s;\n", in, x.Op, x.V.Name)
		} else {
			fmt.Fprintf(sb, "%s$%s%s;\n", in, x.V.Name, x.Op)
		}
	case *Collect:
		fmt.Fprintf(sb, "%s$acc[] = %s;\n", in, ExprString(x.E))
	case *Echo:
		var parts []string
		for _, a := range x.Args {
			parts = append(parts, ExprString(a))
		}
		fmt.Fprintf(sb, "%secho %s;\n", in, strings.Join(parts, ", "))
	case *If:
		fmt.Fprintf(sb, "%sif (%s) {\n", in, ExprString(x.Cond))
		printStmts(sb, x.Then, d+1)
		for _, e := range x.Elifs {
			fmt.Fprintf(sb, "%s} elseif (%s) {\n", in, ExprString(e.Cond))
			printStmts(sb, e.Body, d+1)
		}
		if x.Else != nil {
			fmt.Fprintf(sb, "%s} else {\n", in)
			printStmts(sb, x.Else, d+1)
		}
		fmt.Fprintf(sb, "%s}\n", in)
	case *Loop:
		switch x.Kind {
		case KWhile:
			fmt.Fprintf(sb, "%s$%s = 0;\n", in, x.K.Name)
			fmt.Fprintf(sb, "%swhile ($%s < %d) {\n", in, x.K.Name, x.N)
			fmt.Fprintf(sb, "%s$%s++;\n", ind(d+1), x.K.Name)
			printStmts(sb, x.Body, d+1)
			fmt.Fprintf(sb, "%s}\n", in)
		case KDoWhile:
			fmt.Fprintf(sb, "%s$%s = 0;\n", in, x.K.Name)
			fmt.Fprintf(sb, "%sdo {\n", in)
			fmt.Fprintf(sb, "%s$%s++;\n", ind(d+1), x.K.Name)
			printStmts(sb, x.Body, d+1)
			fmt.Fprintf(sb, "%s} while ($%s < %d);\n", in, x.K.Name, x.N)
		case KFor:
			if x.Le {
				fmt.Fprintf(sb, "%sfor ($%s = 0; $%s <= %d; $%s++) {\n", in, x.K.Name, x.K.Name, x.N-1, x.K.Name)
			} else {
				fmt.Fprintf(sb, "%sfor ($%s = 0; $%s < %d; $%s++) {\n", in, x.K.Name, x.K.Name, x.N, x.K.Name)
			}
			printStmts(sb, x.Body, d+1)
			fmt.Fprintf(sb, "%s}\n", in)
		case KForDown:
			fmt.Fprintf(sb, "%sfor (; $%s > 0; $%s--) {\n", in, x.K.Name, x.K.Name)
			printStmts(sb, x.Body, d+1)
			fmt.Fprintf(sb, "%s}\n", in)
		case KForeach:
			src := "$" + x.OverV
			if x.OverV == "" {
				src = itemsString(x.Over, x.Keyed)
			}
			if x.KeyVar != nil {
				fmt.Fprintf(sb, "%sforeach (%s as $%s => $%s) {\n", in, src, x.KeyVar.Name, x.ValVar.Name)
			} else {
				fmt.Fprintf(sb, "%sforeach (%s as $%s) {\n", in, src, x.ValVar.Name)
			}
			printStmts(sb, x.Body, d+1)
			fmt.Fprintf(sb, "%s}\n", in)
		}
	case *Switch:
		fmt.Fprintf(sb, "%sswitch (%s) {\n", in, ExprString(x.Subject))
		for _, c := range x.Cases {
			if c.IsDefault {
				fmt.Fprintf(sb, "%sdefault:\n", ind(d+1))
			} else {
				fmt.Fprintf(sb, "%scase %s:\n", ind(d+1), ExprString(c.Val))
			}
			printStmts(sb, c.Body, d+2)
		}
		fmt.Fprintf(sb, "%s}\n", in)
	case *Break:
		if x.Level > 1 {
			fmt.Fprintf(sb, "%sbreak %d;\n", in, x.Level)
		} else {
			fmt.Fprintf(sb, "%sbreak;\n", in)
		}
	case *Continue:
		if x.Level > 1 {
			fmt.Fprintf(sb, "%scontinue %d;\n", in, x.Level)
		} else {
			fmt.Fprintf(sb, "%scontinue;\n", in)
		}
	case *Return:
		fmt.Fprintf(sb, "%sreturn %s;\n", in, ExprString(x.E))
	case *ExprStmt:
		fmt.Fprintf(sb, "%s%s;\n", in, ExprString(x.E))
	case *StaticDecl:
		fmt.Fprintf(sb, "%sstatic $%s = %s;\n", in, x.V.Name, ExprString(x.Init))
	case *ArrDecl:
		fmt.Fprintf(sb, "%s$%s = %s;\n", in, x.Name, itemsString(x.Items, x.Keyed))
	case *Throw:
		fmt.Fprintf(sb, "%sthrow new %s('%s');\n", in, x.Class, x.Msg)
	case *Try:
		fmt.Fprintf(sb, "%stry {\n", in)
		printStmts(sb, x.Body, d+1)
		for _, c := range x.Catches {
			fmt.Fprintf(sb, "%s} catch (%s $e) {\n", in, c.Class)
			printStmts(sb, c.Body, d+1)
		}
		if x.HasFin {
			fmt.Fprintf(sb, "%s} finally {\n", in)
			printStmts(sb, x.Finally, d+1)
		}
		fmt.Fprintf(sb, "%s}\n", in)
	default:
		panic(fmt.Sprintf("printStmt: %T", s))
	}
}

func itemsString(items []ForeachItem, keyed bool) string {
	var parts []string
	for _, it := range items {
		if keyed {
			parts = append(parts, "'"+it.Key+"' => "+ExprString(it.Val))
		} else {
			parts = append(parts, ExprString(it.Val))
		}
	}
	return "[" + strings.Join(parts, ", ") + "]"
}

// ExprString prints an expression fully parenthesised.
func ExprString(e Expr) string {
	switch x := e.(type) {
	case *Lit:
		switch x.T {
		case TInt:
			if x.I < 0 {
				return "(" + strconv.FormatInt(x.I, 10) + ")"
			}
			return strconv.FormatInt(x.I, 10)
		case TBool:
			if x.B {
				return "true"
			}
			return "false"
		default:
			return "'" + x.S + "'"
		}
	case *Var:
		return "$" + x.Name
	case *Bin:
		return "(" + ExprString(x.L) + " " + x.Op + " " + ExprString(x.R) + ")"
	case *Not:
		return "(!" + ExprString(x.E) + ")"
	case *Neg:
		return "(-" + ExprString(x.E) + ")"
	case *Ternary:
		return "(" + ExprString(x.C) + " ? " + ExprString(x.A) + " : " + ExprString(x.B) + ")"
	case *Interp:
		var sb strings.Builder
		sb.WriteString("\"")
		for _, p := range x.Parts {
			switch y := p.(type) {
			case string:
				sb.WriteString(y)
			case *Var:
				sb.WriteString("{$" + y.Name + "}")
			}
		}
		sb.WriteString("\"")
		return sb.String()
	case *Call:
		var parts []string
		for _, a := range x.Args {
			parts = append(parts, ExprString(a))
		}
		return x.Fn.Name + "(" + strings.Join(parts, ", ") + ")"
	case *ExcInfo:
		if x.What == "class" {
			return "get_class($e)"
		}
		return "$e->getMessage()"
	case *MatchExpr:
		var sb strings.Builder
		sb.WriteString("match (" + ExprString(x.Subject) + ") { ")
		for _, a := range x.Arms {
			var vs []string
			for _, v := range a.Vals {
				if l, ok := v.(*Lit); ok && l.T == TInt {
					vs = append(vs, strconv.FormatInt(l.I, 10)) // "(-2)" is rejected in an arm list
					continue
				}
				vs = append(vs, ExprString(v))
			}
			sb.WriteString(strings.Join(vs, ", ") + " => " + ExprString(a.Result) + ", ")
		}
		sb.WriteString("default => " + ExprString(x.Default) + " }")
		return sb.String()
	}
	panic(fmt.Sprintf("ExprString: %T", e))
}
