package pgen

// Reduce shrinks a failing program at the AST level: it repeatedly deletes
// single statements, unwraps compound statements into one of their bodies and
// drops unused functions while stillFails keeps returning true. stillFails must
// re-run both the reference interpreter and the implementation; candidates on
// which the reference interpreter panics (unset variable, missing return) are
// rejected by the caller returning false.
func Reduce(p *Program, stillFails func(*Program) bool, maxTries int) *Program {
	tries := 0
	orig := Structural(p)
	try := func() bool {
		tries++
		if tries > maxTries {
			return false
		}
		// a deletion must not create a construct the original did not have (an emptied case body
		// becomes a label group, a deleted break becomes a fall-through, ...): the reduced program
		// would then fail for a different reason than the one being reduced
		for tag := range Structural(p) {
			if !orig[tag] {
				return false
			}
		}
		return stillFails(p)
	}
	changed := true
	for changed && tries < maxTries {
		changed = false
		// drop whole functions (only works when nothing calls them: refint panics otherwise -> false)
		for i := len(p.Funcs) - 1; i >= 0; i-- {
			saved := p.Funcs
			p.Funcs = append(append([]*Func{}, saved[:i]...), saved[i+1:]...)
			if usesFunc(p, saved[i]) || !try() {
				p.Funcs = saved
			} else {
				changed = true
			}
		}
		lists := collectLists(p)
		for _, lp := range lists {
			for i := len(*lp) - 1; i >= 0; i-- {
				if i >= len(*lp) {
					continue
				}
				saved := *lp
				// 1. delete statement i
				cand := append(append([]Stmt{}, saved[:i]...), saved[i+1:]...)
				*lp = cand
				if try() {
					changed = true
					continue
				}
				*lp = saved
				// 2. replace a compound statement by one of its bodies
				for _, body := range bodiesOf(saved[i]) {
					cand := append(append(append([]Stmt{}, saved[:i]...), body...), saved[i+1:]...)
					*lp = cand
					if try() {
						changed = true
						break
					}
					*lp = saved
				}
			}
		}
	}
	return p
}

func usesFunc(p *Program, f *Func) bool {
	found := false
	var we func(e Expr)
	var ws func(ss []Stmt)
	we = func(e Expr) {
		switch x := e.(type) {
		case *Call:
			if x.Fn == f {
				found = true
			}
			for _, a := range x.Args {
				we(a)
			}
		case *Bin:
			we(x.L)
			we(x.R)
		case *Not:
			we(x.E)
		case *Neg:
			we(x.E)
		case *Ternary:
			we(x.C)
			we(x.A)
			we(x.B)
		case *MatchExpr:
			we(x.Subject)
			we(x.Default)
			for _, a := range x.Arms {
				we(a.Result)
			}
		}
	}
	ws = func(ss []Stmt) {
		for _, s := range ss {
			switch x := s.(type) {
			case *Assign:
				we(x.E)
			case *Echo:
				for _, a := range x.Args {
					we(a)
				}
			case *Collect:
				we(x.E)
			case *If:
				we(x.Cond)
				ws(x.Then)
				for _, e := range x.Elifs {
					we(e.Cond)
					ws(e.Body)
				}
				ws(x.Else)
			case *Loop:
				ws(x.Body)
			case *Switch:
				we(x.Subject)
				for _, c := range x.Cases {
					ws(c.Body)
				}
			case *Return:
				we(x.E)
			case *ExprStmt:
				we(x.E)
			case *Try:
				ws(x.Body)
				for _, c := range x.Catches {
					ws(c.Body)
				}
				ws(x.Finally)
			}
		}
	}
	ws(p.Main)
	for _, g := range p.Funcs {
		if g != f {
			ws(g.Body)
		}
	}
	return found
}

func bodiesOf(s Stmt) [][]Stmt {
	switch x := s.(type) {
	case *If:
		out := [][]Stmt{x.Then}
		for _, e := range x.Elifs {
			out = append(out, e.Body)
		}
		if x.Else != nil {
			out = append(out, x.Else)
		}
		return out
	case *Try:
		out := [][]Stmt{x.Body}
		if x.HasFin {
			out = append(out, x.Finally)
		}
		return out
	}
	return nil
}

// collectLists returns pointers to every statement list of the program
// (innermost lists last so that deletions start at the leaves).
func collectLists(p *Program) []*[]Stmt {
	var out []*[]Stmt
	var walk func(lp *[]Stmt)
	walk = func(lp *[]Stmt) {
		out = append(out, lp)
		for _, s := range *lp {
			switch x := s.(type) {
			case *If:
				walk(&x.Then)
				for i := range x.Elifs {
					walk(&x.Elifs[i].Body)
				}
				if x.Else != nil {
					walk(&x.Else)
				}
			case *Loop:
				walk(&x.Body)
			case *Switch:
				for i := range x.Cases {
					walk(&x.Cases[i].Body)
				}
			case *Try:
				walk(&x.Body)
				for i := range x.Catches {
					walk(&x.Catches[i].Body)
				}
				if x.HasFin {
					walk(&x.Finally)
				}
			}
		}
	}
	walk(&p.Main)
	for _, f := range p.Funcs {
		walk(&f.Body)
	}
	// leaves first
	for i, j := 0, len(out)-1; i < j; i, j = i+1, j-1 {
		out[i], out[j] = out[j], out[i]
	}
	return out
}

// SafeRun is Run with panics of the reference interpreter (invalid candidate
// programs produced by the reducer) turned into an error.
func SafeRun(p *Program) (res *Result, err error) {
	defer func() {
		if r := recover(); r != nil {
			res, err = nil, ErrBudget
		}
	}()
	return Run(p)
}

// Structural recomputes, from the AST, the construct tags that a statement deletion can create.
func Structural(p *Program) map[string]bool {
	out := map[string]bool{}
	var ws func(ss []Stmt)
	ws = func(ss []Stmt) {
		for i, s := range ss {
			switch x := s.(type) {
			case *If:
				ws(x.Then)
				for _, e := range x.Elifs {
					ws(e.Body)
				}
				ws(x.Else)
			case *Loop:
				ws(x.Body)
				if x.Kind == KDoWhile && i+1 < len(ss) {
					if id, ok := ss[i+1].(*IncDec); ok && id.Prefix {
						out["dowhile.then-prefix-incdec"] = true
					}
				}
			case *Switch:
				for k, c := range x.Cases {
					ws(c.Body)
					if k == len(x.Cases)-1 {
						continue
					}
					if len(c.Body) == 0 {
						out["switch.group"] = true
						continue
					}
					switch c.Body[len(c.Body)-1].(type) {
					case *Break, *Continue, *Return, *Throw:
					default:
						out["switch.fallthrough"] = true
					}
				}
			case *Try:
				ws(x.Body)
				for _, c := range x.Catches {
					ws(c.Body)
				}
				ws(x.Finally)
			}
		}
	}
	ws(p.Main)
	for _, f := range p.Funcs {
		ws(f.Body)
	}
	return out
}
