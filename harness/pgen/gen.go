package pgen

import (
	"fmt"

	"pgregory.net/rapid"
)

// Cfg bounds the generator.
type Cfg struct {
	MaxDepth   int // nesting depth of blocks (<= 5)
	MaxStmts   int // statements in main (functions get a share)
	MaxFuncs   int
	Exceptions bool // try/catch/finally/throw fragment (C05)
	// Exclude lists feature tags that must not be emitted (active known findings).
	Exclude map[string]bool
}

// DefaultCfg is the C02 configuration.
func DefaultCfg() Cfg { return Cfg{MaxDepth: 5, MaxStmts: 14, MaxFuncs: 3} }

type scope struct {
	ints, bools, strs []*Var
	arrs              []*ArrDecl
	statics           []*Var // int statics
}

type gen struct {
	rt      *rapid.T
	cfg     Cfg
	p       *Program
	sc      *scope
	encl    []int // enclosing breakable constructs, innermost last: 0 loop, 1 switch
	loopK   []int // kinds of enclosing loops (for tags)
	nextK   int
	fn      *Func // function being generated (nil = main)
	fnIdx   int
	inCatch int
	tryID   int
	excs    []string // throwable class names
	types   []string // catchable type names (classes + interfaces + Exception + Throwable)
}

func (g *gen) ex(tag string) bool { return g.cfg.Exclude[tag] }
func (g *gen) feat(tag string)    { g.p.Feats[tag]++ }

func (g *gen) intn(lo, hi int, label string) int {
	return rapid.IntRange(lo, hi).Draw(g.rt, label)
}
func (g *gen) pick(n int, label string) int { return rapid.IntRange(0, n-1).Draw(g.rt, label) }
func (g *gen) chance(pct int, label string) bool {
	return rapid.IntRange(0, 99).Draw(g.rt, label) < pct
}

var strPool = []string{"", "a", "b", "ab", "ba", "c", "abc", "x y", "B", "zz"}

// Gen draws a program.
func Gen(rt *rapid.T, cfg Cfg) *Program {
	g := &gen{rt: rt, cfg: cfg, p: &Program{Feats: map[string]int{}}}
	if cfg.Exclude == nil {
		g.cfg.Exclude = map[string]bool{}
	}
	if cfg.Exceptions {
		g.genClasses()
	}
	nf := g.intn(0, cfg.MaxFuncs, "nfuncs")
	for i := 0; i < nf; i++ {
		g.genFunc(i)
	}
	g.fn = nil
	g.fnIdx = len(g.p.Funcs)
	g.sc = g.newScope("", 3, 2, 2)
	main := g.initScope(g.sc)
	n := g.intn(2, cfg.MaxStmts, "nmain")
	main = append(main, g.block(0, n)...)
	// make the final state observable
	main = append(main, g.dumpScope(g.sc))
	g.p.Main = main
	return g.p
}

func (g *gen) newScope(prefix string, ni, nb, ns int) *scope {
	sc := &scope{}
	for i := 0; i < ni; i++ {
		sc.ints = append(sc.ints, &Var{Name: fmt.Sprintf("%si%d", prefix, i), T: TInt})
	}
	for i := 0; i < nb; i++ {
		sc.bools = append(sc.bools, &Var{Name: fmt.Sprintf("%sb%d", prefix, i), T: TBool})
	}
	for i := 0; i < ns; i++ {
		sc.strs = append(sc.strs, &Var{Name: fmt.Sprintf("%ss%d", prefix, i), T: TStr})
	}
	return sc
}

func (g *gen) initScope(sc *scope) []Stmt {
	var out []Stmt
	for _, v := range sc.ints {
		out = append(out, &Assign{V: v, Op: "=", E: g.lit(TInt)})
	}
	for _, v := range sc.bools {
		out = append(out, &Assign{V: v, Op: "=", E: g.lit(TBool)})
	}
	for _, v := range sc.strs {
		out = append(out, &Assign{V: v, Op: "=", E: g.lit(TStr)})
	}
	return out
}

func (g *gen) dumpScope(sc *scope) Stmt {
	var args []Expr
	for _, v := range sc.ints {
		args = append(args, v, &Lit{T: TStr, S: ","})
	}
	for _, v := range sc.strs {
		args = append(args, v, &Lit{T: TStr, S: ";"})
	}
	for _, v := range sc.bools {
		args = append(args, &Ternary{C: v, A: &Lit{T: TStr, S: "T"}, B: &Lit{T: TStr, S: "F"}})
	}
	args = append(args, &Lit{T: TStr, S: "|"})
	return &Echo{Args: args}
}

func (g *gen) lit(t Type) *Lit {
	switch t {
	case TInt:
		return &Lit{T: TInt, I: int64(g.intn(-3, 12, "int"))}
	case TBool:
		return &Lit{T: TBool, B: rapid.Bool().Draw(g.rt, "bool")}
	}
	return &Lit{T: TStr, S: rapid.SampledFrom(strPool).Draw(g.rt, "str")}
}

func (g *gen) varOf(t Type) *Var {
	var pool []*Var
	switch t {
	case TInt:
		pool = g.sc.ints
	case TBool:
		pool = g.sc.bools
	default:
		pool = g.sc.strs
	}
	return pool[g.pick(len(pool), "var")]
}

// readableInts are the int variables that may be read (incl. loop counters and statics).
func (g *gen) readInt() *Var {
	pool := append([]*Var{}, g.sc.ints...)
	pool = append(pool, g.sc.statics...)
	return pool[g.pick(len(pool), "rvar")]
}

func (g *gen) expr(t Type, d int) Expr {
	if d <= 0 {
		if g.chance(50, "leaflit") {
			return g.lit(t)
		}
		if t == TInt {
			return g.readInt()
		}
		return g.varOf(t)
	}
	switch t {
	case TInt:
		switch g.pick(10, "ik") {
		case 0, 1:
			return g.lit(TInt)
		case 2, 3:
			return g.readInt()
		case 4, 5:
			op := []string{"+", "-", "*"}[g.pick(3, "iop")]
			return &Bin{Op: op, L: g.expr(TInt, d-1), R: g.expr(TInt, d-1), T: TInt}
		case 6:
			return &Bin{Op: "%", L: g.expr(TInt, d-1), R: &Lit{T: TInt, I: int64(g.intn(1, 7, "mod"))}, T: TInt}
		case 7:
			if !g.ex("neg") {
				g.feat("neg")
				return &Neg{E: g.readInt()}
			}
			return g.readInt()
		case 8:
			if c := g.callOf(TInt, d); c != nil {
				return c
			}
			if !g.ex("ternary") {
				g.feat("ternary")
				return &Ternary{C: g.expr(TBool, d-1), A: g.expr(TInt, d-1), B: g.expr(TInt, d-1)}
			}
			return g.lit(TInt)
		default:
			return g.readInt()
		}
	case TBool:
		switch g.pick(8, "bk") {
		case 0:
			return g.lit(TBool)
		case 1:
			return g.varOf(TBool)
		case 2, 3, 4:
			op := []string{"==", "!=", "<", "<=", ">", ">="}[g.pick(6, "cmp")]
			return &Bin{Op: op, L: g.expr(TInt, d-1), R: g.expr(TInt, d-1), T: TBool}
		case 5:
			op := []string{"==", "!="}[g.pick(2, "scmp")]
			return &Bin{Op: op, L: g.expr(TStr, d-1), R: g.expr(TStr, d-1), T: TBool}
		case 6:
			op := []string{"&&", "||"}[g.pick(2, "lop")]
			return &Bin{Op: op, L: g.expr(TBool, d-1), R: g.expr(TBool, d-1), T: TBool}
		default:
			return &Not{E: g.expr(TBool, d-1)}
		}
	default:
		switch g.pick(8, "sk") {
		case 0, 1:
			return g.lit(TStr)
		case 2, 3:
			return g.varOf(TStr)
		case 4:
			return &Bin{Op: ".", L: g.expr(TStr, d-1), R: g.expr(TStr, d-1), T: TStr}
		case 5:
			if !g.ex("interp") {
				g.feat("interp")
				var v *Var
				if g.chance(50, "iv") {
					v = g.readInt()
				} else {
					v = g.varOf(TStr)
				}
				return &Interp{Parts: []any{rapid.SampledFrom([]string{"", "k", "n=", "<"}).Draw(g.rt, "ip"), v, rapid.SampledFrom([]string{"", ">", " ", "z"}).Draw(g.rt, "is")}}
			}
			return g.lit(TStr)
		case 6:
			if c := g.callOf(TStr, d); c != nil {
				return c
			}
			return g.lit(TStr)
		default:
			if !g.ex("ternary") {
				g.feat("ternary")
				return &Ternary{C: g.expr(TBool, d-1), A: g.expr(TStr, d-1), B: g.expr(TStr, d-1)}
			}
			return g.varOf(TStr)
		}
	}
}

func (g *gen) match(t Type, d int) Expr {
	g.feat("match")
	m := &MatchExpr{Subject: g.expr(TInt, d-1), Default: g.expr(t, d-1)}
	used := map[int64]bool{}
	na := g.intn(1, 3, "narms")
	for i := 0; i < na; i++ {
		var vals []Expr
		nv := g.intn(1, 3, "nvals")
		for j := 0; j < nv; j++ {
			v := int64(g.intn(-2, 8, "mv"))
			if used[v] {
				continue
			}
			used[v] = true
			vals = append(vals, &Lit{T: TInt, I: v})
		}
		if len(vals) == 0 {
			continue
		}
		if len(vals) > 1 {
			g.feat("match.multi")
		}
		m.Arms = append(m.Arms, MatchArm{Vals: vals, Result: g.expr(t, d-1)})
	}
	return m
}

// callOf returns a call of an already generated function with return type t, or nil.
func (g *gen) callOf(t Type, d int) Expr {
	var cands []*Func
	for i, f := range g.p.Funcs {
		if i < g.fnIdx && f.Ret == t {
			cands = append(cands, f)
		}
	}
	if len(cands) == 0 {
		return nil
	}
	f := cands[g.pick(len(cands), "fn")]
	return g.callTo(f, d)
}

func (g *gen) callTo(f *Func, d int) *Call {
	c := &Call{Fn: f}
	n := len(f.Params)
	// optionally omit trailing defaulted params
	for n > 0 && f.Params[n-1].Default != nil && !g.ex("default.param") && g.chance(40, "omit") {
		n--
		g.feat("default.param")
	}
	for i := 0; i < n; i++ {
		if f.Recurse && i == 0 {
			c.Args = append(c.Args, &Lit{T: TInt, I: int64(g.intn(0, 5, "rn"))})
			continue
		}
		c.Args = append(c.Args, g.expr(f.Params[i].V.T, min(d-1, 1)))
	}
	g.feat("call")
	return c
}

func (g *gen) genFunc(idx int) {
	ret := Type(g.pick(3, "ret"))
	f := &Func{Name: fmt.Sprintf("f%d", idx), Ret: ret}
	g.fn, g.fnIdx = f, idx
	g.encl, g.loopK = nil, nil
	// locals deliberately reuse the names of main's variables
	g.sc = g.newScope("", 2, 1, 2)
	recurse := !g.ex("recursion") && g.chance(30, "rec")
	np := g.intn(0, 3, "nparams")
	var params []Param
	if recurse {
		f.Recurse = true
		if ret == TBool {
			f.Ret = TInt
			ret = TInt
		}
		params = append(params, Param{V: &Var{Name: "n", T: TInt}})
	}
	allowDefault := true
	var pvars []*Var
	for i := 0; i < np; i++ {
		t := Type(g.pick(3, "pt"))
		v := &Var{Name: fmt.Sprintf("p%d", i), T: t}
		pvars = append(pvars, v)
		params = append(params, Param{V: v})
	}
	// defaults only on a trailing run
	for i := len(params) - 1; i >= 0 && allowDefault; i-- {
		if params[i].V.Name == "n" || !g.chance(45, "def") {
			break
		}
		params[i].Default = g.lit(params[i].V.T)
	}
	f.Params = params
	for _, v := range pvars {
		switch v.T {
		case TInt:
			g.sc.ints = append(g.sc.ints, v)
		case TBool:
			g.sc.bools = append(g.sc.bools, v)
		default:
			g.sc.strs = append(g.sc.strs, v)
		}
	}
	body := []Stmt{}
	// statics
	if !g.ex("static.local") && g.chance(35, "static") {
		sv := &Var{Name: "st", T: TInt}
		body = append(body, &StaticDecl{V: sv, Init: &Lit{T: TInt, I: int64(g.intn(0, 5, "sinit"))}})
		g.feat("static.local")
		switch {
		case !g.ex("static.compound-assign") && g.chance(40, "sca"):
			body = append(body, &Assign{V: sv, Op: "+=", E: &Lit{T: TInt, I: int64(g.intn(1, 3, "sinc"))}})
			g.feat("static.compound-assign")
		case !g.ex("static.assign") && g.chance(50, "sa"):
			body = append(body, &Assign{V: sv, Op: "=", E: &Bin{Op: "+", L: sv, R: &Lit{T: TInt, I: int64(g.intn(1, 3, "sinc"))}, T: TInt}})
			g.feat("static.assign")
		default:
			body = append(body, &IncDec{V: sv, Op: "++"})
			g.feat("static.incr")
		}
		g.sc.statics = append(g.sc.statics, sv)
	} else if !g.ex("static.local") && !g.ex("static.nested-block") && g.chance(25, "nstatic") {
		// a static declared inside a nested block (and nowhere at the top of the body): it is still one
		// variable per function, initialised once and kept across calls and recursion levels
		g.feat("static.local")
		g.feat("static.nested-block")
		sn := &Var{Name: "sn", T: TInt}
		inner := []Stmt{
			&StaticDecl{V: sn, Init: &Lit{T: TInt, I: int64(g.intn(0, 5, "sninit"))}},
			&IncDec{V: sn, Op: "++"},
			&Echo{Args: []Expr{&Lit{T: TStr, S: "sn="}, sn, &Lit{T: TStr, S: ";"}}},
		}
		body = append(body, &If{Cond: &Lit{T: TBool, B: true}, Then: inner})
	}
	body = append(body, g.initScopeLocals(g.sc, pvars)...)
	if recurse {
		g.feat("recursion")
		nv := &Var{Name: "n", T: TInt}
		g.sc.statics = append(g.sc.statics, nv) // readable, never written by generated statements
		body = append(body, &If{Cond: &Bin{Op: "<=", L: nv, R: &Lit{T: TInt, I: 0}, T: TBool}, Then: []Stmt{&Return{E: g.expr(ret, 1)}}})
		body = append(body, g.block(1, g.intn(0, 3, "nrec"))...)
		self := &Call{Fn: f, Args: []Expr{&Bin{Op: "-", L: nv, R: &Lit{T: TInt, I: 1}, T: TInt}}}
		for _, pa := range params[1:] {
			self.Args = append(self.Args, g.expr(pa.V.T, 1))
		}
		var re Expr = self
		if ret == TInt {
			re = &Bin{Op: "+", L: g.expr(TInt, 1), R: self, T: TInt}
		} else if ret == TStr {
			re = &Bin{Op: ".", L: g.expr(TStr, 1), R: self, T: TStr}
		}
		body = append(body, &Return{E: re})
	} else {
		body = append(body, g.block(1, g.intn(1, 5, "nbody"))...)
		body = append(body, &Return{E: g.expr(ret, 2)})
	}
	f.Body = body
	g.p.Funcs = append(g.p.Funcs, f)
}

func (g *gen) initScopeLocals(sc *scope, params []*Var) []Stmt {
	isParam := map[*Var]bool{}
	for _, p := range params {
		isParam[p] = true
	}
	var out []Stmt
	for _, v := range sc.ints {
		if !isParam[v] {
			out = append(out, &Assign{V: v, Op: "=", E: g.lit(TInt)})
		}
	}
	for _, v := range sc.bools {
		if !isParam[v] {
			out = append(out, &Assign{V: v, Op: "=", E: g.lit(TBool)})
		}
	}
	for _, v := range sc.strs {
		if !isParam[v] {
			out = append(out, &Assign{V: v, Op: "=", E: g.lit(TStr)})
		}
	}
	return out
}

var loopNames = []string{"while", "dowhile", "for", "foreach", "fordown"}

func (g *gen) block(d, n int) []Stmt {
	var out []Stmt
	for i := 0; i < n; i++ {
		next := g.stmt(d, i == n-1)
		// a prefix ++/-- statement directly after a do-while is a construct of its own
		if len(out) > 0 && len(next) > 0 {
			if l, ok := out[len(out)-1].(*Loop); ok && l.Kind == KDoWhile {
				if id, ok := next[0].(*IncDec); ok && id.Prefix {
					if g.ex("dowhile.then-prefix-incdec") {
						id.Prefix = false
					} else {
						g.feat("dowhile.then-prefix-incdec")
					}
				}
			}
		}
		out = append(out, next...)
	}
	return out
}

func (g *gen) newCounter() *Var {
	g.nextK++
	return &Var{Name: fmt.Sprintf("k%d", g.nextK), T: TInt}
}

func (g *gen) stmt(d int, last bool) []Stmt {
	simpleOnly := d >= g.cfg.MaxDepth
	k := g.pick(20, "stmt")
	if simpleOnly && k >= 8 {
		k = k % 8
	}
	switch k {
	case 0, 1:
		t := Type(g.pick(3, "at"))
		if t != TBool && !g.ex("match") && g.chance(20, "am") {
			// match is only generated as the direct right-hand side of an assignment
			// (the parser rejects it as an operand or inside parentheses)
			return []Stmt{&Assign{V: g.varOf(t), Op: "=", E: g.match(t, 2)}}
		}
		return []Stmt{&Assign{V: g.varOf(t), Op: "=", E: g.expr(t, 2)}}
	case 2:
		if g.chance(30, "strcomp") {
			return []Stmt{&Assign{V: g.varOf(TStr), Op: ".=", E: g.expr(TStr, 1)}}
		}
		op := []string{"+=", "-=", "*="}[g.pick(3, "cop")]
		g.feat("compound-assign")
		return []Stmt{&Assign{V: g.varOf(TInt), Op: op, E: g.expr(TInt, 1)}}
	case 3:
		op := []string{"++", "--"}[g.pick(2, "incop")]
		pre := !g.ex("prefix.incdec") && g.chance(30, "pre")
		if pre {
			g.feat("prefix.incdec")
		}
		return []Stmt{&IncDec{V: g.varOf(TInt), Op: op, Prefix: pre}}
	case 4, 5, 6:
		n := 1
		if !g.ex("echo.multi") && g.chance(30, "emulti") {
			n = g.intn(2, 3, "necho")
			g.feat("echo.multi")
		}
		var args []Expr
		for i := 0; i < n; i++ {
			if g.chance(50, "et") {
				args = append(args, g.expr(TInt, 2))
			} else {
				args = append(args, g.expr(TStr, 2))
			}
		}
		args = append(args, &Lit{T: TStr, S: ";"})
		if len(args) > 3 {
			args = args[:3]
		}
		return []Stmt{&Echo{Args: args}}
	case 7:
		if s := g.exit(d, last); s != nil {
			return s
		}
		if g.fn == nil && !g.ex("collect") {
			// store a value in the main list; mostly a plain variable read (loop counters included),
			// so that a later write to the variable must not show in what was stored
			g.feat("collect")
			g.p.Acc = true
			switch g.pick(4, "colk") {
			case 0:
				return []Stmt{&Collect{E: g.expr(TInt, 1)}}
			case 1:
				return []Stmt{&Collect{E: g.varOf(TStr)}}
			default:
				return []Stmt{&Collect{E: g.readInt()}}
			}
		}
		return []Stmt{&Echo{Args: []Expr{g.expr(TInt, 1)}}}
	case 8, 9, 10:
		return []Stmt{g.ifStmt(d)}
	case 11, 12, 13, 14:
		return g.loop(d)
	case 15, 16:
		return []Stmt{g.switchStmt(d)}
	case 17:
		if c := g.callOf(Type(g.pick(3, "ct")), 2); c != nil {
			return []Stmt{&ExprStmt{E: c}}
		}
		return []Stmt{g.ifStmt(d)}
	default:
		if g.cfg.Exceptions {
			return g.tryStmt(d)
		}
		return []Stmt{g.ifStmt(d)}
	}
}

func (g *gen) ifStmt(d int) Stmt {
	s := &If{Cond: g.expr(TBool, 2), Then: g.block(d+1, g.intn(1, 3, "nthen"))}
	ne := g.intn(0, 2, "nelif")
	if g.ex("elseif") {
		ne = 0
	}
	for i := 0; i < ne; i++ {
		g.feat("elseif")
		s.Elifs = append(s.Elifs, Elif{Cond: g.expr(TBool, 2), Body: g.block(d+1, g.intn(1, 2, "nelifb"))})
	}
	if g.chance(50, "else") {
		s.Else = g.block(d+1, g.intn(1, 2, "nelse"))
	}
	return s
}

// exit generates a conditional or bare break / continue / return / throw.
func (g *gen) exit(d int, last bool) []Stmt {
	var cands []Stmt
	nEncl := len(g.encl)
	if nEncl > 0 {
		// break with level
		lv := 1
		if nEncl > 1 && !g.ex("break.level>=2") && g.chance(40, "blv") {
			lv = g.intn(2, nEncl, "blevel")
		}
		innerIsSwitch := g.encl[nEncl-1] == 1
		if lv == 1 || true {
			b := &Break{Level: lv}
			tag := "break"
			if lv >= 2 {
				tag = "break.level>=2"
			} else if innerIsSwitch {
				tag = "break.in.switch"
			} else {
				tag = "break.in." + loopNames[g.loopK[len(g.loopK)-1]]
			}
			if !g.ex(tag) {
				cands = append(cands, tagged{b, tag})
			}
		}
		// continue: target must be a loop; a plain continue directly inside a switch is not asserted
		// count levels: level L targets the L-th enclosing construct; it must be a loop.
		var okLevels []int
		for L := 1; L <= nEncl; L++ {
			if g.encl[nEncl-L] == 0 {
				okLevels = append(okLevels, L)
			}
		}
		if len(okLevels) > 0 {
			L := okLevels[g.pick(len(okLevels), "clevel")]
			tag := ""
			switch {
			case L == 1:
				tag = "continue.in." + loopNames[g.loopK[len(g.loopK)-1]]
			case innerIsSwitch && L == 2:
				tag = "switch.continue-level"
			default:
				tag = "continue.level>=2"
			}
			if !g.ex(tag) {
				cands = append(cands, tagged{&Continue{Level: L}, tag})
			}
		}
	}
	if g.fn != nil && !g.ex("early.return") {
		cands = append(cands, tagged{&Return{E: g.expr(g.fn.Ret, 1)}, "early.return"})
	}
	if g.cfg.Exceptions && len(g.excs) > 0 {
		cands = append(cands, tagged{g.throwStmt(), "throw"})
	}
	if len(cands) == 0 {
		return nil
	}
	c := cands[g.pick(len(cands), "exit")].(tagged)
	g.feat(c.tag)
	if !last || g.chance(70, "condexit") {
		cond := g.expr(TBool, 2)
		if n := len(g.sc.statics); n > 0 && g.chance(35, "exitoncounter") {
			// exit on a particular iteration (first, last, one in the middle): the guard reads the
			// innermost readable counter
			op := []string{">=", "==", "<", "!="}[g.pick(4, "cntop")]
			cond = &Bin{Op: op, L: g.sc.statics[n-1], R: &Lit{T: TInt, I: int64(g.intn(0, 4, "cntval"))}, T: TBool}
		}
		return []Stmt{&If{Cond: cond, Then: []Stmt{c.s}}}
	}
	g.feat("bare-exit")
	return []Stmt{c.s}
}

type tagged struct {
	s   Stmt
	tag string
}

func (g *gen) loop(d int) []Stmt {
	kind := g.pick(4, "lkind")
	if g.ex("loop." + loopNames[kind]) {
		kind = KFor
	}
	bound := 4
	if d >= 2 {
		bound = 3
	}
	if d >= 3 {
		bound = 2
	}
	if !g.ex("loop.fordown") && len(g.sc.ints) >= 2 && g.chance(10, "fordown") {
		kind = KForDown
	}
	l := &Loop{Kind: kind}
	var pre []Stmt
	g.feat("loop." + loopNames[kind])
	if kind == KForDown {
		// counts an existing variable down to 0; the body may read it but not write it
		l.K = g.sc.ints[g.pick(len(g.sc.ints), "downvar")]
		saved := *g.sc
		var rest []*Var
		for _, v := range g.sc.ints {
			if v != l.K {
				rest = append(rest, v)
			}
		}
		g.sc.ints = rest
		g.sc.statics = append(append([]*Var{}, g.sc.statics...), l.K)
		g.encl = append(g.encl, 0)
		g.loopK = append(g.loopK, kind)
		l.Body = g.block(d+1, g.intn(1, 3, "ndownbody"))
		g.encl = g.encl[:len(g.encl)-1]
		g.loopK = g.loopK[:len(g.loopK)-1]
		*g.sc = saved
		return []Stmt{l}
	}
	if kind == KForeach {
		n := g.intn(0, bound+1, "nitems")
		keyed := !g.ex("foreach.keyed") && g.chance(35, "keyed")
		vt := Type(TInt)
		if g.chance(40, "fstr") {
			vt = TStr
		}
		for i := 0; i < n; i++ {
			l.Over = append(l.Over, ForeachItem{Key: fmt.Sprintf("%c%d", 'p'+i, i), Val: g.lit(vt)})
		}
		l.Keyed = keyed
		g.nextK++
		l.ValVar = &Var{Name: fmt.Sprintf("v%d", g.nextK), T: vt}
		if keyed || g.chance(30, "withkey") {
			kt := Type(TInt)
			if keyed {
				kt = TStr
				g.feat("foreach.keyed")
			}
			l.KeyVar = &Var{Name: fmt.Sprintf("fk%d", g.nextK), T: kt}
			g.feat("foreach.key=>value")
		}
		if !g.ex("foreach.var") && g.chance(40, "fvar") {
			l.OverV = fmt.Sprintf("arr%d", g.nextK)
			pre = append(pre, &ArrDecl{Name: l.OverV, Items: l.Over, Keyed: keyed})
			g.feat("foreach.var")
		}
	} else {
		l.K = g.newCounter()
		l.N = int64(g.intn(0, bound, "bound"))
		if kind == KFor && !g.ex("loop.for-le") && g.chance(40, "forle") {
			g.feat("loop.for-le")
			l.Le = true
		}
	}
	// body may read the counter / foreach vars
	saved := *g.sc
	if l.K != nil {
		g.sc.statics = append(append([]*Var{}, g.sc.statics...), l.K)
	} else {
		if l.ValVar.T == TInt {
			g.sc.statics = append(append([]*Var{}, g.sc.statics...), l.ValVar)
		}
		if l.KeyVar != nil && l.KeyVar.T == TInt {
			g.sc.statics = append(append([]*Var{}, g.sc.statics...), l.KeyVar)
		}
	}
	g.encl = append(g.encl, 0)
	g.loopK = append(g.loopK, kind)
	l.Body = g.block(d+1, g.intn(1, 4, "nloopbody"))
	if kind == KForeach {
		// make the iteration variables observable
		var args []Expr
		if l.KeyVar != nil {
			if l.KeyVar.T == TInt {
				args = append(args, l.KeyVar)
			} else {
				args = append(args, &Interp{Parts: []any{"", l.KeyVar, ""}})
			}
			args = append(args, &Lit{T: TStr, S: "="})
		}
		if l.ValVar.T == TInt {
			args = append(args, l.ValVar)
		} else {
			args = append(args, &Interp{Parts: []any{"", l.ValVar, ""}})
		}
		args = append(args, &Lit{T: TStr, S: ","})
		l.Body = append([]Stmt{&Echo{Args: args}}, l.Body...)
	}
	if l.K != nil && !g.ex("counter.bump") && g.chance(15, "bump") {
		// the body advances the loop counter itself (skip the next element): the counter then holds a
		// value that was written by the body, not by the loop header
		g.feat("counter.bump")
		var bump Stmt = &IncDec{V: l.K, Op: "++", Prefix: g.chance(50, "bumppre") && !g.ex("prefix.incdec")}
		if g.chance(30, "bumpadd") {
			bump = &Assign{V: l.K, Op: "+=", E: &Lit{T: TInt, I: 1}}
		}
		at := 0
		if len(l.Body) > 1 {
			at = g.pick(len(l.Body), "bumpat") // never after the last statement (it may be an exit)
		}
		if id, ok := bump.(*IncDec); ok && id.Prefix && at > 0 {
			// a prefix ++ directly after a do-while is a construct of its own (see block)
			if prev, ok := l.Body[at-1].(*Loop); ok && prev.Kind == KDoWhile {
				if g.ex("dowhile.then-prefix-incdec") {
					id.Prefix = false
				} else {
					g.feat("dowhile.then-prefix-incdec")
				}
			}
		}
		l.Body = append(append(append([]Stmt{}, l.Body[:at]...), bump), l.Body[at:]...)
	}
	g.encl = g.encl[:len(g.encl)-1]
	g.loopK = g.loopK[:len(g.loopK)-1]
	*g.sc = saved
	if l.K != nil && !g.ex("counter.read-after-loop") && g.chance(40, "readafter") {
		// the value the counter is left with (after the failing test, a break, or a write by the body) is
		// part of the loop's semantics
		g.feat("counter.read-after-loop")
		return append(pre, l, &Echo{Args: []Expr{&Lit{T: TStr, S: l.K.Name + "="}, l.K, &Lit{T: TStr, S: ";"}}})
	}
	return append(pre, l)
}

func (g *gen) switchStmt(d int) Stmt {
	g.feat("switch")
	s := &Switch{Subject: g.expr(TInt, 1)}
	nc := g.intn(1, 4, "ncases")
	used := map[int64]bool{}
	hasDefault := g.chance(70, "hasdef")
	defPos := nc
	if hasDefault && !g.ex("switch.default-middle") && g.chance(35, "defmid") {
		defPos = g.intn(0, nc, "defpos")
	}
	g.encl = append(g.encl, 1)
	for i := 0; i <= nc; i++ {
		if hasDefault && i == defPos {
			if defPos < nc {
				g.feat("switch.default-middle")
			}
			s.Cases = append(s.Cases, SwitchCase{IsDefault: true, Body: g.caseBody(d, i == nc)})
		}
		if i == nc {
			break
		}
		v := int64(g.intn(-2, 8, "cv"))
		if used[v] {
			if g.ex("switch.duplicate-label") || !g.chance(50, "dupcase") {
				continue
			}
			// a label that occurs twice: the first case with it takes the subject, the later one is dead
			g.feat("switch.duplicate-label")
		}
		used[v] = true
		last := i == nc-1 && !(hasDefault && defPos == nc)
		s.Cases = append(s.Cases, SwitchCase{Val: &Lit{T: TInt, I: v}, Body: g.caseBody(d, last)})
	}
	g.encl = g.encl[:len(g.encl)-1]
	return s
}

func (g *gen) caseBody(d int, last bool) []Stmt {
	if !last && !g.ex("switch.group") && g.chance(20, "group") {
		g.feat("switch.group")
		return nil
	}
	body := g.block(d+2, g.intn(1, 2, "ncase"))
	if n := len(body); n > 0 {
		switch body[n-1].(type) {
		case *Break, *Continue, *Return, *Throw:
			return body
		}
	}
	if last {
		if g.chance(50, "lastbreak") {
			body = append(body, &Break{Level: 1})
		}
		return body
	}
	if !g.ex("switch.fallthrough") && g.chance(25, "fall") {
		g.feat("switch.fallthrough")
		return body
	}
	return append(body, &Break{Level: 1})
}

// ---- exception fragment (C05) ----

func (g *gen) genClasses() {
	ni := g.intn(0, 3, "nifaces")
	var ifs []string
	for i := 0; i < ni; i++ {
		n := fmt.Sprintf("Mk%d", i)
		cd := ClassDecl{Name: n, IsIface: true}
		// an interface may extend earlier ones: a class is then caught through an interface that none
		// of its ancestors names directly
		for _, f := range ifs {
			if g.chance(40, "iext") {
				cd.Interfaces = append(cd.Interfaces, f)
				g.feat("interface.extends")
			}
		}
		ifs = append(ifs, n)
		g.p.Classes = append(g.p.Classes, cd)
	}
	nc := g.intn(1, 5, "nexc")
	names := []string{"Exception"}
	for i := 0; i < nc; i++ {
		n := fmt.Sprintf("Ex%d", i)
		parent := names[g.pick(len(names), "parent")]
		cd := ClassDecl{Name: n, Parent: parent}
		for _, f := range ifs {
			if g.chance(30, "impl") {
				cd.Interfaces = append(cd.Interfaces, f)
			}
		}
		names = append(names, n)
		g.p.Classes = append(g.p.Classes, cd)
	}
	g.excs = names
	g.types = append(append([]string{"Throwable"}, names...), ifs...)
}

func (g *gen) throwStmt() Stmt {
	g.tryID++
	return &Throw{Class: g.excs[g.pick(len(g.excs), "tcls")], Msg: fmt.Sprintf("m%d", g.tryID)}
}

func (g *gen) tryStmt(d int) []Stmt {
	g.tryID++
	t := &Try{ID: g.tryID}
	g.feat("try")
	mark := func(s string) Stmt { return &Echo{Args: []Expr{&Lit{T: TStr, S: fmt.Sprintf("[%s%d]", s, t.ID)}}} }
	t.Body = append([]Stmt{mark("t")}, g.block(d+1, g.intn(1, 3, "ntry"))...)
	if g.chance(60, "tthrow") {
		t.Body = append(t.Body, g.exitOrThrow(d+1)...)
	}
	t.Body = append(t.Body, mark("/t"))
	nc := g.intn(0, 3, "ncatch")
	for i := 0; i < nc; i++ {
		cls := g.types[g.pick(len(g.types), "ccls")]
		g.inCatch++
		body := []Stmt{&Echo{Args: []Expr{&Lit{T: TStr, S: fmt.Sprintf("[c%d.%d:", t.ID, i)}, &ExcInfo{What: "class"}, &Lit{T: TStr, S: ":"}, &ExcInfo{What: "msg"}, &Lit{T: TStr, S: "]"}}}}
		body = append(body, g.block(d+1, g.intn(0, 2, "ncatchb"))...)
		if g.chance(30, "cexit") {
			body = append(body, g.exitOrThrow(d+1)...)
		}
		g.inCatch--
		t.Catches = append(t.Catches, Catch{Class: cls, Body: body})
	}
	if nc == 0 || g.chance(60, "hasfin") {
		t.HasFin = true
		g.feat("finally")
		// break/continue may not leave a finally block (PHP: compile error), so
		// inside finally only constructs opened there can be targeted
		savedEncl, savedLoopK := g.encl, g.loopK
		g.encl, g.loopK = nil, nil
		t.Finally = append([]Stmt{mark("f")}, g.block(d+1, g.intn(0, 2, "nfin"))...)
		if !g.ex("finally.exit") && g.chance(15, "finexit") {
			g.feat("finally.exit")
			t.Finally = append(t.Finally, g.exitOrThrow(d+1)...)
		}
		g.encl, g.loopK = savedEncl, savedLoopK
	}
	return []Stmt{t}
}

func (g *gen) exitOrThrow(d int) []Stmt {
	if g.chance(50, "eot") {
		if s := g.exit(d, true); s != nil {
			return s
		}
	}
	g.feat("throw")
	th := g.throwStmt()
	if g.chance(60, "condthrow") {
		return []Stmt{&If{Cond: g.expr(TBool, 2), Then: []Stmt{th}}}
	}
	return []Stmt{th}
}
