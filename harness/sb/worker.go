package sb

import (
	"bufio"
	"encoding/json"
	"fmt"
	"os"
	"runtime"
	"runtime/debug"
	"strconv"
	"strings"
	"sync"
	"time"
)

// Handler runs one case inside the worker. It runs on a dedicated goroutine
// under recover; a panic becomes outcome go_panic with its site.
type Handler func(req *Req) *Rep

var handlers = map[string]Handler{}

// Register installs a worker-side handler for a request kind.
func Register(kind string, h Handler) { handlers[kind] = h }

const repoPrefix = "github.com/php-any/origami/"

// RecoveredPanicMarker is the prefix node/try.go gives to the message of the
// Throwable it manufactures from a recovered Go panic.
const RecoveredPanicMarker = "go作用域异常退出的 panic("

// frameFuncs returns the function names (without the module prefix and
// argument lists) of all /repo frames in a single goroutine stack dump,
// innermost first.
func frameFuncs(stack string) []string {
	var fr []string
	for _, l := range strings.Split(stack, "\n") {
		if strings.HasPrefix(l, repoPrefix) {
			f := strings.TrimPrefix(l, repoPrefix)
			if i := strings.LastIndex(f, "("); i > 0 {
				f = f[:i]
			}
			// drop closure suffixes such as .func1 so the key is stable
			fr = append(fr, f)
		}
	}
	return fr
}

// PanicSite extracts the innermost /repo frame below the panic call from a
// debug.Stack() dump (or from the stack text embedded in a recovered-panic
// Throwable message).
func PanicSite(stack string) string {
	lines := strings.Split(stack, "\n")
	start := 0
	for i, l := range lines {
		if strings.HasPrefix(l, "panic(") || strings.HasPrefix(l, "runtime.panic") || strings.HasPrefix(l, "runtime.goPanic") || strings.HasPrefix(l, "runtime.sigpanic") {
			start = i + 1
		}
	}
	for _, l := range lines[start:] {
		if strings.HasPrefix(l, repoPrefix) {
			f := strings.TrimPrefix(l, repoPrefix)
			if i := strings.LastIndex(f, "("); i > 0 {
				f = f[:i]
			}
			return f
		}
	}
	return "?"
}

// PanicKind normalises a panic value into a short class.
func PanicKind(msg string) string {
	switch {
	case strings.Contains(msg, "nil pointer dereference"):
		return "nil-deref"
	case strings.Contains(msg, "index out of range"):
		return "index"
	case strings.Contains(msg, "slice bounds out of range"):
		return "slice-bounds"
	case strings.Contains(msg, "interface conversion"):
		return "type-assert"
	case strings.Contains(msg, "negative shift amount"):
		return "neg-shift"
	case strings.Contains(msg, "integer divide by zero"):
		return "div-zero"
	case strings.Contains(msg, "stack overflow") || strings.Contains(msg, "goroutine stack exceeds"):
		return "stack"
	case strings.Contains(msg, "reflect"):
		return "reflect"
	case strings.Contains(msg, "send on closed channel"), strings.Contains(msg, "close of closed channel"):
		return "chan"
	}
	return "other"
}

// depthFrames parses one goroutine dump into absolute depth (0 = outermost)
// -> function name, honouring the runtime's "...N frames elided..." gap
// (innermost 50 and outermost 50 frames are printed for deep stacks).
func depthFrames(stack string) map[int]string {
	var inner, outer []string
	elided := -1
	for _, l := range strings.Split(stack, "\n") {
		if strings.HasPrefix(l, "...") && strings.Contains(l, "frames elided") {
			f := strings.Fields(strings.TrimPrefix(l, "..."))
			if len(f) > 0 {
				elided, _ = strconv.Atoi(f[0])
			}
			continue
		}
		if l == "" || l[0] == '\t' || strings.HasPrefix(l, "goroutine ") || strings.HasPrefix(l, "created by ") {
			continue
		}
		fn := l
		if i := strings.LastIndex(fn, "("); i > 0 {
			fn = fn[:i]
		}
		if elided < 0 {
			inner = append(inner, fn)
		} else {
			outer = append(outer, fn)
		}
	}
	m := map[int]string{}
	if elided < 0 {
		n := len(inner)
		for i, f := range inner {
			m[n-1-i] = f
		}
		return m
	}
	total := len(inner) + elided + len(outer)
	for i, f := range inner {
		m[total-1-i] = f
	}
	for j, f := range outer {
		m[len(outer)-1-j] = f
	}
	return m
}

// hangSite picks the deepest /repo function that all samples agree on at the
// same absolute depth, with no disagreement at any shallower visible depth.
func hangSite(samples []map[int]string) string {
	if len(samples) == 0 {
		return "?"
	}
	maxd := 0
	for d := range samples[0] {
		if d > maxd {
			maxd = d
		}
	}
	site := "?"
	for d := 0; d <= maxd; d++ {
		f0, ok0 := samples[0][d]
		visibleAll, agree := ok0, true
		for _, s := range samples[1:] {
			f, ok := s[d]
			if !ok {
				visibleAll = false
				continue
			}
			if ok0 && f != f0 {
				agree = false
			}
			if !ok0 {
				f0, ok0 = f, true
			}
		}
		if !agree {
			break
		}
		if !visibleAll {
			// elided in some samples (fine) or beyond the top of a shallower sample (the varying region starts here)
			deeperThanSome := false
			for _, s := range samples {
				top := 0
				for dd := range s {
					if dd > top {
						top = dd
					}
				}
				if d > top {
					deeperThanSome = true
				}
			}
			if deeperThanSome {
				break
			}
			continue
		}
		if strings.HasPrefix(f0, repoPrefix) {
			site = strings.TrimPrefix(f0, repoPrefix)
		}
	}
	return site
}

func caseStack() string {
	buf := make([]byte, 1<<20)
	n := runtime.Stack(buf, true)
	for _, g := range strings.Split(string(buf[:n]), "\n\n") {
		if strings.Contains(g, "sb.caseGoroutine") {
			return g
		}
	}
	return ""
}

//go:noinline
func caseGoroutine(h Handler, req *Req) (rep *Rep) {
	defer func() {
		if r := recover(); r != nil {
			st := string(debug.Stack())
			msg := fmt.Sprint(r)
			if len(msg) > 400 {
				msg = msg[:400]
			}
			rep = &Rep{Outcome: GoPanic, Msg: msg, Site: PanicSite(st), Phase: curPhase}
		}
	}()
	return h(req)
}

// curPhase is set by handlers ("lex", "parse", "run") so that a panic or hang
// can be attributed to a phase. Only the case goroutine writes it; the sampler
// reads it after the fact (a stale read only mislabels a phase).
var curPhase string

// SetPhase records the current phase of the running case and tells the parent
// (so that a hang whose sampler never reports can still be attributed to a phase).
func SetPhase(p string) {
	curPhase = p
	if phaseSend != nil {
		phaseSend(p)
	}
}

var phaseSend func(p string)

// WorkerTmp is a per-worker scratch directory (removed by the parent).
var WorkerTmp string

// MaybeWorker turns the process into a worker when VERIF_WORKER=1.
func MaybeWorker() {
	if os.Getenv("VERIF_WORKER") != "1" {
		return
	}
	WorkerTmp = os.Getenv("VERIF_WORKER_TMP")
	ppid := os.Getppid()
	go func() { // the parent died without closing our stdin (or we are stuck in a case): leave
		for {
			time.Sleep(500 * time.Millisecond)
			if os.Getppid() != ppid {
				os.Exit(3)
			}
		}
	}()
	out := os.NewFile(3, "reply")
	w := bufio.NewWriterSize(out, 1<<16)
	enc := json.NewEncoder(w)
	var sendMu sync.Mutex
	send := func(r *Rep) {
		sendMu.Lock()
		enc.Encode(r)
		w.Flush()
		sendMu.Unlock()
	}
	phaseSend = func(p string) { send(&Rep{Kind: "phase", Phase: p}) }
	dec := json.NewDecoder(bufio.NewReaderSize(os.Stdin, 1<<20))
	for {
		var rq Req
		if err := dec.Decode(&rq); err != nil {
			os.Exit(0)
		}
		h := handlers[rq.Kind]
		if h == nil {
			send(&Rep{Kind: "reply", Outcome: Infra, Msg: "no handler " + rq.Kind})
			continue
		}
		curPhase = ""
		done := make(chan *Rep, 1)
		start := time.Now()
		go func() { done <- caseGoroutine(h, &rq) }()
		slowAfter := 300 * time.Millisecond
		select {
		case r := <-done:
			r.Kind = "reply"
			r.Ms = float64(time.Since(start).Microseconds()) / 1000
			send(r)
		case <-time.After(slowAfter):
			// classify the hang site: the deepest /repo frame that sits at the same
			// absolute stack depth with the same function in every sample (frames
			// below the spinning loop come and go, the loop's owner stays).
			var samplesD []map[int]string
			finished := false
			var fin *Rep
			sampleEnd := time.Now().Add(400 * time.Millisecond)
			for i := 0; i < 300 && !finished && time.Now().Before(sampleEnd); i++ {
				select {
				case fin = <-done:
					finished = true
					continue
				default:
				}
				if m := depthFrames(caseStack()); len(m) > 0 {
					samplesD = append(samplesD, m)
				}
				time.Sleep(300 * time.Microsecond)
			}
			site := hangSite(samplesD)
			if !finished {
				send(&Rep{Kind: "hangsite", Site: site, Phase: curPhase})
				fin = <-done // may never come; the parent kills us
			}
			fin.Kind = "reply"
			fin.Slow = true
			fin.Ms = float64(time.Since(start).Microseconds()) / 1000
			send(fin)
		}
	}
}
