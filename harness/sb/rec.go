package sb

import (
	"bufio"
	"crypto/sha256"
	"encoding/binary"
	"encoding/hex"
	"encoding/json"
	"fmt"
	"hash/fnv"
	"os"
	"path/filepath"
	"sort"
	"strconv"
	"strings"
	"sync"
	"time"
)

// Config is what the driver passes to a shard through the environment.
type Config struct {
	Prop    string
	Tier    string // quick | thorough
	Seed    uint64
	Shard   int
	NShards int
	Out     string // result file of this shard
	Root    string // /verif
	Replay  string // replay file, if any
}

// LoadConfig reads the VERIF_* environment.
func LoadConfig(prop string) Config {
	c := Config{Prop: prop, Tier: os.Getenv("VERIF_TIER"), Out: os.Getenv("VERIF_OUT"), Root: os.Getenv("VERIF_ROOT"), Replay: os.Getenv("VERIF_REPLAY")}
	if c.Tier == "" {
		c.Tier = "quick"
	}
	if c.Root == "" {
		c.Root = "/verif"
	}
	s, _ := strconv.ParseUint(os.Getenv("VERIF_SEED"), 10, 64)
	if s == 0 {
		s = 1
	}
	c.Seed = s
	c.Shard, _ = strconv.Atoi(os.Getenv("VERIF_SHARD"))
	c.NShards, _ = strconv.Atoi(os.Getenv("VERIF_NSHARDS"))
	if c.NShards <= 0 {
		c.NShards = 1
	}
	return c
}

// Repo is the tree under test: /repo, except in development runs of seeded changes on a scratch
// worktree (VERIF_DEV_REPO, never set by a registered command).
func Repo() string {
	if r := os.Getenv("VERIF_DEV_REPO"); r != "" {
		return strings.TrimRight(r, "/")
	}
	return "/repo"
}

// Thorough reports whether the thorough tier was requested.
func (c Config) Thorough() bool { return c.Tier == "thorough" }

// ShardSeed derives the rapid seed of this shard (never 0).
func (c Config) ShardSeed(salt string) uint64 {
	h := fnv.New64a()
	fmt.Fprintf(h, "%d|%s|%s|%d", c.Seed, c.Prop, salt, c.Shard)
	x := h.Sum64()
	// splitmix finaliser
	x ^= x >> 30
	x *= 0xbf58476d1ce4e5b9
	x ^= x >> 27
	x *= 0x94d049bb133111eb
	x ^= x >> 31
	if x == 0 {
		x = 1
	}
	return x
}

// Mine reports whether item i of an enumeration belongs to this shard.
func (c Config) Mine(i int) bool { return i%c.NShards == c.Shard }

// Finding is one line of KNOWN_FINDINGS.txt.
type Finding struct {
	Prop  string
	Key   string
	Repro string
	Desc  string
}

// LoadFindings parses KNOWN_FINDINGS.txt ("finding:" lines only; "fixed:"
// lines suppress nothing and are ignored here).
func LoadFindings(root, prop string) map[string]*Finding {
	out := map[string]*Finding{}
	f, err := os.Open(filepath.Join(root, "KNOWN_FINDINGS.txt"))
	if err != nil {
		return out
	}
	defer f.Close()
	sc := bufio.NewScanner(f)
	sc.Buffer(make([]byte, 1<<20), 1<<20)
	for sc.Scan() {
		l := strings.TrimSpace(sc.Text())
		if !strings.HasPrefix(l, "finding:") {
			continue
		}
		l = strings.TrimSpace(strings.TrimPrefix(l, "finding:"))
		head, desc, _ := strings.Cut(l, " :: ")
		fd := &Finding{Desc: strings.TrimSpace(desc)}
		for _, kv := range strings.Fields(head) {
			k, v, ok := strings.Cut(kv, "=")
			if !ok {
				continue
			}
			switch k {
			case "property":
				fd.Prop = v
			case "key":
				fd.Key = v
			case "repro":
				fd.Repro = v
			}
		}
		if fd.Prop == prop && fd.Key != "" {
			out[fd.Key] = fd
		}
	}
	return out
}

// Violation is a failure that is not covered by a known finding.
type Violation struct {
	Key    string `json:"key"`
	Detail string `json:"detail"`
	Replay string `json:"replay"` // path of the replay file written
}

// KnownHit counts observations of a known finding in this run.
type KnownHit struct {
	Key    string `json:"key"`
	Count  int    `json:"count"`
	Detail string `json:"detail"`
}

// Result is what one shard writes.
type Result struct {
	Prop         string              `json:"property"`
	Tier         string              `json:"tier"`
	Seed         uint64              `json:"seed"`
	Shard        int                 `json:"shard"`
	Evaluations  int                 `json:"evaluations"`
	Labels       map[string]int      `json:"labels"`
	Samples      map[string][]string `json:"samples"`
	Violations   []Violation         `json:"violations"`
	Known        []KnownHit          `json:"known"`
	Exhaustive   bool                `json:"exhaustive"`
	Rule         string              `json:"rule"`
	Notes        []string            `json:"notes"`
	Infra        []string            `json:"infra"`
	Inconclusive []string            `json:"inconclusive"`
	WallS        float64             `json:"wall_s"`
	HashFile     string              `json:"hash_file"`
	Extra        map[string]any      `json:"extra,omitempty"`
}

// Rec accumulates what a shard explored.
type Rec struct {
	mu              sync.Mutex
	Cfg             Config
	R               Result
	hashes          map[uint64]struct{}
	known           map[string]*Finding
	hits            map[string]*KnownHit
	start           time.Time
	perLabelSamples int
	vioKeys         map[string]bool
}

// NewRec creates the recorder of a shard.
func NewRec(cfg Config) *Rec {
	r := &Rec{Cfg: cfg, hashes: map[uint64]struct{}{}, hits: map[string]*KnownHit{}, start: time.Now(), perLabelSamples: 3, vioKeys: map[string]bool{}}
	r.R = Result{Prop: cfg.Prop, Tier: cfg.Tier, Seed: cfg.Seed, Shard: cfg.Shard, Labels: map[string]int{}, Samples: map[string][]string{}, Extra: map[string]any{}}
	r.known = LoadFindings(cfg.Root, cfg.Prop)
	return r
}

// IsKnown reports whether key is listed as a known finding of this property.
func (r *Rec) IsKnown(key string) bool {
	if survey {
		return true
	}
	_, ok := r.known[key]
	return ok
}

// survey mode (VERIF_SURVEY=1, development only): every failure key is treated
// as known so that one run lists all failure keys with counts.
var survey = os.Getenv("VERIF_SURVEY") == "1"

// SeenViolation reports whether a violation with this key was already recorded in this run.
func (r *Rec) SeenViolation(key string) bool { r.mu.Lock(); defer r.mu.Unlock(); return r.vioKeys[key] }

// KnownKeys lists the known-finding keys of this property.
func (r *Rec) KnownKeys() []string {
	var ks []string
	for k := range r.known {
		ks = append(ks, k)
	}
	sort.Strings(ks)
	return ks
}

// Finding returns the finding for a key.
func (r *Rec) Finding(key string) *Finding { return r.known[key] }

// Eval counts one evaluation.
func (r *Rec) Eval() { r.mu.Lock(); r.R.Evaluations++; r.mu.Unlock() }

// EvalN counts n evaluations.
func (r *Rec) EvalN(n int) { r.mu.Lock(); r.R.Evaluations += n; r.mu.Unlock() }

// Hash64 hashes a case identity.
func Hash64(parts ...string) uint64 {
	h := sha256.New()
	for _, p := range parts {
		h.Write([]byte(p))
		h.Write([]byte{0})
	}
	return binary.LittleEndian.Uint64(h.Sum(nil)[:8])
}

// NonTrivial records a distinct non-trivial case by identity.
func (r *Rec) NonTrivial(identity ...string) {
	h := Hash64(identity...)
	r.mu.Lock()
	if _, seen := r.hashes[h]; !seen && len(r.R.Samples["non-trivial case"]) < r.perLabelSamples {
		// every check shows at least a few of the cases it counted as non-trivial
		t := strings.Join(identity, " | ")
		if len(t) > 600 {
			t = t[:600] + "…"
		}
		r.R.Samples["non-trivial case"] = append(r.R.Samples["non-trivial case"], t)
	}
	r.hashes[h] = struct{}{}
	r.mu.Unlock()
}

// Label counts a label and keeps the first few samples of it.
func (r *Rec) Label(label, sample string) {
	r.mu.Lock()
	r.R.Labels[label]++
	if sample != "" && len(r.R.Samples[label]) < r.perLabelSamples {
		if len(sample) > 1500 {
			sample = sample[:1500] + "…"
		}
		r.R.Samples[label] = append(r.R.Samples[label], sample)
	}
	r.mu.Unlock()
}

// Note adds a free-text note to the result.
func (r *Rec) Note(format string, a ...any) {
	r.mu.Lock()
	r.R.Notes = append(r.R.Notes, fmt.Sprintf(format, a...))
	r.mu.Unlock()
}

// InfraProblem records an infrastructure problem (exit 2, never a violation).
func (r *Rec) InfraProblem(format string, a ...any) {
	r.mu.Lock()
	if len(r.R.Infra) < 50 {
		r.R.Infra = append(r.R.Infra, fmt.Sprintf(format, a...))
	}
	r.mu.Unlock()
}

// Inconclusive records a case whose budget was hit (never a violation).
func (r *Rec) Inconclusive(format string, a ...any) {
	r.mu.Lock()
	if len(r.R.Inconclusive) < 50 {
		r.R.Inconclusive = append(r.R.Inconclusive, fmt.Sprintf(format, a...))
	}
	r.R.Labels["inconclusive"]++
	r.mu.Unlock()
}

// Fail reports a failing case under a key. If the key is a known finding the
// hit is counted and false is returned; otherwise a replay file is written, a
// violation recorded and true returned. replay is the JSON-serialisable case.
func (r *Rec) Fail(key, detail string, replay any) bool {
	r.mu.Lock()
	defer r.mu.Unlock()
	if _, ok := r.known[key]; ok || survey {
		h := r.hits[key]
		if h == nil && survey && r.known[key] == nil {
			// development aid: keep a reproducer for every key seen
			dir := filepath.Join(r.Cfg.Root, ".tmp", "survey", r.Cfg.Prop)
			os.MkdirAll(dir, 0o755)
			b, _ := json.Marshal(replay)
			rf := ReplayFile{Prop: r.Cfg.Prop, Key: key, Detail: detail, Case: b}
			out, _ := json.MarshalIndent(rf, "", " ")
			sum := sha256.Sum256([]byte(key))
			dst := filepath.Join(dir, hex.EncodeToString(sum[:6])+".json")
			tmp := fmt.Sprintf("%s.%d.tmp", dst, os.Getpid())
			if os.WriteFile(tmp, out, 0o644) == nil {
				os.Rename(tmp, dst)
			}
		}
		if h == nil {
			if len(detail) > 600 {
				detail = detail[:600] + "…"
			}
			h = &KnownHit{Key: key, Detail: detail}
			r.hits[key] = h
		}
		h.Count++
		return false
	}
	if r.vioKeys[key] && len(r.R.Violations) >= 1 {
		// one replay per key is enough; count the rest
		r.R.Labels["violation-repeat:"+key]++
		return true
	}
	r.vioKeys[key] = true
	path := r.writeReplay(key, detail, replay)
	if len(detail) > 2000 {
		detail = detail[:2000] + "…"
	}
	if len(r.R.Violations) < 40 {
		r.R.Violations = append(r.R.Violations, Violation{Key: key, Detail: detail, Replay: path})
	}
	return true
}

// ReplayFile is the on-disk format of a replay.
type ReplayFile struct {
	Prop   string          `json:"property"`
	Key    string          `json:"key"`
	Detail string          `json:"detail"`
	Case   json.RawMessage `json:"case"`
}

func (r *Rec) writeReplay(key, detail string, replay any) string {
	if r.Cfg.Replay != "" {
		return r.Cfg.Replay // replaying: do not write new files
	}
	b, err := json.Marshal(replay)
	if err != nil {
		b, _ = json.Marshal(fmt.Sprint(replay))
	}
	rf := ReplayFile{Prop: r.Cfg.Prop, Key: key, Detail: detail, Case: b}
	out, _ := json.MarshalIndent(rf, "", " ")
	sum := sha256.Sum256(append([]byte(key), b...))
	dir := filepath.Join(r.Cfg.Root, "replays", r.Cfg.Prop)
	os.MkdirAll(dir, 0o755)
	path := filepath.Join(dir, hex.EncodeToString(sum[:6])+".json")
	os.WriteFile(path, out, 0o644)
	return path
}

// LoadReplay reads a replay file.
func LoadReplay(path string) (*ReplayFile, error) {
	b, err := os.ReadFile(path)
	if err != nil {
		return nil, err
	}
	var rf ReplayFile
	if err := json.Unmarshal(b, &rf); err != nil {
		return nil, err
	}
	return &rf, nil
}

// Flush writes the shard result (and its hash file).
func (r *Rec) Flush() error {
	r.mu.Lock()
	defer r.mu.Unlock()
	r.R.WallS = time.Since(r.start).Seconds()
	r.R.Known = r.R.Known[:0]
	var ks []string
	for k := range r.hits {
		ks = append(ks, k)
	}
	sort.Strings(ks)
	for _, k := range ks {
		r.R.Known = append(r.R.Known, *r.hits[k])
	}
	if r.Cfg.Out == "" {
		return nil
	}
	hf := r.Cfg.Out + ".hashes"
	buf := make([]byte, 0, 8*len(r.hashes))
	for h := range r.hashes {
		buf = binary.LittleEndian.AppendUint64(buf, h)
	}
	if err := os.WriteFile(hf, buf, 0o644); err != nil {
		return err
	}
	r.R.HashFile = hf
	b, err := json.Marshal(&r.R)
	if err != nil {
		return err
	}
	return os.WriteFile(r.Cfg.Out, b, 0o644)
}

// Distinct returns the current number of distinct non-trivial cases.
func (r *Rec) Distinct() int { r.mu.Lock(); defer r.mu.Unlock(); return len(r.hashes) }
