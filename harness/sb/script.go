package sb

import (
	"fmt"
	"math"
	"os"
	"path/filepath"
	"strconv"
	"strings"

	"github.com/php-any/origami/data"
	"github.com/php-any/origami/node"
	"github.com/php-any/origami/parser"
	"github.com/php-any/origami/runtime"
	"github.com/php-any/origami/std"
	ohttp "github.com/php-any/origami/std/net/http"
	"github.com/php-any/origami/std/php"
)

// Snapshot renders a deep, typed, canonical snapshot of a script value.
func Snapshot(v data.GetValue) string {
	var sb strings.Builder
	snap(&sb, v, 0)
	return sb.String()
}

func snap(sb *strings.Builder, v data.GetValue, depth int) {
	if depth > 12 {
		sb.WriteString("…")
		return
	}
	switch x := v.(type) {
	case nil:
		sb.WriteString("nil")
	case *data.IntValue:
		sb.WriteString("i:" + strconv.Itoa(x.Value))
	case *data.FloatValue:
		f := x.Value
		sb.WriteString("f:" + strconv.FormatFloat(f, 'g', -1, 64))
		if f == 0 && math.Signbit(f) {
			// -0 prints as "-0" already with 'g'
		}
	case *data.BoolValue:
		if x.Value {
			sb.WriteString("b:1")
		} else {
			sb.WriteString("b:0")
		}
	case *data.StringValue:
		sb.WriteString("s:" + strconv.Quote(x.Value))
	case *data.NullValue:
		sb.WriteString("n")
	case *data.ArrayValue:
		sb.WriteString("a[")
		for i, z := range x.List {
			if i > 0 {
				sb.WriteString(",")
			}
			if z == nil {
				sb.WriteString(strconv.Itoa(i) + "=>nilcell")
				continue
			}
			if z.Name != "" {
				sb.WriteString(strconv.Quote(z.Name))
			} else {
				sb.WriteString(strconv.Itoa(i))
			}
			sb.WriteString("=>")
			snap(sb, z.Value, depth+1)
		}
		sb.WriteString("]")
	case *data.ClassValue:
		sb.WriteString("o:" + x.Class.GetName() + "{")
		first := true
		if x.ObjectValue != nil {
			x.ObjectValue.RangeProperties(func(k string, pv data.Value) bool {
				if !first {
					sb.WriteString(",")
				}
				first = false
				sb.WriteString(k + "=>")
				snap(sb, pv, depth+1)
				return true
			})
		}
		sb.WriteString("}")
	case *data.ObjectValue:
		sb.WriteString("O{")
		first := true
		x.RangeProperties(func(k string, pv data.Value) bool {
			if !first {
				sb.WriteString(",")
			}
			first = false
			sb.WriteString(strconv.Quote(k) + "=>")
			snap(sb, pv, depth+1)
			return true
		})
		sb.WriteString("}")
	default:
		sb.WriteString(fmt.Sprintf("?%T", v))
	}
}

type obsFunc struct {
	name string
	fn   func(l string, v data.GetValue)
}

func (f *obsFunc) Call(ctx data.Context) (data.GetValue, data.Control) {
	l, _ := ctx.GetIndexValue(0)
	v, _ := ctx.GetIndexValue(1)
	ls := ""
	if l != nil {
		ls = l.AsString()
	}
	f.fn(ls, v)
	return data.NewNullValue(), nil
}
func (f *obsFunc) GetName() string { return f.name }
func (f *obsFunc) GetParams() []data.GetValue {
	return []data.GetValue{node.NewParameter(nil, "l", 0, nil, nil), node.NewParameter(nil, "v", 1, node.NewNullLiteral(nil), nil)}
}
func (f *obsFunc) GetVariables() []data.Variable {
	return []data.Variable{node.NewVariable(nil, "l", 0, nil), node.NewVariable(nil, "v", 1, nil)}
}

type inFunc struct{ vals []data.Value }

// NewInFunc returns the script function __in(i) over the given values.
func NewInFunc(vals []data.Value) data.FuncStmt { return &inFunc{vals: vals} }

func (f *inFunc) Call(ctx data.Context) (data.GetValue, data.Control) {
	iv, _ := ctx.GetIndexValue(0)
	if n, ok := iv.(*data.IntValue); ok && n.Value >= 0 && n.Value < len(f.vals) {
		return f.vals[n.Value], nil
	}
	return data.NewNullValue(), nil
}
func (f *inFunc) GetName() string { return "__in" }
func (f *inFunc) GetParams() []data.GetValue {
	return []data.GetValue{node.NewParameter(nil, "i", 0, nil, nil)}
}
func (f *inFunc) GetVariables() []data.Variable {
	return []data.Variable{node.NewVariable(nil, "i", 0, nil)}
}

// ScriptEnv is a fresh interpreter instance with output capture.
type ScriptEnv struct {
	P      *parser.Parser
	VM     data.VM
	Out    strings.Builder
	Obs    []string
	Thrown data.Control
	OutCap int
}

// NewScriptEnv builds a fresh parser + VM with the standard library loaded,
// output captured and the observation sink installed.
func NewScriptEnv(loads string) *ScriptEnv {
	e := &ScriptEnv{OutCap: 1 << 20}
	e.P = parser.NewParser()
	e.VM = runtime.NewVM(e.P)
	std.Load(e.VM)
	php.Load(e.VM)
	if strings.Contains(loads, "http") {
		ohttp.Load(e.VM)
	}
	node.ResetSuperglobals()
	data.ResetUserOutput()
	data.WriteOutput = func(s string) {
		if e.Out.Len() < e.OutCap {
			e.Out.WriteString(s)
		}
	}
	e.VM.SetThrowControl(func(acl data.Control) {
		if e.Thrown == nil {
			e.Thrown = acl
		}
	})
	e.VM.AddFunc(&obsFunc{name: "__obs", fn: func(l string, v data.GetValue) {
		if len(e.Obs) < 4096 {
			e.Obs = append(e.Obs, l+"="+Snapshot(v))
		}
	}})
	return e
}

// DescribeControl fills outcome fields from a control that reached the top.
func DescribeControl(rep *Rep, c data.Control) {
	rep.Msg = safeAsString(c)
	if tv, ok := c.(*data.ThrowValue); ok && tv != nil {
		if tv.Object != nil && tv.Object.Class != nil {
			rep.Class = tv.Object.Class.GetName()
		} else {
			rep.Class = tv.Name
		}
		if tv.Error != nil && tv.Error.From != nil {
			sl, _ := tv.Error.From.GetStartPosition()
			rep.Pos = true
			rep.Line = sl + 1
			rep.File = tv.Error.From.GetSource()
		}
	} else if gf, ok := c.(node.GetFrom); ok {
		if f := gf.GetFrom(); f != nil {
			sl, _ := f.GetStartPosition()
			rep.Pos = true
			rep.Line = sl + 1
			rep.File = f.GetSource()
		}
	}
	if strings.Contains(rep.Msg, RecoveredPanicMarker) {
		rep.Outcome = GoPanic
		rep.Site = PanicSite(rep.Msg)
	}
	if len(rep.Msg) > 600 {
		rep.Msg = rep.Msg[:600]
	}
}

func safeAsString(c data.Control) (s string) {
	defer func() {
		if r := recover(); r != nil {
			s = fmt.Sprintf("<AsString panicked: %v>", r)
		}
	}()
	return c.AsString()
}

// RunScript is the "script" handler: parse (plain or template mode) and
// optionally execute on a fresh VM.
func RunScript(req *Req) *Rep {
	rep := &Rep{}
	e := NewScriptEnv(req.Loads)
	defer func() { data.WriteOutput = data.DefaultOutputWriter }()
	if ins := inputsFrom(req.Data); ins != nil {
		// __in(i): the i-th input value of the request (arbitrary bytes, built in Go)
		e.VM.AddFunc(&inFunc{vals: ins})
	}
	name := req.Name
	var prog *node.Program
	var acl data.Control
	SetPhase("parse")
	if req.Tmpl {
		if name == "" {
			name = "case.php"
		}
		path := filepath.Join(WorkerTmp, name)
		if err := os.WriteFile(path, []byte(req.Src), 0o644); err != nil {
			rep.Outcome = Infra
			rep.Msg = err.Error()
			return rep
		}
		prog, acl = e.P.ParseFile(path)
	} else {
		if name == "" {
			name = "case.zy"
		}
		prog, acl = e.P.ParseString(req.Src, name)
	}
	if acl != nil {
		rep.Outcome = ParseError
		DescribeControl(rep, acl)
		if rep.Outcome != GoPanic {
			rep.Outcome = ParseError
		}
		rep.Phase = "parse"
		return rep
	}
	rep.Outcome = OK
	rep.Phase = "parse"
	if !req.Run {
		return rep
	}
	SetPhase("run")
	rep.Phase = "run"
	vars := e.P.GetVariables()
	ctx := e.VM.CreateContext(vars)
	if rv, ok := e.VM.(*runtime.VM); ok {
		rv.RegisterGlobalContext(vars, ctx)
	}
	func() {
		defer func() {
			// keep what was printed and observed before a panic
			if r := recover(); r != nil {
				rep.Stdout = e.Out.String()
				rep.Obs = e.Obs
				panic(r)
			}
		}()
		_, c := prog.GetValue(ctx)
		if c != nil && e.Thrown == nil {
			e.Thrown = c
		}
	}()
	if data.FlushAllBuffersFn != nil {
		data.FlushAllBuffersFn()
	}
	rep.Stdout = e.Out.String()
	rep.Obs = e.Obs
	if e.Thrown != nil {
		rep.Outcome = Uncaught
		DescribeControl(rep, e.Thrown)
	}
	// a recovered panic may have been caught by the script itself and only
	// reported through __obs / echo
	if rep.Outcome != GoPanic {
		for _, o := range rep.Obs {
			if strings.Contains(o, RecoveredPanicMarker) {
				rep.Outcome = GoPanic
				rep.Msg = o
				if len(rep.Msg) > 600 {
					rep.Msg = rep.Msg[:600]
				}
				rep.Site = PanicSite(unquoteLoose(o))
				break
			}
		}
		if rep.Outcome != GoPanic && strings.Contains(rep.Stdout, RecoveredPanicMarker) {
			rep.Outcome = GoPanic
			i := strings.Index(rep.Stdout, RecoveredPanicMarker)
			rep.Msg = rep.Stdout[i:min(len(rep.Stdout), i+600)]
			rep.Site = PanicSite(rep.Stdout[i:])
		}
	}
	return rep
}

func unquoteLoose(s string) string {
	return strings.ReplaceAll(strings.ReplaceAll(s, `\n`, "\n"), `\t`, "\t")
}

func init() { Register("script", RunScript) }
