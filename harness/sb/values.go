package sb

import (
	"encoding/hex"
	"encoding/json"
	"math"

	"github.com/php-any/origami/data"
)

// ValDesc describes a script value to be built inside the worker (strings are
// hex-encoded so that arbitrary bytes survive the JSON pipe).
type ValDesc struct {
	T     string    `json:"t"` // int float str bool null list map
	I     int64     `json:"i,omitempty"`
	F     float64   `json:"f"`           // no omitempty: -0.0 must survive
	H     string    `json:"h,omitempty"` // hex of string bytes
	B     bool      `json:"b,omitempty"`
	Keys  []string  `json:"keys,omitempty"` // hex-encoded keys for map
	Items []ValDesc `json:"items,omitempty"`
}

// JSON has no spelling for the infinities: a float description carries them in H.
type valDescJSON ValDesc

func (d ValDesc) MarshalJSON() ([]byte, error) {
	a := valDescJSON(d)
	if d.T == "float" && math.IsInf(d.F, 0) {
		a.H, a.F = "+inf", 0
		if d.F < 0 {
			a.H = "-inf"
		}
	}
	return json.Marshal(a)
}

func (d *ValDesc) UnmarshalJSON(b []byte) error {
	var a valDescJSON
	if err := json.Unmarshal(b, &a); err != nil {
		return err
	}
	*d = ValDesc(a)
	if d.T == "float" && (d.H == "+inf" || d.H == "-inf") {
		d.F = math.Inf(1)
		if d.H == "-inf" {
			d.F = math.Inf(-1)
		}
		d.H = ""
	}
	return nil
}

// Str builds a string description from raw bytes.
func Str(b string) ValDesc { return ValDesc{T: "str", H: hex.EncodeToString([]byte(b))} }

// Build constructs the script value.
func (d ValDesc) Build() data.Value {
	switch d.T {
	case "int":
		return data.NewIntValue(int(d.I))
	case "float":
		return data.NewFloatValue(d.F)
	case "str":
		b, _ := hex.DecodeString(d.H)
		return data.NewStringValue(string(b))
	case "bool":
		return data.NewBoolValue(d.B)
	case "list":
		vals := make([]data.Value, len(d.Items))
		for i, it := range d.Items {
			vals[i] = it.Build()
		}
		return data.NewArrayValue(vals)
	case "map":
		// a string-keyed literal is an object-like value in origami (same as ["k" => v])
		o := data.NewObjectValue()
		for i, it := range d.Items {
			k, _ := hex.DecodeString(d.Keys[i])
			o.SetProperty(string(k), it.Build())
		}
		return o
	}
	return data.NewNullValue()
}

// inputsFrom decodes the request payload of a script request into values.
func inputsFrom(raw json.RawMessage) []data.Value {
	if len(raw) == 0 {
		return nil
	}
	var ds []ValDesc
	if err := json.Unmarshal(raw, &ds); err != nil {
		return nil
	}
	out := make([]data.Value, len(ds))
	for i, d := range ds {
		out[i] = d.Build()
	}
	return out
}
