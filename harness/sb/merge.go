package sb

import (
	"encoding/binary"
	"encoding/json"
	"fmt"
	"os"
	"path/filepath"
	"sort"
	"strconv"
	"strings"
)

// MaybeMerge implements the merge mode of the test binary:
// VERIF_MERGE=<dir with shard result files>. It writes evidence/<id>.json,
// prints KNOWN-FINDING / VIOLATION lines and exits with the check's status.
func MaybeMerge() {
	dir := os.Getenv("VERIF_MERGE")
	if dir == "" {
		return
	}
	prop := os.Getenv("VERIF_PROP")
	cfg := LoadConfig(prop)
	wall, _ := strconv.ParseFloat(os.Getenv("VERIF_WALL"), 64)
	expect, _ := strconv.Atoi(os.Getenv("VERIF_EXPECT_SHARDS"))
	level := os.Getenv("VERIF_LEVEL")
	if level == "" {
		level = "exploration"
	}
	os.Exit(merge(cfg, dir, wall, expect, level))
}

func merge(cfg Config, dir string, wall float64, expect int, level string) int {
	files, _ := filepath.Glob(filepath.Join(dir, "shard-*.json"))
	sort.Strings(files)
	hashes := map[uint64]struct{}{}
	labels := map[string]int{}
	samples := map[string][]string{}
	var vios []Violation
	hits := map[string]*KnownHit{}
	var notes, infra, inconcl []string
	evals := 0
	exhaustive := true
	rule := ""
	extra := map[string]any{}
	got := 0
	for _, f := range files {
		b, err := os.ReadFile(f)
		if err != nil {
			infra = append(infra, err.Error())
			continue
		}
		var r Result
		if err := json.Unmarshal(b, &r); err != nil {
			infra = append(infra, f+": "+err.Error())
			continue
		}
		got++
		evals += r.Evaluations
		if !r.Exhaustive {
			exhaustive = false
		}
		if r.Rule != "" {
			rule = r.Rule
		}
		for k, v := range r.Labels {
			labels[k] += v
		}
		for k, v := range r.Samples {
			for _, s := range v {
				if len(samples[k]) < 2 {
					samples[k] = append(samples[k], s)
				}
			}
		}
		vios = append(vios, r.Violations...)
		for _, h := range r.Known {
			if hits[h.Key] == nil {
				hh := h
				hits[h.Key] = &hh
			} else {
				hits[h.Key].Count += h.Count
			}
		}
		notes = append(notes, r.Notes...)
		infra = append(infra, r.Infra...)
		inconcl = append(inconcl, r.Inconclusive...)
		for k, v := range r.Extra {
			switch x := v.(type) {
			case float64:
				if old, ok := extra[k].(float64); ok {
					extra[k] = old + x
				} else {
					extra[k] = x
				}
			default:
				if _, ok := extra[k]; !ok {
					extra[k] = v
				}
			}
		}
		if r.HashFile != "" {
			hb, err := os.ReadFile(r.HashFile)
			if err == nil {
				for i := 0; i+8 <= len(hb); i += 8 {
					hashes[binary.LittleEndian.Uint64(hb[i:])] = struct{}{}
				}
			}
		}
	}
	if got < expect {
		infra = append(infra, fmt.Sprintf("only %d of %d shards produced a result", got, expect))
		exhaustive = false
	}
	// dedupe violations by key
	seen := map[string]bool{}
	var uv []Violation
	for _, v := range vios {
		if !seen[v.Key] {
			seen[v.Key] = true
			uv = append(uv, v)
		}
	}
	known := LoadFindings(cfg.Root, cfg.Prop)
	var keys []string
	for k := range hits {
		keys = append(keys, k)
	}
	sort.Strings(keys)
	var knownOut []map[string]any
	for _, k := range keys {
		h := hits[k]
		desc := h.Detail
		if f := known[k]; f != nil && f.Desc != "" {
			desc = f.Desc
		}
		fmt.Printf("KNOWN-FINDING: property=%s key=%s hits=%d %s\n", cfg.Prop, k, h.Count, oneLine(desc))
		knownOut = append(knownOut, map[string]any{"key": k, "hits": h.Count, "what": desc})
	}
	for _, v := range uv {
		fmt.Printf("VIOLATION property=%s replay=%s key=%s %s\n", cfg.Prop, v.Replay, v.Key, oneLine(v.Detail))
	}
	// flatten samples: a list of {label, case}
	var lks []string
	for k := range samples {
		lks = append(lks, k)
	}
	sort.Strings(lks)
	var sampleList []map[string]string
	for _, k := range lks {
		for _, s := range samples[k] {
			if len(sampleList) < 60 {
				sampleList = append(sampleList, map[string]string{"label": k, "case": s})
			}
		}
	}
	cov := map[string]any{
		"evaluations":         evals,
		"distinct_nontrivial": len(hashes),
		"rule":                rule,
		"samples":             sampleList,
		"exhaustive":          exhaustive && evals > 0,
		"labels":              labels,
		"known_findings":      knownOut,
		"shards":              got,
		"notes":               notes,
		"inconclusive":        inconcl,
	}
	for k, v := range extra {
		if f, ok := v.(float64); ok && f == float64(int64(f)) {
			cov[k] = int64(f)
		} else {
			cov[k] = v
		}
	}
	ev := map[string]any{
		"property_id": cfg.Prop,
		"tier":        cfg.Tier,
		"seed":        cfg.Seed,
		"level":       level,
		"coverage":    cov,
		"assumptions": assumptions[cfg.Prop],
		"wall_s":      wall,
		"violations":  len(uv),
	}
	if len(infra) > 0 {
		ev["infra_problems"] = infra
	}
	if cfg.Replay == "" {
		b, _ := json.MarshalIndent(ev, "", " ")
		os.MkdirAll(filepath.Join(cfg.Root, "evidence"), 0o755)
		if err := os.WriteFile(filepath.Join(cfg.Root, "evidence", cfg.Prop+".json"), b, 0o644); err != nil {
			fmt.Fprintln(os.Stderr, "write evidence:", err)
			return 2
		}
	}
	fmt.Printf("SUMMARY property=%s tier=%s seed=%d evaluations=%d distinct_nontrivial=%d known=%d violations=%d inconclusive=%d shards=%d/%d\n",
		cfg.Prop, cfg.Tier, cfg.Seed, evals, len(hashes), len(hits), len(uv), len(inconcl), got, expect)
	if len(uv) > 0 {
		return 1
	}
	if len(infra) > 0 {
		for _, s := range infra {
			fmt.Fprintln(os.Stderr, "INFRA:", oneLine(s))
		}
		return 2
	}
	return 0
}

func oneLine(s string) string {
	s = strings.ReplaceAll(s, "\n", "\\n")
	if len(s) > 300 {
		s = s[:300] + "…"
	}
	return s
}

var assumptions = map[string][]string{}

// Assume registers the assumptions text of a property (static, from the check's source).
func Assume(prop string, a ...string) { assumptions[prop] = a }
