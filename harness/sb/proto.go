// Package sb is the sandbox: every piece of generated input that is parsed,
// executed or decoded by /repo code runs in a child process (a re-exec of the
// test binary), never in the process that owns the search.
package sb

import "encoding/json"

// Req is one case sent to a worker.
type Req struct {
	Kind string `json:"kind"`
	// script kind
	Src   string `json:"src,omitempty"`
	Tmpl  bool   `json:"tmpl,omitempty"`  // parse through ParseFile of a .php file (template mode)
	Run   bool   `json:"run,omitempty"`   // execute after a successful parse
	Loads string `json:"loads,omitempty"` // extra loaders: "http"
	Name  string `json:"name,omitempty"`  // file name to report (default case.zy / case.php)
	// generic payload for Go-level targets
	Data json.RawMessage `json:"data,omitempty"`
	// limits
	DeadlineMs int `json:"deadline_ms,omitempty"`
	// NoHangConfirm: report a missed deadline at once (callers that treat it as inconclusive anyway)
	NoHangConfirm bool `json:"-"`
}

// Outcome classes.
const (
	OK         = "ok"          // ran to the end (or parse-only accepted)
	ParseError = "parse_error" // parser returned a control
	Uncaught   = "uncaught"    // a control reached the top level
	GoPanic    = "go_panic"    // Go panic recovered in the worker (or recovered by try{} and detected by marker)
	Hang       = "hang"        // deadline missed, worker killed
	OOM        = "oom"         // rss ceiling hit, worker killed
	Died       = "died"        // worker process died (fatal error, os.Exit, signal)
	Infra      = "infra"       // could not run the case at all
)

// Rep is the worker's reply.
type Rep struct {
	Kind    string          `json:"k"` // "reply" | "hangsite"
	Outcome string          `json:"o,omitempty"`
	Stdout  string          `json:"out,omitempty"`
	Obs     []string        `json:"obs,omitempty"`
	Msg     string          `json:"msg,omitempty"`  // error / panic text
	Site    string          `json:"site,omitempty"` // innermost /repo frame of a panic, or hang site
	Phase   string          `json:"phase,omitempty"`
	Pos     bool            `json:"pos,omitempty"` // parse error carried a position
	Line    int             `json:"line,omitempty"`
	File    string          `json:"file,omitempty"`
	Class   string          `json:"class,omitempty"` // class of uncaught throwable when known
	Slow    bool            `json:"slow,omitempty"`
	Data    json.RawMessage `json:"data,omitempty"`
	Stderr  string          `json:"stderr,omitempty"` // tail of worker stderr for died
	Ms      float64         `json:"ms,omitempty"`
}
