package sb

import (
	"bufio"
	"encoding/json"
	"fmt"
	"os"
	"os/exec"
	"strconv"
	"strings"
	"sync"
	"syscall"
	"time"
)

type tailBuf struct {
	mu sync.Mutex
	b  []byte
}

func (t *tailBuf) Write(p []byte) (int, error) {
	t.mu.Lock()
	t.b = append(t.b, p...)
	if len(t.b) > 8192 {
		// keep head (fatal error line comes first) and tail
		t.b = append(t.b[:4096:4096], t.b[len(t.b)-4096:]...)
	}
	t.mu.Unlock()
	return len(p), nil
}
func (t *tailBuf) String() string { t.mu.Lock(); defer t.mu.Unlock(); return string(t.b) }

// Worker is one sandbox child.
type Worker struct {
	cmd    *exec.Cmd
	stdin  *bufio.Writer
	enc    *json.Encoder
	ch     chan Rep
	stderr *tailBuf
	tmp    string
	Env    []string
}

// Pool hands cases to a single worker child and restarts it on demand.
// A Pool is used from one goroutine.
type Pool struct {
	w *Worker
	// ExtraEnv is added to the worker environment (e.g. GOMAXPROCS).
	ExtraEnv []string
	// Binary overrides the executable (default: os.Args[0]); used for -race workers.
	Binary string
	// KnownHangSite, if set, lets the parent kill a hanging worker as soon as
	// the worker's sampler attributes the hang to an already-known site.
	KnownHangSite func(phase, site string) bool
	// RSSLimit in bytes (default 2 GiB).
	RSSLimit int64
	Restarts int
}

var pageSize = int64(os.Getpagesize())

func (p *Pool) start() error {
	bin := p.Binary
	if bin == "" {
		bin = os.Args[0]
	}
	tmp, err := os.MkdirTemp("", "verif-w-")
	if err != nil {
		return err
	}
	cmd := exec.Command(bin, "-test.run=^$")
	cmd.Env = append(os.Environ(), "VERIF_WORKER=1", "VERIF_WORKER_TMP="+tmp)
	cmd.Env = append(cmd.Env, p.ExtraEnv...)
	cmd.SysProcAttr = &syscall.SysProcAttr{Setpgid: true}
	stdin, err := cmd.StdinPipe()
	if err != nil {
		return err
	}
	pr, pw, err := os.Pipe()
	if err != nil {
		return err
	}
	cmd.ExtraFiles = []*os.File{pw}
	tb := &tailBuf{}
	cmd.Stderr = tb
	cmd.Stdout = nil
	if err := cmd.Start(); err != nil {
		return err
	}
	pw.Close()
	w := &Worker{cmd: cmd, stdin: bufio.NewWriterSize(stdin, 1<<16), ch: make(chan Rep, 8), stderr: tb, tmp: tmp}
	w.enc = json.NewEncoder(w.stdin)
	go func() {
		d := json.NewDecoder(bufio.NewReaderSize(pr, 1<<16))
		for {
			var r Rep
			if err := d.Decode(&r); err != nil {
				close(w.ch)
				pr.Close()
				return
			}
			w.ch <- r
		}
	}()
	p.w = w
	p.Restarts++
	return nil
}

func (w *Worker) kill() {
	syscall.Kill(-w.cmd.Process.Pid, syscall.SIGKILL)
	w.cmd.Process.Kill()
	w.cmd.Wait()
	os.RemoveAll(w.tmp)
}

// Close kills the worker.
func (p *Pool) Close() {
	if p.w != nil {
		p.w.kill()
		p.w = nil
	}
}

func rssBytes(pid int) int64 {
	b, err := os.ReadFile("/proc/" + strconv.Itoa(pid) + "/statm")
	if err != nil {
		return 0
	}
	f := strings.Fields(string(b))
	if len(f) < 2 {
		return 0
	}
	n, _ := strconv.ParseInt(f[1], 10, 64)
	return n * pageSize
}

// Deadline is the parent's watchdog budget for an input of n bytes.
func Deadline(n int) time.Duration {
	return 2*time.Second + time.Duration(n)*time.Millisecond/4
}

// Exec runs one case. It never panics; infrastructure problems are outcome infra.
// Exec runs one case. A missed deadline is only reported after the same case missed a five times longer one in a
// fresh worker as well (a loaded machine can stall a worker for seconds; a time budget hit alone is never a
// verdict). Pools with their own confirmation rule (KnownHangSite, C01) are left alone.
func (p *Pool) Exec(req *Req) Rep {
	rep := p.exec1(req)
	if rep.Outcome != Hang || p.KnownHangSite != nil || req.NoHangConfirm {
		return rep
	}
	dl := time.Duration(req.DeadlineMs) * time.Millisecond
	if dl <= 0 {
		dl = Deadline(len(req.Src))
	}
	if dl >= 30*time.Second {
		return rep // already given half a minute or more
	}
	r2 := *req
	r2.DeadlineMs = int(5 * dl / time.Millisecond)
	if r2.DeadlineMs < 15000 {
		r2.DeadlineMs = 15000
	}
	rep2 := p.exec1(&r2)
	if rep2.Outcome == Hang {
		rep2.Msg = "twice, also with " + fmt.Sprint(time.Duration(r2.DeadlineMs)*time.Millisecond) + ": " + rep2.Msg
	}
	return rep2
}

func (p *Pool) exec1(req *Req) Rep {
	if p.w == nil {
		if err := p.start(); err != nil {
			return Rep{Outcome: Infra, Msg: "start worker: " + err.Error()}
		}
	}
	limit := p.RSSLimit
	if limit == 0 {
		limit = 2 << 30
	}
	// a previous case may have left a large heap behind (e.g. a decoder that allocated a huge
	// array and then failed cleanly): start from a fresh worker so that the next case is not
	// blamed for memory it did not allocate
	if rssBytes(p.w.cmd.Process.Pid) > limit/4 {
		p.Close()
		if err := p.start(); err != nil {
			return Rep{Outcome: Infra, Msg: "restart worker: " + err.Error()}
		}
	}
	w := p.w
	if err := w.enc.Encode(req); err != nil {
		p.Close()
		return Rep{Outcome: Infra, Msg: "send: " + err.Error()}
	}
	if err := w.stdin.Flush(); err != nil {
		st := w.stderr.String()
		p.Close()
		return Rep{Outcome: Died, Msg: "send flush: " + err.Error(), Stderr: st}
	}
	dl := time.Duration(req.DeadlineMs) * time.Millisecond
	if dl <= 0 {
		dl = Deadline(len(req.Src))
	}
	deadline := time.NewTimer(dl)
	defer deadline.Stop()
	tick := time.NewTicker(20 * time.Millisecond)
	defer tick.Stop()
	site, phase := "", ""
	for {
		select {
		case r, ok := <-w.ch:
			if !ok {
				// worker died
				w.cmd.Wait()
				st := w.stderr.String()
				ws := ""
				if w.cmd.ProcessState != nil {
					ws = w.cmd.ProcessState.String()
				}
				p.Close()
				return Rep{Outcome: Died, Msg: ws + ": " + firstFatal(st), Stderr: st, Site: fatalSite(st), Phase: phase}
			}
			if r.Kind == "phase" {
				phase = r.Phase
				continue
			}
			if r.Kind == "hangsite" {
				site, phase = r.Site, r.Phase
				if p.KnownHangSite != nil && p.KnownHangSite(phase, site) {
					p.Close()
					return Rep{Outcome: Hang, Site: site, Phase: phase, Msg: "killed early at known hang site"}
				}
				continue
			}
			return r
		case <-tick.C:
			if rss := rssBytes(w.cmd.Process.Pid); rss > limit {
				p.Close()
				return Rep{Outcome: OOM, Site: site, Phase: phase, Msg: fmt.Sprintf("rss %d MiB", rss>>20)}
			}
		case <-deadline.C:
			p.Close()
			return Rep{Outcome: Hang, Site: site, Phase: phase, Msg: fmt.Sprintf("deadline %v", dl)}
		}
	}
}

func firstFatal(st string) string {
	for _, l := range strings.Split(st, "\n") {
		if strings.HasPrefix(l, "fatal error:") || strings.HasPrefix(l, "panic:") || strings.HasPrefix(l, "runtime:") || strings.Contains(l, "DATA RACE") {
			return l
		}
	}
	if len(st) > 200 {
		return st[:200]
	}
	return st
}

func fatalSite(st string) string {
	for _, l := range strings.Split(st, "\n") {
		if strings.HasPrefix(l, repoPrefix) {
			f := strings.TrimPrefix(l, repoPrefix)
			if i := strings.LastIndex(f, "("); i > 0 {
				f = f[:i]
			}
			return f
		}
	}
	return "?"
}
