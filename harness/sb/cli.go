package sb

import (
	"bytes"
	"context"
	"os"
	"os/exec"
	"path/filepath"
	"syscall"
	"time"
)

// CLIResult is the observable behaviour of one run of the origami CLI.
type CLIResult struct {
	Stdout   string
	Stderr   string
	Exit     int
	TimedOut bool
	Err      string
}

// CLIBin returns the path of the CLI built by the driver from /repo's working tree.
func CLIBin() string {
	if b := os.Getenv("VERIF_BIN"); b != "" {
		return filepath.Join(b, "origami")
	}
	return "/verif/.bin/origami"
}

// RunCLI runs `origami <file>` in its own process group with a memory ceiling
// (ulimit -v) and a timeout; the group is SIGKILLed on timeout.
func RunCLI(dir, file string, timeout time.Duration, args ...string) CLIResult {
	return RunCmd(dir, timeout, append([]string{CLIBin(), file}, args...)...)
}

// RunCmd runs an arbitrary command the same way (own process group, ulimit -v, timeout, SIGKILL of the group).
func RunCmd(dir string, timeout time.Duration, argv0 ...string) CLIResult {
	ctx, cancel := context.WithTimeout(context.Background(), timeout)
	defer cancel()
	sh := "ulimit -v 8000000; exec \"$0\" \"$@\""
	argv := append([]string{"-c", sh}, argv0...)
	cmd := exec.Command("/bin/sh", argv...)
	cmd.Dir = dir
	cmd.SysProcAttr = &syscall.SysProcAttr{Setpgid: true}
	var out, errb bytes.Buffer
	cmd.Stdout, cmd.Stderr = &out, &errb
	if err := cmd.Start(); err != nil {
		return CLIResult{Err: err.Error(), Exit: -1}
	}
	done := make(chan error, 1)
	go func() { done <- cmd.Wait() }()
	res := CLIResult{}
	select {
	case err := <-done:
		if err != nil {
			if ee, ok := err.(*exec.ExitError); ok {
				res.Exit = ee.ExitCode()
			} else {
				res.Err = err.Error()
				res.Exit = -1
			}
		}
	case <-ctx.Done():
		syscall.Kill(-cmd.Process.Pid, syscall.SIGKILL)
		<-done
		res.TimedOut = true
		res.Exit = -1
	}
	res.Stdout, res.Stderr = out.String(), errb.String()
	return res
}
