package props

import (
	"encoding/json"
	"fmt"
	"os"
	"path/filepath"
	"strings"
	"testing"
	"time"

	"pgregory.net/rapid"
	"verifharness/pgen"
	"verifharness/sb"
)

// ---------------------------------------------------------------------------
// C05 — first matching catch, finally exactly once, uncaught errors fail the process.
// ---------------------------------------------------------------------------

func init() {
	sb.Assume("C05",
		"reference semantics of try/catch/finally = PHP's: first catch clause (innermost try first) whose type is the class, an ancestor or an implemented interface; finally runs once on every exit; a control raised in finally (return / throw) replaces the pending one; break/continue out of a finally block are not generated (PHP rejects them)",
		"the marker trace printed by every try / catch / finally block is compared with the reference interpreter's trace, so 'exactly once' and 'that same object' (class and per-throw-site message) are read off the output",
		"exit status is checked in real subprocesses of the CLI built from /repo: uncaught or unparsable => status != 0 with a diagnostic, and stdout must start with everything echoed before the failure point; clean program => status 0",
		"the base control-flow constructs use the C02 exclusions (listed C02 findings are not re-reported here)",
	)
}

type cliCase struct {
	Src      string `json:"src"`
	Kind     string `json:"kind"` // clean | uncaught | parse-error
	Expected string `json:"expected_stdout_prefix"`
}

func c02Exclusions(root string) map[string]bool {
	ex := map[string]bool{}
	for k := range sb.LoadFindings(root, "C02") {
		if strings.HasPrefix(k, "feature:") {
			ex[strings.TrimPrefix(k, "feature:")] = true
		}
	}
	return ex
}

func c05JudgeCLI(rec *sb.Rec, dir string, c cliCase) *failure {
	path := filepath.Join(dir, "case.php")
	if err := os.WriteFile(path, []byte(c.Src), 0o644); err != nil {
		rec.InfraProblem("write: %v", err)
		return nil
	}
	r := sb.RunCLI(dir, path, 20*time.Second)
	rec.Eval()
	if r.Err != "" {
		rec.InfraProblem("cli: %s", r.Err)
		return nil
	}
	if r.TimedOut {
		rec.Inconclusive("cli run timed out")
		return nil
	}
	mk := func(key, d string) *failure {
		return &failure{Key: key, Detail: fmt.Sprintf("%s (exit=%d stdout=%q stderr=%q)\n%s", d, r.Exit, clip(r.Stdout, 200), clip(r.Stderr, 200), clip(c.Src, 1500)), Case: c}
	}
	switch c.Kind {
	case "clean":
		if r.Exit != 0 {
			return mk("cell:exit:clean-nonzero", "clean program exited non-zero")
		}
		if r.Stdout != c.Expected {
			return mk("cell:exit:clean-output", fmt.Sprintf("stdout differs from the reference %q", clip(c.Expected, 200)))
		}
	case "uncaught":
		if r.Exit == 0 {
			return mk("cell:exit:uncaught-zero", "uncaught throwable but exit status 0")
		}
		if !strings.HasPrefix(r.Stdout, c.Expected) {
			return mk("cell:exit:uncaught-flush", fmt.Sprintf("output echoed before the uncaught throw is missing: want prefix %q", clip(c.Expected, 200)))
		}
		if strings.TrimSpace(r.Stderr) == "" && len(r.Stdout) == len(c.Expected) {
			return mk("cell:exit:uncaught-silent", "no diagnostic printed for the uncaught throwable")
		}
	case "parse-error":
		if r.Exit == 0 {
			return mk("cell:exit:parse-error-zero", "source does not parse but exit status 0")
		}
		if strings.TrimSpace(r.Stderr) == "" && strings.TrimSpace(r.Stdout) == "" {
			return mk("cell:exit:parse-error-silent", "no diagnostic printed for the parse error")
		}
	}
	return nil
}

// ---- the catch variable is the thrown object ----

type c05ObjCase struct {
	Form string `json:"form"`
	Src  string `json:"src"`
}

// c05ObjectCases: one script per way of raising an object that exists before the throw; the catch
// clause reports identity, class, state and behaviour of what it received.
func c05ObjectCases() []c05ObjCase {
	const prelude = "<?php\nclass Ez extends Exception { public $tag = 0; function who() { return 'Ez#' . $this->tag; } function fire() { throw $this; } static function sfire($x) { throw $x; } }\nclass Ey extends Ez {}\nclass Hold { public $e; static $se; }\nfunction giveBack($x) { return $x; }\n"
	const report = "__obs(\"same\", $e === $o); __obs(\"class\", get_class($e)); __obs(\"io\", $e instanceof Ez); __obs(\"msg\", $e->getMessage()); try { __obs(\"tag\", $e->tag); } catch (Throwable $x) { __obs(\"!tag\", 1); } try { __obs(\"who\", $e->who()); } catch (Throwable $x) { __obs(\"!who\", 1); } try { $e->tag = 9; __obs(\"seen\", $o->tag); } catch (Throwable $x) { __obs(\"!seen\", 1); }"
	mk := func(form, body string) c05ObjCase {
		return c05ObjCase{Form: form, Src: prelude + "$o = new Ey('m');\n$o->tag = 5;\n" + body + "\n"}
	}
	return []c05ObjCase{
		mk("throw-variable", "try { throw $o; } catch (Ez $e) { "+report+" }"),
		mk("throw-from-function", "function th($x) { throw $x; }\ntry { th($o); } catch (Ez $e) { "+report+" }"),
		mk("rethrow-from-catch", "try { try { throw $o; } catch (Ey $inner) { throw $inner; } } catch (Ez $e) { "+report+" }"),
		mk("through-finally", "try { try { throw $o; } finally { $z = 1; } } catch (Throwable $e) { "+report+" }"),
		mk("from-method", "class Th { function go($x) { throw $x; } }\ntry { (new Th())->go($o); } catch (Exception $e) { "+report+" }"),
		mk("from-loop", "try { foreach ([1, 2] as $i) { if ($i == 2) { throw $o; } } } catch (Ez $e) { "+report+" }"),
		// the operand of throw is something else than a plain variable
		mk("throw-this", "try { $o->fire(); } catch (Ez $e) { "+report+" }"),
		mk("throw-property", "$h = new Hold();\n$h->e = $o;\ntry { throw $h->e; } catch (Ez $e) { "+report+" }"),
		mk("throw-static-property", "Hold::$se = $o;\ntry { throw Hold::$se; } catch (Ez $e) { "+report+" }"),
		mk("throw-array-element", "$arr = [$o];\ntry { throw $arr[0]; } catch (Ez $e) { "+report+" }"),
		mk("throw-call-result", "try { throw giveBack($o); } catch (Ez $e) { "+report+" }"),
		mk("throw-ternary", "try { throw true ? $o : null; } catch (Ez $e) { "+report+" }"),
		mk("throw-coalesce", "$nn = null;\ntry { throw $nn ?? $o; } catch (Ez $e) { "+report+" }"),
		mk("from-static-method", "try { Ez::sfire($o); } catch (Ez $e) { "+report+" }"),
		mk("from-closure", "$cl = function() use ($o) { throw $o; };\ntry { $cl(); } catch (Ez $e) { "+report+" }"),
		mk("from-arrow-fn", "$af = fn() => throw $o;\ntry { $af(); } catch (Ez $e) { "+report+" }"),
		mk("from-nested-function-calls", "function lvl2($x) { throw $x; }\nfunction lvl1($x) { lvl2($x); return 1; }\ntry { lvl1($o); } catch (Ez $e) { "+report+" }"),
	}
}

// c05CatchMatrix: one hierarchy (interfaces extending interfaces, implemented by an ancestor or by the
// class itself), every (thrown class, catch type) pair: caught iff the type is the class, an ancestor,
// an implemented interface or a parent of one.
func c05CatchMatrix() (string, map[string]bool) {
	const decl = "<?php\ninterface QI {}\ninterface QJ extends QI {}\ninterface QK {}\nclass QP extends Exception implements QJ {}\nclass QC extends QP {}\nclass QD extends QC implements QK {}\nclass QU extends Exception {}\n"
	is := map[string][]string{
		"QP": {"QP", "Exception", "Throwable", "QJ", "QI"},
		"QC": {"QC", "QP", "Exception", "Throwable", "QJ", "QI"},
		"QD": {"QD", "QC", "QP", "Exception", "Throwable", "QJ", "QI", "QK"},
		"QU": {"QU", "Exception", "Throwable"},
	}
	types := []string{"QP", "QC", "QD", "QU", "QI", "QJ", "QK", "Exception", "Throwable"}
	var sb strings.Builder
	sb.WriteString(decl)
	want := map[string]bool{}
	for _, cls := range []string{"QP", "QC", "QD", "QU"} {
		for _, ty := range types {
			k := cls + ">" + ty
			fmt.Fprintf(&sb, "try { try { throw new %s('m'); } catch (%s $e) { __obs(\"%s\", true); } } catch (Throwable $o) { __obs(\"%s\", false); }\n", cls, ty, k, k)
			for _, a := range is[cls] {
				if a == ty {
					want[k] = true
				}
			}
			if !want[k] {
				want[k] = false
			}
		}
	}
	return sb.String(), want
}

func c05JudgeObject(pool *sb.Pool, rec *sb.Rec, c c05ObjCase) []*failure {
	rep := pool.Exec(&sb.Req{Kind: "script", Src: c.Src, Tmpl: true, Run: true})
	rec.Eval()
	if rep.Outcome == sb.Infra {
		rec.InfraProblem("%s", rep.Msg)
		return nil
	}
	if rep.Outcome != sb.OK {
		return []*failure{{Key: "cell:catch-object:" + c.Form + ":" + rep.Outcome, Detail: fmt.Sprintf("%s: %s\n%s", rep.Outcome, clip(rep.Msg, 200), c.Src), Case: c}}
	}
	o := parseObs(rep.Obs)
	want := map[string]string{"same": "b:1", "class": `s:"Ey"`, "io": "b:1", "msg": `s:"m"`, "tag": "i:5", "who": `s:"Ez#5"`, "seen": "i:9"}
	var out []*failure
	for _, k := range []string{"same", "class", "io", "msg", "tag", "who", "seen"} {
		got, ok := o[k]
		if !ok {
			got = "error"
			if _, raised := o["!"+k]; !raised {
				got = "missing"
			}
		}
		if got != want[k] {
			out = append(out, &failure{Key: "cell:catch-object:" + k, Detail: fmt.Sprintf("thrown %s: the catch variable's %q is %s, the thrown object's is %s\n%s", c.Form, k, got, want[k], c.Src), Case: c})
		}
	}
	return out
}

func TestC05(t *testing.T) {
	cfg := sb.LoadConfig("C05")
	rec := sb.NewRec(cfg)
	defer rec.Flush()
	rec.R.Rule = "programs from pgen's exception fragment (user hierarchies <= 5 classes + <= 2 marker interfaces below Exception, try/catch/finally nested inside loops, switches and functions, exits by fall-through / return / break / continue / throw / throw from catch / throw or return from finally), each block printing an entry/exit marker and each catch printing get_class($e) and the per-throw-site message; differential against the reference interpreter in a sandbox worker. Six ways of throwing an object that exists before the throw (variable, from a function, rethrow, through finally, from a method, from a loop), the catch clause reporting identity (===), class, instanceof, message, a property, a user method and a write seen through the original name. A seeded subset (clean, uncaught, and syntactically broken variants) is run through the real CLI in a subprocess for exit status and flush. Non-trivial = the reference run catches a throwable or leaves a finally by a non-fall-through exit; distinct by program text."
	pool := &sb.Pool{}
	defer pool.Close()
	dl := time.Now().Add(budget(cfg, 60, 700))
	dir, _ := os.MkdirTemp("", "c05-")
	defer os.RemoveAll(dir)
	if cfg.Replay != "" {
		rf, err := sb.LoadReplay(cfg.Replay)
		if err != nil {
			rec.InfraProblem("replay: %v", err)
			return
		}
		if strings.HasPrefix(rf.Key, "cell:catch-matrix:") {
			src, want := c05CatchMatrix()
			rep := pool.Exec(&sb.Req{Kind: "script", Src: src, Tmpl: true, Run: true})
			rec.Eval()
			rec.NonTrivial(src)
			rec.NonTrivial(src, "replay")
			o := parseObs(rep.Obs)
			for k, w := range want {
				if g, isb := boolOf(o[k]); !isb || g != w {
					rec.Fail(rf.Key, fmt.Sprintf("throw > catch %s: caught = %q, should be %v", k, o[k], w), c05ObjCase{Form: "catch-matrix", Src: src})
					break
				}
			}
			return
		}
		if strings.HasPrefix(rf.Key, "cell:catch-object:") {
			var c c05ObjCase
			json.Unmarshal(rf.Case, &c)
			rec.NonTrivial(c.Src)
			rec.NonTrivial(c.Src, "replay")
			for _, f := range c05JudgeObject(pool, rec, c) {
				if f.Key == rf.Key {
					rec.Fail(f.Key, f.Detail, f.Case)
				}
			}
			return
		}
		if strings.HasPrefix(rf.Key, "cell:exit:") {
			var c cliCase
			json.Unmarshal(unwrapCase(rf.Case), &c)
			rec.NonTrivial(c.Src)
			rec.NonTrivial(c.Src, "replay")
			if f := c05JudgeCLI(rec, dir, c); f != nil {
				rec.Fail(f.Key, f.Detail, f.Case)
			}
			return
		}
		progReplay(cfg, rec, pool)
		return
	}
	base := pgen.DefaultCfg()
	base.Exceptions = true
	base.MaxStmts = 10
	base.Exclude = c02Exclusions(cfg.Root)
	// the catch variable is the thrown object: identity, class, state, behaviour, per way of throwing
	for i, c := range c05ObjectCases() {
		if !cfg.Mine(i) {
			continue
		}
		rec.NonTrivial(c.Src)
		rec.Label("catch-object:"+c.Form, c.Src)
		for _, f := range c05JudgeObject(pool, rec, c) {
			rec.Fail(f.Key, f.Detail, f.Case)
		}
	}
	if cfg.Shard == 0 {
		src, want := c05CatchMatrix()
		rep := pool.Exec(&sb.Req{Kind: "script", Src: src, Tmpl: true, Run: true})
		rec.Eval()
		rec.NonTrivial(src)
		rec.Label("catch-matrix", src)
		if rep.Outcome == sb.Infra {
			rec.InfraProblem("%s", rep.Msg)
		} else {
			o := parseObs(rep.Obs)
			for k, w := range want {
				got, ok := o[k]
				g, isb := boolOf(got)
				if !ok || !isb || g != w {
					rec.Fail("cell:catch-matrix:"+map[bool]string{true: "should-catch", false: "should-not-catch"}[w], fmt.Sprintf("throw > catch %s: caught = %q, should be %v (outcome %s %s)", k, got, w, rep.Outcome, clip(rep.Msg, 120)), c05ObjCase{Form: "catch-matrix", Src: src})
					break
				}
			}
		}
	}
	// fixed CLI cases first: the three outcome kinds on hand-written programs
	if cfg.Shard == 0 {
		for _, c := range []cliCase{
			{Kind: "clean", Src: "<?php\necho 'a';\ntry { throw new Exception('m'); } catch (Exception $e) { echo 'c'; } finally { echo 'f'; }\necho 'z';\n", Expected: "acfz"},
			{Kind: "uncaught", Src: "<?php\necho 'before';\nthrow new Exception('boom');\necho 'after';\n", Expected: "before"},
			{Kind: "uncaught", Src: "<?php\necho 'x';\nfunction f() { try { throw new Exception('in'); } finally { echo 'fin'; } }\nf();\necho 'after';\n", Expected: "xfin"},
			{Kind: "parse-error", Src: "<?php\necho 'a';\n$x = (1 + ;\n"},
			{Kind: "parse-error", Src: "<?php\nif ($a == 1 {\n echo 1;\n}\n"},
			{Kind: "parse-error", Src: "<?php\nfunction f( { }\n"},
		} {
			rec.NonTrivial(c.Src)
			rec.Label("cli."+c.Kind, c.Src)
			if f := c05JudgeCLI(rec, dir, c); f != nil {
				rec.Fail(f.Key, f.Detail, f.Case)
			}
		}
	}
	total := 20000 / cfg.NShards
	ncli := 64 / cfg.NShards
	if cfg.Thorough() {
		total = 400000 / cfg.NShards
		ncli = 2000 / cfg.NShards
	}
	cliDone := 0
	rapidLoop(t, rec, "exc", total, 250, dl, func(rt *rapid.T) *failure {
		p := pgen.Gen(rt, base)
		res, err := pgen.Run(p)
		if err != nil {
			rec.Label("budget-regenerated", "")
			return nil
		}
		c := mkCase(p, res, true)
		rec.Eval()
		for f := range res.Dyn {
			rec.Label(f, "")
		}
		nt := false
		for k := range res.Dyn {
			if k == "dyn.catch" || (strings.HasPrefix(k, "dyn.finally.") && k != "dyn.finally.on-none") {
				nt = true
			}
		}
		if res.Uncaught {
			rec.Label("uncaught-at-top", "")
			nt = true
		}
		if nt {
			rec.NonTrivial(c.Src)
			rec.Label("nontrivial", c.Src)
		}
		kind, detail := judgeProgram(pool, c)
		if kind == "infra" {
			rec.InfraProblem("%s", detail)
			return nil
		}
		if kind != "" {
			return &failure{Key: kind, Detail: detail + "\n" + c.Src, Case: c, Post: reducePost(pool, p, true, kind, "")}
		}
		// a share of the programs also goes through the real CLI
		if cliDone < ncli && (res.Uncaught || rapid.IntRange(0, 9).Draw(rt, "cli") == 0) {
			cliDone++
			cc := cliCase{Src: c.Src, Kind: "clean", Expected: res.Out}
			if res.Uncaught {
				cc.Kind = "uncaught"
			}
			rec.Label("cli."+cc.Kind, "")
			if f := c05JudgeCLI(rec, dir, cc); f != nil {
				return f
			}
			// and a syntactically broken variant of the same program
			if cut := rapid.IntRange(10, max(11, len(c.Src)-2)).Draw(rt, "cut"); cut < len(c.Src) {
				broken := c.Src[:cut]
				rep := pool.Exec(&sb.Req{Kind: "script", Src: broken, Tmpl: true})
				if rep.Outcome == sb.ParseError {
					rec.Label("cli.parse-error", "")
					if f := c05JudgeCLI(rec, dir, cliCase{Src: broken, Kind: "parse-error"}); f != nil {
						return f
					}
				}
			}
		}
		return nil
	})
}
