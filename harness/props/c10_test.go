package props

import (
	"encoding/json"
	"fmt"
	"os"
	"path/filepath"
	"regexp"
	"strings"
	"sync"
	"sync/atomic"
	"testing"
	"time"

	"github.com/php-any/origami/data"
	"github.com/php-any/origami/node"
	"github.com/php-any/origami/parser"
	"github.com/php-any/origami/runtime"
	"pgregory.net/rapid"
	"verifharness/sb"
)

// ---------------------------------------------------------------------------
// C10 — VM registries stay consistent under concurrent definition and lookup.
// ---------------------------------------------------------------------------

func init() {
	sb.Register("vmreg", vmregHandler)
	sb.Assume("C10",
		"schedules are not owned: real goroutines under Go's scheduler in a worker built with -race (GORACE=halt_on_error), GOMAXPROCS varied 1..16 per history; a quiet run is evidence, not exclusion",
		"the history check is a sequential-witness check on logical start/end stamps from one atomic counter: at most one successful registration per name (classes and interfaces share a namespace), a lookup that started after a successful registration returned must see exactly that object, a lookup never sees a name before its registration was invoked, EnsureGlobalZVal yields one pointer per name, the final state is the union of the successful registrations",
		"registrations use distinct source files per stub so that the same-file exemption of AddClass/AddInterface does not hide duplicates",
	)
}

type vmregCfg struct {
	Goroutines int      `json:"goroutines"`
	Names      int      `json:"names"`
	Calls      int      `json:"calls"` // per goroutine
	Seeds      []uint64 `json:"seeds"` // per goroutine: the program is expanded from the seed (xorshift)
}

// prog expands goroutine g's program: a sequence of op*1000+nameIndex.
func (c *vmregCfg) prog(g int) []int {
	prog := make([]int, c.Calls)
	x := c.Seeds[g] | 1
	for k := range prog {
		x ^= x << 13
		x ^= x >> 7
		x ^= x << 17
		op := int(x % uint64(len(vmregOps)))
		n := int((x >> 20) % uint64(c.Names))
		prog[k] = op*1000 + n
	}
	return prog
}

// AutoloadSub: GetOrLoadClass of App\Pkg<n>\Model, which exists only as a file two directories below the one
// registered namespace prefix "App": the class-path manager discovers the sub-namespace on first use
var vmregOps = []string{"AddClass", "AddInterface", "AddFunc", "GetClass", "GetInterface", "GetFunc", "LoadPkg", "GetOrLoadClass", "SetConstant", "GetConstant", "EnsureGlobalZVal", "AutoloadSub"}

type vmregEv struct {
	G     int   `json:"g"`
	Op    int   `json:"op"`
	Name  int   `json:"n"`
	Start int64 `json:"s"`
	End   int64 `json:"e"`
	Ok    bool  `json:"ok"`
	Obj   int64 `json:"obj"` // identity of the object returned / registered (0 = none)
}

type vmregOut struct {
	Events []vmregEv        `json:"events"`
	Final  map[string][]int `json:"final"` // kind -> names resolvable at the end
	Panics []string         `json:"panics"`
}

func vmregHandler(req *sb.Req) *sb.Rep {
	var cfg vmregCfg
	if err := json.Unmarshal(req.Data, &cfg); err != nil {
		return &sb.Rep{Outcome: sb.Infra, Msg: err.Error()}
	}
	p := parser.NewParser()
	vm := runtime.NewVM(p).(*runtime.VM)
	appDir, _ := os.MkdirTemp("", "c10-app-")
	defer os.RemoveAll(appDir)
	for n := 0; n < cfg.Names; n++ {
		d := filepath.Join(appDir, "App", fmt.Sprintf("Pkg%d", n))
		os.MkdirAll(d, 0o755)
		os.WriteFile(filepath.Join(d, "Model.php"), []byte(fmt.Sprintf("<?php\nnamespace App\\Pkg%d;\nclass Model { function id() { return %d; } }\n", n, n)), 0o644)
	}
	vm.AddNamespace("App", filepath.Join(appDir, "App"))
	var clock, objSeq int64
	var mu sync.Mutex
	ident := map[any]int64{}
	idOf := func(o any) int64 {
		if o == nil {
			return 0
		}
		mu.Lock()
		defer mu.Unlock()
		if id, ok := ident[o]; ok {
			return id
		}
		objSeq++
		ident[o] = objSeq
		return objSeq
	}
	name := func(kind string, n int) string { return fmt.Sprintf("%sN%d", kind, n) }
	out := vmregOut{Final: map[string][]int{}}
	evs := make([][]vmregEv, cfg.Goroutines)
	var wg sync.WaitGroup
	var pmu sync.Mutex
	for g := 0; g < cfg.Goroutines; g++ {
		g := g
		wg.Add(1)
		go func() {
			defer wg.Done()
			defer func() {
				if r := recover(); r != nil {
					pmu.Lock()
					out.Panics = append(out.Panics, fmt.Sprint(r))
					pmu.Unlock()
				}
			}()
			for k, code := range cfg.prog(g) {
				op, n := code/1000, code%1000
				ev := vmregEv{G: g, Op: op, Name: n}
				src := fmt.Sprintf("/virtual/g%d_k%d.php", g, k)
				from := node.NewTokenFrom(&src, 0, 1, 0, 0)
				ev.Start = atomic.AddInt64(&clock, 1)
				switch vmregOps[op] {
				case "AddClass":
					c := node.NewClassStatement(from, name("T", n), "", nil, nil, map[string]data.Method{})
					ev.Obj = idOf(c)
					ev.Ok = vm.AddClass(c) == nil
				case "AddInterface":
					i := node.NewInterfaceStatement(from, name("T", n), nil, nil)
					ev.Obj = idOf(i)
					ev.Ok = vm.AddInterface(i) == nil
				case "AddFunc":
					f := node.NewFunctionStatement(from, name("F", n), nil, nil, nil, nil, false)
					ev.Obj = idOf(f)
					ev.Ok = vm.AddFunc(f) == nil
				case "GetClass":
					c, ok := vm.GetClass(name("T", n))
					ev.Ok = ok
					if ok {
						ev.Obj = idOf(c)
					}
				case "GetInterface":
					i, ok := vm.GetInterface(name("T", n))
					ev.Ok = ok
					if ok {
						ev.Obj = idOf(i)
					}
				case "GetFunc":
					f, ok := vm.GetFunc(name("F", n))
					ev.Ok = ok
					if ok {
						ev.Obj = idOf(f)
					}
				case "LoadPkg":
					v, _ := vm.LoadPkg(name("T", n))
					ev.Ok = v != nil
					if v != nil {
						ev.Obj = idOf(v)
					}
				case "GetOrLoadClass":
					c, acl := vm.GetOrLoadClass(name("T", n))
					ev.Ok = acl == nil && c != nil
					if ev.Ok {
						ev.Obj = idOf(c)
					}
				case "AutoloadSub":
					c, acl := vm.GetOrLoadClass(fmt.Sprintf("App\\Pkg%d\\Model", n))
					ev.Ok = acl == nil && c != nil
					if ev.Ok {
						ev.Obj = idOf(c)
					}
				case "SetConstant":
					ev.Obj = int64(g*100000 + k + 1)
					ev.Ok = vm.SetConstant(name("C", n), data.NewIntValue(int(ev.Obj))) == nil
				case "GetConstant":
					v, ok := vm.GetConstant(name("C", n))
					ev.Ok = ok
					if iv, isInt := v.(*data.IntValue); ok && isInt {
						ev.Obj = int64(iv.Value)
					}
				case "EnsureGlobalZVal":
					z := vm.EnsureGlobalZVal(name("g", n))
					ev.Ok = z != nil
					ev.Obj = idOf(z)
				}
				ev.End = atomic.AddInt64(&clock, 1)
				evs[g] = append(evs[g], ev)
			}
		}()
	}
	wg.Wait()
	for _, e := range evs {
		out.Events = append(out.Events, e...)
	}
	for n := 0; n < cfg.Names; n++ {
		if _, ok := vm.GetClass(name("T", n)); ok {
			out.Final["class"] = append(out.Final["class"], n)
		}
		if _, ok := vm.GetInterface(name("T", n)); ok {
			out.Final["interface"] = append(out.Final["interface"], n)
		}
		if _, ok := vm.GetFunc(name("F", n)); ok {
			out.Final["func"] = append(out.Final["func"], n)
		}
	}
	b, _ := json.Marshal(&out)
	return &sb.Rep{Outcome: sb.OK, Data: b}
}

// judgeVMHistory returns (key, detail) pairs.
func judgeVMHistory(cfg vmregCfg, out *vmregOut) [][2]string {
	var fails [][2]string
	add := func(k, d string) { fails = append(fails, [2]string{k, d}) }
	for _, p := range out.Panics {
		add("cell:history:panic", "a registry call panicked: "+clip(p, 160))
	}
	opIdx := map[string]int{}
	for i, o := range vmregOps {
		opIdx[o] = i
	}
	type key struct {
		ns string
		n  int
	}
	adds := map[key][]vmregEv{} // all Add* attempts per namespace+name
	for _, e := range out.Events {
		switch vmregOps[e.Op] {
		case "AddClass", "AddInterface":
			adds[key{"T", e.Name}] = append(adds[key{"T", e.Name}], e)
		case "AddFunc":
			adds[key{"F", e.Name}] = append(adds[key{"F", e.Name}], e)
		}
	}
	winner := map[key]*vmregEv{}
	for k, as := range adds {
		n := 0
		for i := range as {
			if as[i].Ok {
				n++
				winner[k] = &as[i]
			}
		}
		if n > 1 {
			add("cell:history:duplicate-accepted", fmt.Sprintf("%d registrations of %s%d reported success", n, k.ns, k.n))
		}
		if n == 0 && len(as) > 0 {
			add("cell:history:all-rejected", fmt.Sprintf("%d racing registrations of %s%d and none reported success", len(as), k.ns, k.n))
		}
	}
	// autoloaded classes: every lookup finds the class, and all of them the same one
	auto := map[int]int64{}
	for _, e := range out.Events {
		if vmregOps[e.Op] != "AutoloadSub" {
			continue
		}
		if !e.Ok {
			add("cell:history:autoload-failed", fmt.Sprintf("GetOrLoadClass of App\\Pkg%d\\Model (a file below the registered namespace directory) failed on goroutine %d", e.Name, e.G))
			continue
		}
		if first, ok := auto[e.Name]; ok && first != e.Obj {
			add("cell:history:autoload-two-classes", fmt.Sprintf("two lookups of App\\Pkg%d\\Model returned different class objects", e.Name))
		} else {
			auto[e.Name] = e.Obj
		}
	}
	lookupKind := func(op string) (ns string, want string) {
		switch op {
		case "GetClass", "GetOrLoadClass":
			return "T", "AddClass"
		case "GetInterface":
			return "T", "AddInterface"
		case "LoadPkg":
			return "T", ""
		case "GetFunc":
			return "F", "AddFunc"
		}
		return "", ""
	}
	for _, e := range out.Events {
		ns, wantOp := lookupKind(vmregOps[e.Op])
		if ns == "" {
			continue
		}
		k := key{ns, e.Name}
		w := winner[k]
		kindMatches := w != nil && (wantOp == "" || vmregOps[w.Op] == wantOp)
		if w != nil && kindMatches && w.End < e.Start {
			// registration completed before the lookup started
			if !e.Ok {
				add("cell:history:lookup-missed", fmt.Sprintf("%s(%s%d) started after its successful registration returned but found nothing", vmregOps[e.Op], ns, e.Name))
			} else if e.Obj != w.Obj {
				add("cell:history:lookup-wrong-object", fmt.Sprintf("%s(%s%d) returned an object that is not the registered one", vmregOps[e.Op], ns, e.Name))
			}
		}
		if e.Ok {
			// something was found: a registration of it must have been invoked before the lookup ended
			seen := false
			for _, a := range adds[k] {
				if a.Start < e.End && a.Obj == e.Obj {
					seen = true
				}
			}
			if !seen {
				add("cell:history:lookup-phantom", fmt.Sprintf("%s(%s%d) returned an object nobody had started to register", vmregOps[e.Op], ns, e.Name))
			}
		}
	}
	// EnsureGlobalZVal: one pointer per name
	zv := map[int]int64{}
	for _, e := range out.Events {
		if vmregOps[e.Op] == "EnsureGlobalZVal" {
			if prev, ok := zv[e.Name]; ok && prev != e.Obj {
				add("cell:history:global-zval-identity", fmt.Sprintf("EnsureGlobalZVal(g%d) returned two different cells", e.Name))
			}
			zv[e.Name] = e.Obj
		}
	}
	// constants: a Get that started after some Set returned must succeed, and its value must be one written by a Set that started before the Get ended
	sets := map[int][]vmregEv{}
	for _, e := range out.Events {
		if vmregOps[e.Op] == "SetConstant" {
			sets[e.Name] = append(sets[e.Name], e)
		}
	}
	// a constant is defined once: of all SetConstant calls for one name at most one may report success,
	// and a later read returns the winner's value
	for n, ss := range sets {
		var winners []vmregEv
		for _, e := range ss {
			if e.Ok {
				winners = append(winners, e)
			}
		}
		if len(winners) > 1 {
			add("cell:history:constant-double-success", fmt.Sprintf("%d SetConstant(C%d) calls reported success (values %d and %d): a duplicate definition must be rejected for all but one registrant", len(winners), n, winners[0].Obj, winners[1].Obj))
		}
		if len(winners) == 1 {
			for _, e := range out.Events {
				if vmregOps[e.Op] == "GetConstant" && e.Name == n && e.Ok && e.Start > winners[0].End && e.Obj != winners[0].Obj {
					add("cell:history:constant-overwritten", fmt.Sprintf("GetConstant(C%d) returned %d after the only successful SetConstant (value %d) had returned", n, e.Obj, winners[0].Obj))
					break
				}
			}
		}
	}
	for _, e := range out.Events {
		if vmregOps[e.Op] != "GetConstant" {
			continue
		}
		done, written := false, false
		for _, s := range sets[e.Name] {
			if s.End < e.Start {
				done = true
			}
			if s.Start < e.End && s.Obj == e.Obj {
				written = true
			}
		}
		if done && !e.Ok {
			add("cell:history:constant-missed", fmt.Sprintf("GetConstant(C%d) started after a SetConstant returned but found nothing", e.Name))
		}
		if e.Ok && !written {
			add("cell:history:constant-phantom", fmt.Sprintf("GetConstant(C%d) returned %d, which no SetConstant had started to write", e.Name, e.Obj))
		}
	}
	// final state = union of successful registrations
	has := func(list []int, n int) bool {
		for _, x := range list {
			if x == n {
				return true
			}
		}
		return false
	}
	for n := 0; n < cfg.Names; n++ {
		w := winner[key{"T", n}]
		wantClass := w != nil && vmregOps[w.Op] == "AddClass"
		wantIface := w != nil && vmregOps[w.Op] == "AddInterface"
		if has(out.Final["class"], n) != wantClass {
			add("cell:history:final-state", fmt.Sprintf("class T%d resolvable at the end = %v, successful AddClass = %v", n, has(out.Final["class"], n), wantClass))
		}
		if has(out.Final["interface"], n) != wantIface {
			add("cell:history:final-state", fmt.Sprintf("interface T%d resolvable at the end = %v, successful AddInterface = %v", n, has(out.Final["interface"], n), wantIface))
		}
		if has(out.Final["func"], n) != (winner[key{"F", n}] != nil) {
			add("cell:history:final-state", fmt.Sprintf("function F%d resolvable at the end = %v, successful AddFunc = %v", n, has(out.Final["func"], n), winner[key{"F", n}] != nil))
		}
	}
	return fails
}

var raceFuncRe = regexp.MustCompile(`github\.com/php-any/origami/([\w/]+\.\(\*?\w+\)\.\w+|[\w/]+\.\w+)\(`)

type c10Case struct {
	Cfg   vmregCfg `json:"config"`
	Procs int      `json:"gomaxprocs"`
}

func c10Run(rec *sb.Rec, c c10Case) []*failure {
	raceBin := filepath.Join(os.Getenv("VERIF_BIN"), "props.race.test")
	if _, err := os.Stat(raceBin); err != nil {
		rec.InfraProblem("no race build: %v", err)
		return nil
	}
	pool := &sb.Pool{Binary: raceBin, ExtraEnv: []string{fmt.Sprintf("GOMAXPROCS=%d", c.Procs), "GORACE=halt_on_error=1"}, RSSLimit: 6 << 30}
	defer pool.Close()
	b, _ := json.Marshal(c.Cfg)
	rep := pool.Exec(&sb.Req{Kind: "vmreg", Data: b, DeadlineMs: 120000})
	rec.Eval()
	switch rep.Outcome {
	case sb.Infra:
		rec.InfraProblem("%s", rep.Msg)
		return nil
	case sb.Hang, sb.OOM:
		rec.Inconclusive("history did not finish: %s", rep.Msg)
		return nil
	case sb.Died, sb.GoPanic:
		key := "cell:process:died"
		what := clip(rep.Msg, 200)
		if strings.Contains(rep.Stderr, "DATA RACE") {
			fn := "?"
			if m := raceFuncRe.FindStringSubmatch(rep.Stderr); m != nil {
				fn = m[1]
			}
			key = "cell:process:data-race:" + fn
			what = "race detector report, first /repo frame " + fn
		} else if strings.Contains(rep.Stderr, "concurrent map") {
			key = "cell:process:fatal-concurrent-map"
			what = sbFirstFatal(rep.Stderr)
		}
		return []*failure{{Key: key, Detail: fmt.Sprintf("%s (goroutines=%d names=%d gomaxprocs=%d)\n%s", what, c.Cfg.Goroutines, c.Cfg.Names, c.Procs, clip(rep.Stderr, 1800)), Case: c}}
	}
	var out vmregOut
	if err := json.Unmarshal(rep.Data, &out); err != nil {
		rec.InfraProblem("decode: %v", err)
		return nil
	}
	var fs []*failure
	seen := map[string]bool{}
	for _, kd := range judgeVMHistory(c.Cfg, &out) {
		if seen[kd[0]] {
			continue
		}
		seen[kd[0]] = true
		fs = append(fs, &failure{Key: kd[0], Detail: fmt.Sprintf("%s (goroutines=%d names=%d gomaxprocs=%d, %d calls)", kd[1], c.Cfg.Goroutines, c.Cfg.Names, c.Procs, len(out.Events)), Case: c})
	}
	return fs
}

func sbFirstFatal(st string) string {
	for _, l := range strings.Split(st, "\n") {
		if strings.HasPrefix(l, "fatal error:") {
			return l
		}
	}
	return clip(st, 120)
}

func TestC10(t *testing.T) {
	cfg := sb.LoadConfig("C10")
	rec := sb.NewRec(cfg)
	defer rec.Flush()
	rec.R.Rule = "histories of N in 2..16 real goroutines issuing 100..10000 mixed AddClass / AddInterface / AddFunc / GetClass / GetInterface / GetFunc / LoadPkg / GetOrLoadClass / SetConstant / GetConstant / EnsureGlobalZVal calls over 8..64 overlapping names, run in a -race worker with GOMAXPROCS drawn from 1..16; the worker must survive (no fatal concurrent map access, no race report) and the recorded history must pass the sequential-witness check. Non-trivial = at least two goroutines touch the same name with a writer among them; distinct by generated program."
	dl := time.Now().Add(budget(cfg, 70, 900))
	if cfg.Replay != "" {
		rf, err := sb.LoadReplay(cfg.Replay)
		if err != nil {
			rec.InfraProblem("replay: %v", err)
			return
		}
		var c c10Case
		json.Unmarshal(rf.Case, &c)
		rec.NonTrivial(fmt.Sprint(c))
		rec.NonTrivial(fmt.Sprint(c), "r")
		for i := 0; i < 5; i++ {
			for _, f := range c10Run(rec, c) {
				if f.Key == rf.Key || strings.HasPrefix(f.Key, "cell:process:") && strings.HasPrefix(rf.Key, "cell:process:") {
					rec.Fail(rf.Key, f.Detail, f.Case)
					return
				}
			}
		}
		return
	}
	total := 160 / cfg.NShards
	if cfg.Thorough() {
		total = 6000 / cfg.NShards
	}
	if total < 1 {
		total = 1
	}
	rapidLoop(t, rec, "hist", total, 8, dl, func(rt *rapid.T) *failure {
		c := c10Case{Procs: rapid.SampledFrom([]int{1, 2, 4, 8, 16}).Draw(rt, "procs")}
		c.Cfg.Goroutines = rapid.IntRange(2, 16).Draw(rt, "goroutines")
		c.Cfg.Names = rapid.SampledFrom([]int{8, 16, 64}).Draw(rt, "names")
		maxCalls := 2000
		if cfg.Thorough() {
			maxCalls = 10000
		}
		calls := rapid.IntRange(100, maxCalls).Draw(rt, "calls")
		c.Cfg.Calls = calls
		touched := map[int]map[int]bool{}
		writers := map[int]bool{}
		for g := 0; g < c.Cfg.Goroutines; g++ {
			c.Cfg.Seeds = append(c.Cfg.Seeds, rapid.Uint64().Draw(rt, "progseed"))
			for _, code := range c.Cfg.prog(g) {
				op, n := code/1000, code%1000
				if touched[n] == nil {
					touched[n] = map[int]bool{}
				}
				touched[n][g] = true
				if op <= 2 || vmregOps[op] == "SetConstant" {
					writers[n] = true
				}
			}
		}
		nt := false
		for n, gs := range touched {
			if len(gs) >= 2 && writers[n] {
				nt = true
			}
		}
		id, _ := json.Marshal(c)
		if nt {
			rec.NonTrivial(string(id))
		}
		rec.Label(fmt.Sprintf("procs=%d", c.Procs), fmt.Sprintf("goroutines=%d names=%d calls/goroutine=%d", c.Cfg.Goroutines, c.Cfg.Names, calls))
		for _, f := range c10Run(rec, c) {
			if !rec.IsKnown(f.Key) {
				return f
			}
			rec.Fail(f.Key, f.Detail, f.Case)
		}
		return nil
	})
}
