package props

import (
	"encoding/json"
	"fmt"
	"sort"
	"strings"
	"testing"
	"time"

	"pgregory.net/rapid"
	"verifharness/sb"
)

// ---------------------------------------------------------------------------
// C08 — instanceof, type hints, catch and dispatch follow the declared class hierarchy.
// ---------------------------------------------------------------------------

func init() {
	sb.Assume("C08",
		"expected answers come from an independent reachability / nearest-definition computation over the generated edge lists (plain Go maps; shares no code with data/type_class.go)",
		"all root classes extend Exception so that the same hierarchy serves instanceof, typed parameters and catch; every class is instantiable and every interface method is implemented in the root classes",
		"like T: T is a class or interface declaring its methods directly; holds iff every declared method exists on the object's class or an ancestor with the same number of parameters (methods a target interface inherits from a parent interface are not asserted)",
		"findings are keyed cell:<judge>:<relation class>:<expected> and cell:dispatch:<form>:<distance>",
	)
}

// hier is a generated hierarchy.
type hier struct {
	Parent []int   `json:"parent"` // class i extends Parent[i] (-1 = Exception)
	IExt   [][]int `json:"iext"`   // interface j extends IExt[j]
	Impl   [][]int `json:"impl"`   // class i implements Impl[i]
	DefM   []bool  `json:"defm"`   // class i defines m() (and the helpers vs/vt/vp)
	DefTag []bool  `json:"deftag"` // class i defines static tag()
}

func (h *hier) nc() int { return len(h.Parent) }
func (h *hier) ni() int { return len(h.IExt) }

func cname(i int) string { return fmt.Sprintf("K%d", i) }
func iname(j int) string { return fmt.Sprintf("J%d", j) }

// ancestors returns the chain i, parent(i), ... (self first).
func (h *hier) chain(i int) []int {
	var out []int
	for c := i; c >= 0; c = h.Parent[c] {
		out = append(out, c)
	}
	return out
}

// ifaces returns the set of interfaces reachable from class i.
func (h *hier) ifaces(i int) map[int]string {
	out := map[int]string{}
	var addI func(j int, how string)
	addI = func(j int, how string) {
		if _, ok := out[j]; ok {
			return
		}
		out[j] = how
		for _, k := range h.IExt[j] {
			addI(k, "iface-extended")
		}
	}
	for d, c := range h.chain(i) {
		for _, j := range h.Impl[c] {
			how := "iface-direct"
			if d > 0 {
				how = "iface-inherited"
			}
			addI(j, how)
		}
	}
	return out
}

// relClass / expected for (object class x, type t). t: "K<i>", "J<j>", "Exception", "Throwable".
func (h *hier) relation(x int, t string) (string, bool) {
	switch t {
	case "Exception":
		return "builtin-root", true
	case "Throwable":
		return "builtin-throwable", true
	}
	if strings.HasPrefix(t, "K") {
		var ti int
		fmt.Sscanf(t, "K%d", &ti)
		for d, c := range h.chain(x) {
			if c == ti {
				switch d {
				case 0:
					return "self", true
				case 1:
					return "parent", true
				}
				return "ancestor2+", true
			}
		}
		for _, c := range h.chain(ti) {
			if c == x {
				return "descendant", false
			}
		}
		if h.Parent[x] >= 0 && h.Parent[x] == h.Parent[ti] {
			return "sibling", false
		}
		return "unrelated-class", false
	}
	var tj int
	fmt.Sscanf(t, "J%d", &tj)
	if how, ok := h.ifaces(x)[tj]; ok {
		return how, true
	}
	return "unrelated-iface", false
}

func (h *hier) nearest(def []bool, from int) int {
	for c := from; c >= 0; c = h.Parent[c] {
		if def[c] {
			return c
		}
	}
	return -1
}

func (h *hier) source() string {
	var sb strings.Builder
	sb.WriteString("<?php\n")
	for j := 0; j < h.ni(); j++ {
		fmt.Fprintf(&sb, "interface %s", iname(j))
		if len(h.IExt[j]) > 0 {
			var ps []string
			for _, k := range h.IExt[j] {
				ps = append(ps, iname(k))
			}
			sb.WriteString(" extends " + strings.Join(ps, ", "))
		}
		fmt.Fprintf(&sb, " { function im%d($a); }\n", j)
	}
	for i := 0; i < h.nc(); i++ {
		fmt.Fprintf(&sb, "class %s extends ", cname(i))
		if h.Parent[i] >= 0 {
			sb.WriteString(cname(h.Parent[i]))
		} else {
			sb.WriteString("Exception")
		}
		if len(h.Impl[i]) > 0 {
			var ps []string
			for _, k := range h.Impl[i] {
				ps = append(ps, iname(k))
			}
			sb.WriteString(" implements " + strings.Join(ps, ", "))
		}
		sb.WriteString(" {\n")
		if h.Parent[i] < 0 {
			for j := 0; j < h.ni(); j++ {
				fmt.Fprintf(&sb, "    function im%d($a) { return 0; }\n", j)
			}
		}
		if h.DefM[i] {
			fmt.Fprintf(&sb, "    function m() { return '%s::m'; }\n", cname(i))
			if h.nearest(h.DefTag, i) >= 0 {
				sb.WriteString("    function vs() { return self::tag(); }\n")
			}
			sb.WriteString("    function vt() { return static::tag(); }\n")
			// a chain of late-bound static calls: the runtime class must survive every hop
			sb.WriteString("    static function s1() { return static::s2(); }\n    static function s2() { return static::tag(); }\n    function v2() { return static::s1(); }\n")
			// a chain of parent:: calls through every definer above, with gaps where a class does not define it
			if h.Parent[i] >= 0 && h.nearest(h.DefM, h.Parent[i]) >= 0 {
				fmt.Fprintf(&sb, "    function ch() { return '%s>' . parent::ch(); }\n", cname(i))
			} else {
				fmt.Fprintf(&sb, "    function ch() { return '%s'; }\n", cname(i))
			}
			// factories: new self is the class that wrote it, new static the class it was called on
			sb.WriteString("    static function mk() { return new self('x'); }\n    static function mks() { return new static('x'); }\n")
			if h.Parent[i] >= 0 && h.nearest(h.DefM, h.Parent[i]) >= 0 {
				sb.WriteString("    function vp() { return parent::m(); }\n")
			}
		}
		if h.DefTag[i] {
			fmt.Fprintf(&sb, "    static function tag() { return '%s::tag'; }\n", cname(i))
		}
		sb.WriteString("}\n")
	}
	types := h.types()
	for _, t := range types {
		fmt.Fprintf(&sb, "function acc%s(%s $x) { return 1; }\n", t, t)
	}
	for x := 0; x < h.nc(); x++ {
		for _, t := range types {
			fmt.Fprintf(&sb, "try { __obs(\"io:%d:%s\", (new %s('x')) instanceof %s); } catch (Throwable $e) { __obs(\"!io:%d:%s\", $e->getMessage()); }\n", x, t, cname(x), t, x, t)
			fmt.Fprintf(&sb, "try { acc%s(new %s('x')); __obs(\"th:%d:%s\", true); } catch (Throwable $e) { __obs(\"th:%d:%s\", false); __obs(\"thmsg:%d:%s\", $e->getMessage()); }\n", t, cname(x), x, t, x, t, x, t)
			fmt.Fprintf(&sb, "try { throw new %s('x'); } catch (%s $e) { __obs(\"ca:%d:%s\", true); } catch (Throwable $e) { __obs(\"ca:%d:%s\", false); }\n", cname(x), t, x, t, x, t)
		}
		fmt.Fprintf(&sb, "try { __obs(\"dmk:%d\", get_class(%s::mk())); } catch (Throwable $e) { __obs(\"!dmk:%d\", $e->getMessage()); }\n", x, cname(x), x)
		fmt.Fprintf(&sb, "try { __obs(\"dmks:%d\", get_class(%s::mks())); } catch (Throwable $e) { __obs(\"!dmks:%d\", $e->getMessage()); }\n", x, cname(x), x)
		for _, f := range []string{"m", "vs", "vt", "vp", "v2", "ch"} {
			fmt.Fprintf(&sb, "try { __obs(\"d%s:%d\", (new %s('x'))->%s()); } catch (Throwable $e) { __obs(\"!d%s:%d\", $e->getMessage()); }\n", f, x, cname(x), f, f, x)
		}
		fmt.Fprintf(&sb, "try { __obs(\"ds1:%d\", %s::s1()); } catch (Throwable $e) { __obs(\"!ds1:%d\", $e->getMessage()); }\n", x, cname(x), x)
	}
	return sb.String()
}

func (h *hier) types() []string {
	var ts []string
	for i := 0; i < h.nc(); i++ {
		ts = append(ts, cname(i))
	}
	for j := 0; j < h.ni(); j++ {
		ts = append(ts, iname(j))
	}
	return append(ts, "Exception", "Throwable")
}

type c08Case struct {
	H   *hier  `json:"hierarchy"`
	Src string `json:"src"`
}

func c08Judge(pool *sb.Pool, rec *sb.Rec, h *hier) []*failure {
	src := h.source()
	rep := pool.Exec(&sb.Req{Kind: "script", Src: src, Tmpl: true, Run: true, DeadlineMs: 15000})
	rec.Eval()
	cs := c08Case{H: h, Src: src}
	var out []*failure
	seen := map[string]bool{}
	mk := func(key, d string) {
		if seen[key] {
			return
		}
		seen[key] = true
		out = append(out, &failure{Key: key, Detail: d, Case: cs})
	}
	if rep.Outcome == sb.Infra {
		rec.InfraProblem("%s", rep.Msg)
		return nil
	}
	if rep.Outcome != sb.OK {
		mk("cell:script:"+rep.Outcome, fmt.Sprintf("hierarchy script did not run to the end: %s %s %s", rep.Outcome, rep.Site, clip(rep.Msg, 200)))
		if rep.Outcome != sb.Uncaught && rep.Outcome != sb.GoPanic {
			return out
		}
	}
	o := parseObs(rep.Obs)
	for x := 0; x < h.nc(); x++ {
		for _, t := range h.types() {
			rel, want := h.relation(x, t)
			wantS := "b:0"
			if want {
				wantS = "b:1"
			}
			for _, judge := range []string{"io", "th", "ca"} {
				got, ok := o[fmt.Sprintf("%s:%d:%s", judge, x, t)]
				name := map[string]string{"io": "instanceof", "th": "typed-param", "ca": "catch"}[judge]
				if !ok {
					if e, bad := o[fmt.Sprintf("!%s:%d:%s", judge, x, t)]; bad {
						mk(fmt.Sprintf("cell:%s:%s:error", name, rel), fmt.Sprintf("%s of a %s object against %s (%s) raised: %s", name, cname(x), t, rel, clip(e, 160)))
					}
					continue
				}
				if got != wantS {
					mk(fmt.Sprintf("cell:%s:%s:%v", name, rel, want), fmt.Sprintf("%s: object of %s against %s (%s): want %v got %s %s", name, cname(x), t, rel, want, got, clip(o[fmt.Sprintf("thmsg:%d:%s", x, t)], 100)))
				}
			}
		}
		// dispatch
		dist := func(from, to int) string {
			d := 0
			for c := from; c >= 0 && c != to; c = h.Parent[c] {
				d++
			}
			if d > 2 {
				d = 2
			}
			return fmt.Sprintf("up%d", d)
		}
		chk := func(form string, label string, wantDef int, wantWhat string, resolvable bool, distS string) {
			got, ok := o[label]
			if !resolvable {
				return
			}
			want := fmt.Sprintf("s:\"%s::%s\"", cname(wantDef), wantWhat)
			if !ok {
				mk(fmt.Sprintf("cell:dispatch:%s:%s:error", form, distS), fmt.Sprintf("%s on a %s object should run %s but raised %s", form, cname(x), want, clip(o["!"+label], 160)))
				return
			}
			if got != want {
				mk(fmt.Sprintf("cell:dispatch:%s:%s", form, distS), fmt.Sprintf("%s on a %s object: want %s got %s", form, cname(x), want, got))
			}
		}
		if d := h.nearest(h.DefM, x); d >= 0 {
			chk("method", fmt.Sprintf("dm:%d", x), d, "m", true, dist(x, d))
			// helpers are defined where m is defined: the defining class of vs/vt/vp as seen from x is d
			if t := h.nearest(h.DefTag, d); t >= 0 {
				chk("self::", fmt.Sprintf("dvs:%d", x), t, "tag", true, dist(x, d)+"-"+dist(d, t))
			}
			if t := h.nearest(h.DefTag, x); t >= 0 {
				chk("static::", fmt.Sprintf("dvt:%d", x), t, "tag", true, dist(x, d)+"-"+dist(x, t))
				chk("static::chain", fmt.Sprintf("ds1:%d", x), t, "tag", true, dist(x, d)+"-"+dist(x, t))
				chk("static::chain-from-instance", fmt.Sprintf("dv2:%d", x), t, "tag", true, dist(x, d)+"-"+dist(x, t))
			}
			// parent:: chain: every definer from the nearest one up to the root-most one, in order
			var chain []string
			for c := d; c >= 0; c = h.nearest(h.DefM, h.Parent[c]) {
				chain = append(chain, cname(c))
				if h.Parent[c] < 0 {
					break
				}
			}
			if got, ok := o[fmt.Sprintf("dch:%d", x)]; !ok {
				mk(fmt.Sprintf("cell:dispatch:parent::chain:len%d:error", len(chain)), fmt.Sprintf("parent:: chain on a %s object raised %s", cname(x), clip(o[fmt.Sprintf("!dch:%d", x)], 160)))
			} else if want := "s:\"" + strings.Join(chain, ">") + "\""; got != want {
				mk(fmt.Sprintf("cell:dispatch:parent::chain:len%d", len(chain)), fmt.Sprintf("parent:: chain on a %s object: want %s got %s", cname(x), want, got))
			}
			// factories
			if got, ok := o[fmt.Sprintf("dmk:%d", x)]; ok && got != fmt.Sprintf("s:%q", cname(d)) {
				mk("cell:dispatch:new-self:"+dist(x, d), fmt.Sprintf("%s::mk() (new self written in %s): want %s got %s", cname(x), cname(d), cname(d), got))
			}
			if got, ok := o[fmt.Sprintf("dmks:%d", x)]; ok && got != fmt.Sprintf("s:%q", cname(x)) {
				mk("cell:dispatch:new-static:"+dist(x, d), fmt.Sprintf("%s::mks() (new static): want %s got %s", cname(x), cname(x), got))
			}
			// vp exists in class c (defining m) only if an ancestor of c defines m; find nearest class from x that has vp
			for c := x; c >= 0; c = h.Parent[c] {
				if h.DefM[c] && h.Parent[c] >= 0 && h.nearest(h.DefM, h.Parent[c]) >= 0 {
					p := h.nearest(h.DefM, h.Parent[c])
					chk("parent::", fmt.Sprintf("dvp:%d", x), p, "m", true, dist(x, c)+"-"+dist(h.Parent[c], p))
					break
				}
			}
		}
	}
	return out
}

// enumerate all hierarchies with nc classes and ni interfaces.
func enumHier(nc, ni int, fn func(h *hier)) {
	var parents [][]int
	var genP func(i int, cur []int)
	genP = func(i int, cur []int) {
		if i == nc {
			parents = append(parents, append([]int{}, cur...))
			return
		}
		for p := -1; p < i; p++ {
			genP(i+1, append(cur, p))
		}
	}
	genP(0, nil)
	var iexts [][][]int
	var genI func(j int, cur [][]int)
	genI = func(j int, cur [][]int) {
		if j == ni {
			cp := make([][]int, len(cur))
			for k := range cur {
				cp[k] = append([]int{}, cur[k]...)
			}
			iexts = append(iexts, cp)
			return
		}
		for mask := 0; mask < 1<<j; mask++ {
			var ext []int
			for k := 0; k < j; k++ {
				if mask&(1<<k) != 0 {
					ext = append(ext, k)
				}
			}
			genI(j+1, append(cur, ext))
		}
	}
	genI(0, nil)
	nImplMasks := 1
	for i := 0; i < nc; i++ {
		nImplMasks *= 1 << ni
	}
	for _, p := range parents {
		for _, ie := range iexts {
			for im := 0; im < nImplMasks; im++ {
				impl := make([][]int, nc)
				m := im
				for i := 0; i < nc; i++ {
					sub := m & (1<<ni - 1)
					m >>= ni
					for j := 0; j < ni; j++ {
						if sub&(1<<j) != 0 {
							impl[i] = append(impl[i], j)
						}
					}
				}
				for dm := 1; dm < 1<<nc; dm++ {
					for dt := 1; dt < 1<<nc; dt++ {
						h := &hier{Parent: p, IExt: ie, Impl: impl, DefM: make([]bool, nc), DefTag: make([]bool, nc)}
						for i := 0; i < nc; i++ {
							h.DefM[i] = dm&(1<<i) != 0
							h.DefTag[i] = dt&(1<<i) != 0
						}
						fn(h)
					}
				}
			}
		}
	}
}

// ---- like ----

type likeCase struct {
	Src  string `json:"src"`
	Want bool   `json:"want"`
	Key  string `json:"cell"`
}

// likeCases enumerates: object class chain of depth 1..3 with methods p (1 param) and q (0 params)
// placed at each level or absent, with right or wrong parameter counts; targets: class and interface
// declaring p($a) / q() / both.
func likeCases() []likeCase {
	var out []likeCase
	type meth struct {
		name   string
		params int
	}
	targets := []struct {
		name  string
		kind  string
		meths []meth
	}{
		{"TP", "interface", []meth{{"p", 1}}},
		{"TQ", "interface", []meth{{"q", 0}}},
		{"TPQ", "interface", []meth{{"p", 1}, {"q", 0}}},
		{"CP", "class", []meth{{"p", 1}}},
		{"CPQ", "class", []meth{{"p", 1}, {"q", 0}}},
	}
	sig := func(m meth) string {
		var ps []string
		for i := 0; i < m.params; i++ {
			ps = append(ps, fmt.Sprintf("$a%d", i))
		}
		return "function " + m.name + "(" + strings.Join(ps, ", ") + ")"
	}
	// placement of p: level 0 (object's class), 1 (parent), 2 (grandparent), -1 absent; params 1 (right) or 2 (wrong)
	for depth := 1; depth <= 3; depth++ {
		for pl := -1; pl < depth; pl++ {
			for _, pp := range []int{1, 2} {
				if pl < 0 && pp == 2 {
					continue
				}
				for ql := -1; ql < depth; ql++ {
					for _, tg := range targets {
						for _, nominal := range []bool{false, true} {
							// nominal: the chain's root extends / implements the target itself, so the object is also an
							// instance of it; an override below may still change the number of parameters
							if nominal && tg.kind == "interface" {
								skip := false
								for _, m := range tg.meths {
									if (m.name == "p" && pl < 0) || (m.name == "q" && ql < 0) {
										skip = true // a class that does not implement the interface's method is not accepted
									}
								}
								if skip {
									continue
								}
							}
							var sb strings.Builder
							sb.WriteString("<?php\n")
							if tg.kind == "interface" {
								fmt.Fprintf(&sb, "interface %s {", tg.name)
								for _, m := range tg.meths {
									sb.WriteString(" " + sig(m) + ";")
								}
								sb.WriteString(" }\n")
							} else {
								fmt.Fprintf(&sb, "class %s {", tg.name)
								for _, m := range tg.meths {
									sb.WriteString(" " + sig(m) + " { return 0; }")
								}
								sb.WriteString(" }\n")
							}
							// chain: L<depth-1> is the root, L0 the object's class
							for lvl := depth - 1; lvl >= 0; lvl-- {
								fmt.Fprintf(&sb, "class L%d", lvl)
								if lvl < depth-1 {
									fmt.Fprintf(&sb, " extends L%d", lvl+1)
								} else if nominal && tg.kind == "class" {
									fmt.Fprintf(&sb, " extends %s", tg.name)
								}
								if nominal && tg.kind == "interface" && lvl == 0 {
									// on the object's own class: its methods may come from any ancestor
									fmt.Fprintf(&sb, " implements %s", tg.name)
								}
								sb.WriteString(" {")
								if pl == lvl {
									sb.WriteString(" " + sig(meth{"p", pp}) + " { return 1; }")
								}
								if ql == lvl {
									sb.WriteString(" " + sig(meth{"q", 0}) + " { return 2; }")
								}
								sb.WriteString(" }\n")
							}
							fmt.Fprintf(&sb, "$o = new L0();\ntry { __obs(\"like\", $o like %s); } catch (Throwable $e) { __obs(\"!like\", $e->getMessage()); }\n", tg.name)
							want := true
							where := "own"
							for _, m := range tg.meths {
								lvl, params := -1, 0
								if m.name == "p" {
									lvl, params = pl, pp
								} else {
									lvl, params = ql, 0
								}
								if lvl < 0 && nominal && tg.kind == "class" {
									lvl, params = depth, m.params // inherited from the target class itself
								}
								if lvl < 0 || params != m.params {
									want = false
								}
								if lvl > 0 {
									where = "inherited"
								}
							}
							reason := "complete"
							if !want {
								reason = "missing-or-arity"
							}
							key := fmt.Sprintf("cell:like:%s:%s:%s", tg.kind, where, reason)
							if nominal {
								key = fmt.Sprintf("cell:like:%s:nominal-%s:%s", tg.kind, where, reason)
							}
							out = append(out, likeCase{Src: sb.String(), Want: want, Key: key})
						}
					}
				}
			}
		}
	}
	return out
}

func c08JudgeLike(pool *sb.Pool, rec *sb.Rec, c likeCase) *failure {
	rep := pool.Exec(&sb.Req{Kind: "script", Src: c.Src, Tmpl: true, Run: true})
	rec.Eval()
	if rep.Outcome == sb.Infra {
		rec.InfraProblem("%s", rep.Msg)
		return nil
	}
	o := parseObs(rep.Obs)
	got, ok := o["like"]
	want := "b:0"
	if c.Want {
		want = "b:1"
	}
	if !ok {
		return &failure{Key: c.Key + ":error", Detail: fmt.Sprintf("like raised or crashed: %s %s %s", rep.Outcome, clip(o["!like"], 160), clip(rep.Msg, 100)), Case: c}
	}
	if got != want {
		return &failure{Key: c.Key, Detail: fmt.Sprintf("$o like T: want %v got %s\n%s", c.Want, got, c.Src), Case: c}
	}
	return nil
}

func TestC08(t *testing.T) {
	cfg := sb.LoadConfig("C08")
	rec := sb.NewRec(cfg)
	defer rec.Flush()
	rec.R.Rule = "complete enumeration of all hierarchies with <= 3 classes (single-inheritance forests below Exception) and <= 2 interfaces (extends DAGs), all implements subsets and all placements of an overridable method and of a static method; seeded hierarchies up to 5 classes + 4 interfaces; per hierarchy all (object class, type) pairs through instanceof, a typed parameter and catch, and all (object class, call form) pairs through $o->m(), parent::, self::, static:: (also through a chain of two static:: hops started from Class::s1() and from an instance), a chain of parent:: calls through every definer, new self / new static factories called through subclasses; all subsets of method definers on linear chains of 4 and 5 classes; plus an enumeration of structural (like) cases over class chains of depth <= 3. Non-trivial = a hierarchy with an interface edge or a chain of length >= 2; distinct by hierarchy."
	pool := &sb.Pool{}
	defer pool.Close()
	dl := time.Now().Add(budget(cfg, 60, 700))
	if cfg.Replay != "" {
		rf, err := sb.LoadReplay(cfg.Replay)
		if err != nil {
			rec.InfraProblem("replay: %v", err)
			return
		}
		if strings.HasPrefix(rf.Key, "cell:like:") {
			var c likeCase
			json.Unmarshal(rf.Case, &c)
			rec.NonTrivial(c.Src)
			rec.NonTrivial(c.Src, "r")
			if f := c08JudgeLike(pool, rec, c); f != nil {
				rec.Fail(f.Key, f.Detail, f.Case)
			}
			return
		}
		var c c08Case
		json.Unmarshal(rf.Case, &c)
		rec.NonTrivial(c.Src)
		rec.NonTrivial(c.Src, "r")
		for _, f := range c08Judge(pool, rec, c.H) {
			if f.Key == rf.Key {
				rec.Fail(f.Key, f.Detail, f.Case)
			}
		}
		return
	}
	idx := 0
	complete := true
	stride := 1
	if !cfg.Thorough() {
		stride = 6 // quick: a seeded 1/6 sample of the 3-class + 2-interface family, everything smaller completely
	}
	for nc := 1; nc <= 3; nc++ {
		for ni := 0; ni <= 2; ni++ {
			enumHier(nc, ni, func(h *hier) {
				idx++
				if !cfg.Mine(idx) {
					return
				}
				if nc == 3 && ni == 2 && stride > 1 && sb.Hash64(fmt.Sprint(cfg.Seed), fmt.Sprint(idx))%uint64(stride) != 0 {
					return
				}
				if time.Now().After(dl) {
					complete = false
					return
				}
				id, _ := json.Marshal(h)
				if ni > 0 || nc > 1 {
					rec.NonTrivial(string(id))
				}
				rec.Label(fmt.Sprintf("hier.%dc%di", nc, ni), string(id))
				for _, f := range c08Judge(pool, rec, h) {
					rec.Fail(f.Key, f.Detail, f.Case)
				}
			})
		}
	}
	// linear chains of 4 and 5 classes, every subset of method definers (class 0 always defines):
	// parent:: / static:: / self:: across gaps of one, two and three classes
	for _, n := range []int{4, 5} {
		for mask := 0; mask < 1<<(n-1); mask++ {
			idx++
			if !cfg.Mine(idx) {
				continue
			}
			h := &hier{Parent: make([]int, n), IExt: [][]int{}, Impl: make([][]int, n), DefM: make([]bool, n), DefTag: make([]bool, n)}
			for c := 0; c < n; c++ {
				h.Parent[c] = c - 1
				h.DefM[c] = c == 0 || mask&(1<<(c-1)) != 0
				h.DefTag[c] = c == 0 || (mask>>(c-1))&1 == c%2
			}
			id, _ := json.Marshal(h)
			rec.NonTrivial(string(id))
			rec.Label(fmt.Sprintf("hier.chain%d", n), string(id))
			for _, f := range c08Judge(pool, rec, h) {
				rec.Fail(f.Key, f.Detail, f.Case)
			}
		}
	}
	for i, c := range likeCases() {
		if !cfg.Mine(i) {
			continue
		}
		rec.NonTrivial(c.Src)
		rec.Label("like."+fmt.Sprint(c.Want), c.Src)
		if f := c08JudgeLike(pool, rec, c); f != nil {
			rec.Fail(f.Key, f.Detail, f.Case)
		}
	}
	rec.R.Exhaustive = complete && cfg.Thorough()
	rec.Flush()
	// seeded larger hierarchies
	total := 2000 / cfg.NShards
	if cfg.Thorough() {
		total = 100000 / cfg.NShards
	}
	rapidLoop(t, rec, "large", total, 100, dl, func(rt *rapid.T) *failure {
		nc := rapid.IntRange(3, 5).Draw(rt, "nc")
		ni := rapid.IntRange(1, 4).Draw(rt, "ni")
		h := &hier{Parent: make([]int, nc), IExt: make([][]int, ni), Impl: make([][]int, nc), DefM: make([]bool, nc), DefTag: make([]bool, nc)}
		for i := 0; i < nc; i++ {
			h.Parent[i] = rapid.IntRange(-1, i-1).Draw(rt, "parent")
			for j := 0; j < ni; j++ {
				if rapid.IntRange(0, 3).Draw(rt, "impl") == 0 {
					h.Impl[i] = append(h.Impl[i], j)
				}
			}
			h.DefM[i] = rapid.Bool().Draw(rt, "defm")
			h.DefTag[i] = rapid.Bool().Draw(rt, "deftag")
		}
		for j := 0; j < ni; j++ {
			for k := 0; k < j; k++ {
				if rapid.IntRange(0, 2).Draw(rt, "iext") == 0 {
					h.IExt[j] = append(h.IExt[j], k)
				}
			}
		}
		id, _ := json.Marshal(h)
		rec.NonTrivial(string(id))
		rec.Label("hier.large", "")
		fs := c08Judge(pool, rec, h)
		sort.Slice(fs, func(a, b int) bool { return fs[a].Key < fs[b].Key })
		for _, f := range fs {
			if !rec.IsKnown(f.Key) {
				return f
			}
			rec.Fail(f.Key, f.Detail, f.Case)
		}
		return nil
	})
}
