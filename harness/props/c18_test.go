package props

import (
	"encoding/json"
	"fmt"
	"os"
	"path/filepath"
	"regexp"
	"strconv"
	"strings"
	"testing"
	"time"

	"github.com/php-any/origami/lexer"
	"github.com/php-any/origami/token"
	"pgregory.net/rapid"
	"verifharness/pgen"
	"verifharness/sb"
)

// ---------------------------------------------------------------------------
// C18 — token spans and error locations point at the right place in the source.
// ---------------------------------------------------------------------------

func init() {
	sb.Register("spans", spansHandler)
	sb.Assume("C18",
		"span invariants are checked on the top-level token list of Tokenize / TokenizeTemplate: 0 <= Start <= End <= len(src), Start >= previous End, Line = number of newlines before Start, and Literal == src[Start:End] for identifiers, variables, keywords, operators, numbers and escape-free strings; tokens the preprocessor synthesises may be zero-width",
		"error locations are read from what the CLI built from /repo prints (first file:line:col in stderr/stdout) for a generated program with exactly one planted fault on a known line; only the line is asserted, not the column",
		"parse faults are restricted to those whose detecting token lies on the planted line by construction; a planted fault the parser accepts without any diagnostic has no location to judge and is counted as accepted",
		"findings are keyed cell:span:<invariant>:<token class>:<injected feature> and cell:location:<fault kind>:<how the reported line relates to the planted one>",
	)
}

type spanTok struct {
	S, E, L int
	Lit     string
	Class   string
	Type    int
}

var wordTypes = func() map[token.TokenType]token.WordType {
	m := map[token.TokenType]token.WordType{}
	for _, d := range token.TokenDefinitions {
		m[d.Type] = d.WordType
	}
	return m
}()

func spansHandler(req *sb.Req) *sb.Rep {
	sb.SetPhase("lex")
	var toks []lexer.Token
	if req.Tmpl {
		toks = lexer.NewLexer().TokenizeTemplate(req.Src)
	} else {
		toks = lexer.NewLexer().Tokenize(req.Src)
	}
	out := make([]spanTok, 0, len(toks))
	for _, t := range toks {
		cls := "other"
		switch t.Type() {
		case token.IDENTIFIER:
			cls = "ident"
		case token.VARIABLE:
			cls = "var"
		case token.INT, token.FLOAT, token.NUMBER:
			cls = "num"
		case token.STRING:
			cls = "str"
		default:
			if wt, ok := wordTypes[t.Type()]; ok {
				switch wt {
				case token.KEYWORD:
					cls = "kw"
				case token.OPERATOR:
					cls = "op"
				}
			}
		}
		out = append(out, spanTok{S: t.Start(), E: t.End(), L: t.Line(), Lit: t.Literal(), Class: cls, Type: int(t.Type())})
	}
	b, _ := json.Marshal(out)
	return &sb.Rep{Outcome: sb.OK, Data: b}
}

type c18Case struct {
	Src     string `json:"src"`
	Tmpl    bool   `json:"tmpl"`
	Feature string `json:"feature"`
	Kind    string `json:"kind"` // span | location
	Fault   string `json:"fault,omitempty"`
	Line    int    `json:"planted_line,omitempty"`
}

func c18JudgeSpans(pool *sb.Pool, rec *sb.Rec, c c18Case) []*failure {
	rep := pool.Exec(&sb.Req{Kind: "spans", Src: c.Src, Tmpl: c.Tmpl})
	rec.Eval()
	if rep.Outcome == sb.Infra {
		rec.InfraProblem("%s", rep.Msg)
		return nil
	}
	if rep.Outcome != sb.OK {
		// crashes of the lexer are C01's subject; here they only make the case unjudgeable
		rec.Label("span.lexer-did-not-finish:"+rep.Outcome, "")
		return nil
	}
	var toks []spanTok
	json.Unmarshal(rep.Data, &toks)
	src := c.Src
	var out []*failure
	seen := map[string]bool{}
	mk := func(inv, cls, d string) {
		key := fmt.Sprintf("cell:span:%s:%s:%s", inv, cls, c.Feature)
		if seen[key] {
			return
		}
		seen[key] = true
		out = append(out, &failure{Key: key, Detail: fmt.Sprintf("%s (feature %s, template=%v): %s", inv, c.Feature, c.Tmpl, d), Case: c})
	}
	prevEnd := 0
	for i, t := range toks {
		if t.S < 0 || t.E > len(src) || t.S > t.E {
			mk("out-of-bounds", t.Class, fmt.Sprintf("token #%d %q spans [%d,%d) in a source of %d bytes", i, clip(t.Lit, 40), t.S, t.E, len(src)))
			continue
		}
		if t.S < prevEnd {
			mk("overlap", t.Class, fmt.Sprintf("token #%d %q starts at %d before the previous token ended (%d)", i, clip(t.Lit, 40), t.S, prevEnd))
		}
		if t.E > prevEnd {
			prevEnd = t.E
		}
		if nl := strings.Count(src[:t.S], "\n"); nl != t.L {
			mk("line", t.Class, fmt.Sprintf("token #%d %q at offset %d records line %d, there are %d newlines before it", i, clip(t.Lit, 40), t.S, t.L, nl))
		}
		switch t.Class {
		case "ident", "var", "num", "kw", "op":
			if t.S == t.E {
				continue // synthetic
			}
			if src[t.S:t.E] != t.Lit && !strings.EqualFold(src[t.S:t.E], t.Lit) {
				mk("text", t.Class, fmt.Sprintf("token #%d literal %q but the source at [%d,%d) is %q", i, clip(t.Lit, 40), t.S, t.E, clip(src[t.S:t.E], 40)))
			}
		case "str":
			if t.S == t.E || strings.ContainsAny(t.Lit, "\\$") {
				continue
			}
			got := src[t.S:t.E]
			if got != t.Lit && strings.Trim(got, "\"'") != strings.Trim(t.Lit, "\"'") {
				mk("text", t.Class, fmt.Sprintf("string token #%d literal %q but the source at [%d,%d) is %q", i, clip(t.Lit, 40), t.S, t.E, clip(got, 40)))
			}
		}
	}
	return out
}

// ---- injections ----

var injections = []struct{ Name, Text string }{
	{"multibyte-ident", " $变量 = 1; "},
	{"multibyte-string", " $s1 = 'é世界😀'; "},
	{"line-comment-crlf", " // comment\r\n"},
	{"line-comment-lf", " // comment\n"},
	{"hash-comment", " # hash\n"},
	{"block-comment", " /* a\n b\r\n c */ "},
	{"crlf", "\r\n"},
	{"heredoc", " $h = <<<EOT\nline $a\nmore\nEOT;\n"},
	{"nowdoc", " $n = <<<'EOT'\nraw $a\nEOT;\n"},
	{"interpolation", " $q = \"a{$a[\"k\"]}b $a c\"; "},
	{"interpolation-multibyte", " $q2 = \"é{$a}世 $a\"; "},
	{"fullwidth-space", "　"},
	{"tabs", "\t\t"},
	{"blank-lines", "\n\n\n"},
}

func inject(rt *rapid.T, src string, cuts []int, tmpl bool) (string, string) {
	n := rapid.IntRange(1, 3).Draw(rt, "ninj")
	var names []string
	type ins struct {
		at   int
		text string
	}
	var list []ins
	for i := 0; i < n; i++ {
		k := rapid.IntRange(0, len(injections)).Draw(rt, "inj")
		at := cuts[rapid.IntRange(0, len(cuts)-1).Draw(rt, "at")]
		if k == len(injections) {
			if !tmpl {
				continue
			}
			// a closing tag in the middle of a line, at the end of a line (LF / CRLF directly after ?>), and
			// several blocks in a row
			html := []string{" ?><b>html é</b>\r\n<?php ", " ?>\n<b>html é</b>\n<?php\n", " ?>\r\n<p>x</p>\r\n<?php\r\n", " ?>\n<?php ?>\n\n<i>y</i><?php "}[rapid.IntRange(0, 3).Draw(rt, "htmlk")]
			list = append(list, ins{at, html})
			names = append(names, "inline-html")
			continue
		}
		list = append(list, ins{at, injections[k].Text})
		names = append(names, injections[k].Name)
	}
	// apply from the end so that offsets stay valid
	for i := 0; i < len(list); i++ {
		for j := i + 1; j < len(list); j++ {
			if list[j].at > list[i].at {
				list[i], list[j] = list[j], list[i]
			}
		}
	}
	for _, in := range list {
		src = src[:in.at] + in.text + src[in.at:]
	}
	if len(names) == 0 {
		return src, "none"
	}
	// single feature name when one kind only, else "mixed"
	first := names[0]
	for _, nm := range names {
		if nm != first {
			return src, "mixed"
		}
	}
	return src, first
}

func tokenCuts(pool *sb.Pool, src string, tmpl bool) []int {
	rep := pool.Exec(&sb.Req{Kind: "spans", Src: src, Tmpl: tmpl})
	if rep.Outcome != sb.OK {
		return nil
	}
	var toks []spanTok
	json.Unmarshal(rep.Data, &toks)
	var cuts []int
	for _, t := range toks {
		if t.S >= 0 && t.S <= len(src) && t.Class != "str" {
			cuts = append(cuts, t.S)
		}
	}
	return cuts
}

// ---- error locations ----

// locExprContexts: the faulting expression sits on a line of its own inside a construct that spans
// several lines; the reported line must be the expression's, not the construct's first line.
var locExprContexts = []struct {
	Name      string
	Pre, Post []string
	Only, Mid string // the context fits one fault only, spelled Mid on the asserted line
}{
	{"array-element", []string{"$zzA = [", "1,"}, []string{",", "3,", "];"}, "", ""},
	{"call-argument", []string{"var_dump(", "1,"}, []string{");"}, "", ""},
	{"concat-operand", []string{"$zzS = 'a' ."}, []string{". 'c';"}, "", ""},
	{"ternary-branch", []string{"$zzT = true", "?"}, []string{": 0;"}, "", ""},
	{"assignment-rhs", []string{"$zzR ="}, []string{";"}, "", ""},
	// second line of a double-quoted string that spans lines (only the method-call fault fits here)
	{"interpolation-line2", []string{"$zzE = new Exception('x');", "$zzI = \"first"}, []string{"third\";"}, "undefined-method", "second {$zzE->noSuchMethod()}"},
	// member chains broken across lines, arrow at the end of the line or at its start: the failing member's line
	{"trailing-arrow", []string{"$zzE = new Exception('x');", "$zzC = $zzE->"}, []string{";"}, "undefined-method", "noSuchMethod()"},
	{"leading-arrow", []string{"$zzE = new Exception('x');", "$zzC = $zzE"}, []string{";"}, "undefined-method", "->noSuchMethod()"},
	{"trailing-arrow-chain", []string{"class ZzChain { function me() { return $this; } }", "$zzC = (new ZzChain())->", "me()->", "me()->"}, []string{"me();"}, "undefined-method", "noSuchMethod()->"},
	{"leading-arrow-chain", []string{"class ZzChain { function me() { return $this; } }", "$zzC = (new ZzChain())", "->me()", "->me()"}, []string{"->me();"}, "undefined-method", "->noSuchMethod()"},
	{"trailing-arrow-on-null", []string{"$zzN = null;", "$zzC = $zzN->"}, []string{";"}, "undefined-method", "anyMethod()"},
}

// the runtime faults as expressions (no trailing semicolon)
var locExprFaults = []struct{ Name, Expr string }{
	{"undefined-function", "undefined_fn_xyz()"},
	{"undefined-method", "(new Exception('x'))->noSuchMethod()"},
	{"undefined-class", "new NoSuchClassXyz()"},
	{"modulo-by-zero", "1 % 0"},
}

var locFaults = []struct {
	Name, Stmt, Kind string
}{
	{"throw", "throw new Exception('planted');", "runtime"},
	{"modulo-by-zero", "$zz9 = 1 % 0;", "runtime"},
	{"undefined-function", "undefined_fn_xyz();", "runtime"},
	{"undefined-method", "(new Exception('x'))->noSuchMethod();", "runtime"},
	{"undefined-class", "$zz8 = new NoSuchClassXyz();", "runtime"},
	{"parse:missing-rparen", "$zz7 = (1 + 2;", "parse"},
	{"parse:missing-rparen-if", "if ($zz6 == 1 { echo 1; }", "parse"},
	{"parse:double-comma", "strlen('a',, 2);", "parse"},
	{"line-constant", "echo \"\\nLINE=\" . __LINE__ . \"=\\n\"; undefined_fn_after_line();", "runtime"},
}

// locContexts wrap the planted statement: the error is raised somewhere else than in the statement
// the enclosing construct is executing, and must still be reported on its own line.
var locContexts = []struct {
	Name      string
	Pre, Post []string
}{
	{"top", nil, nil},
	{"if-body", []string{"if (true) {"}, []string{"}"}},
	{"for-body", []string{"for ($zzi = 0; $zzi < 1; $zzi++) {"}, []string{"}"}},
	{"while-body", []string{"$zzw = 0;", "while ($zzw < 1) {", "$zzw++;"}, []string{"}"}},
	{"foreach-body", []string{"foreach ([1] as $zzv) {"}, []string{"}"}},
	{"fn-called-from-top", []string{"function zzf() {"}, []string{"}", "zzf();"}},
	{"fn-called-from-if", []string{"function zzf() {"}, []string{"}", "if (true) {", "zzf();", "}"}},
	{"fn-called-from-for", []string{"function zzf() {"}, []string{"}", "for ($zzi = 0; $zzi < 1; $zzi++) {", "zzf();", "}"}},
	{"fn-called-from-while", []string{"function zzf() {"}, []string{"}", "$zzw = 0;", "while ($zzw < 1) {", "$zzw++;", "zzf();", "}"}},
	{"fn-called-from-foreach", []string{"function zzf() {"}, []string{"}", "foreach ([1] as $zzv) {", "zzf();", "}"}},
	{"method-called-from-for", []string{"class ZzC {", "public function m() {"}, []string{"}", "}", "for ($zzi = 0; $zzi < 1; $zzi++) {", "(new ZzC())->m();", "}"}},
	{"fn-called-from-fn-in-for", []string{"function zzf() {"}, []string{"}", "function zzg() {", "zzf();", "return 1;", "}", "for ($zzi = 0; $zzi < 1; $zzi++) {", "$zzr = zzg();", "}"}},
}

var primaryLocRe = regexp.MustCompile(` in (\S*):(\d+):(\d+)\s*$`)

var locRe = regexp.MustCompile(`([^\s:'"(]+\.php):(\d+)(?::(\d+))?`)

func c18JudgeLocation(rec *sb.Rec, dir string, c c18Case) *failure {
	path := filepath.Join(dir, "loc.php")
	os.WriteFile(path, []byte(c.Src), 0o644)
	r := sb.RunCLI(dir, path, 20*time.Second)
	rec.Eval()
	if r.Err != "" {
		rec.InfraProblem("cli: %s", r.Err)
		return nil
	}
	if r.TimedOut {
		rec.Inconclusive("cli timed out")
		return nil
	}
	all := r.Stderr + "\n" + r.Stdout
	if strings.HasPrefix(c.Fault, "line-constant") {
		// __LINE__ must evaluate to the line it is written on
		m := regexp.MustCompile(`LINE=(\d+)=`).FindStringSubmatch(r.Stdout)
		if m == nil {
			return &failure{Key: "cell:location:" + c.Fault + ":no-value", Detail: fmt.Sprintf("__LINE__ planted on line %d printed nothing: %s", c.Line, clip(all, 300)), Case: c}
		}
		if n, _ := strconv.Atoi(m[1]); n != c.Line {
			return &failure{Key: "cell:location:" + c.Fault + ":wrong-value", Detail: fmt.Sprintf("__LINE__ on line %d evaluates to %d", c.Line, n), Case: c}
		}
	}
	mk := func(rel, d string) *failure {
		return &failure{Key: fmt.Sprintf("cell:location:%s:%s", c.Fault, rel), Detail: fmt.Sprintf("fault %q planted on line %d: %s\n  diagnostic: %s", c.Fault, c.Line, d, clip(strings.TrimSpace(all[len(r.Stdout)*0:]), 400)), Case: c}
	}
	if r.Exit == 0 && !strings.Contains(all, "rror") && !strings.Contains(all, "错误") {
		rec.Label("location.fault-accepted-silently:"+c.Fault, "")
		return nil
	}
	// the location of the diagnostic itself: "... error: <message> in <file>:<line>:<col>" on the first error line
	for _, ln := range strings.Split(all, "\n") {
		if !strings.Contains(ln, "rror") && !strings.Contains(ln, "错误") {
			continue
		}
		if m := primaryLocRe.FindStringSubmatch(ln); m != nil {
			n, _ := strconv.Atoi(m[2])
			switch {
			case !strings.HasSuffix(m[1], "loc.php"):
				return mk("diagnostic-names-no-script-line", fmt.Sprintf("the diagnostic's own location is %q (the stack trace may still name the line)", m[1]+":"+m[2]))
			case n != c.Line:
				rel := "later-line"
				if n < c.Line {
					rel = "earlier-line"
				}
				if n == 1 && c.Line != 1 {
					rel = "reports-line-1"
				}
				return mk(rel, fmt.Sprintf("the diagnostic's own location is line %d", n))
			}
			return nil
		}
		break
	}
	ms := locRe.FindAllStringSubmatch(all, -1)
	var lines []int
	for _, m := range ms {
		if strings.HasSuffix(m[1], "loc.php") {
			n, _ := strconv.Atoi(m[2])
			lines = append(lines, n)
		}
	}
	if len(lines) == 0 {
		return mk("no-file-line", "the diagnostic names no file:line of the script")
	}
	got := lines[0]
	switch {
	case got == c.Line:
		return nil
	case got == 1 && c.Line != 1:
		return mk("reports-line-1", fmt.Sprintf("reports line 1"))
	case got < c.Line:
		return mk("earlier-line", fmt.Sprintf("reports line %d", got))
	default:
		return mk("later-line", fmt.Sprintf("reports line %d", got))
	}
}

func TestC18(t *testing.T) {
	cfg := sb.LoadConfig("C18")
	rec := sb.NewRec(cfg)
	defer rec.Flush()
	rec.R.Rule = "(a) span invariants on every corpus file (tests/**, examples/**, .php in template mode, .zy in plain mode) and on generated programs, intact and with 1-3 seeded injections at token boundaries (multi-byte identifiers and strings, CRLF, line / hash / block comments, heredoc, nowdoc, nested interpolation, full-width space, inline HTML); (b) error locations: generated programs (one statement per line) with exactly one planted fault (throw, modulo by zero, undefined function / method / class, three parse faults) moved across all top-level statement positions, the runtime faults also wrapped in 11 contexts (loop / if bodies, a function or method called from a for / while / foreach / if body, a call chain) and, as expressions on a line of their own, inside 5 multi-line constructs (array literal, call arguments, concatenation, ternary, assignment), run through the CLI. Non-trivial = the input contains an injected feature before its last token / the planted line is not 1; distinct by source text."
	pool := &sb.Pool{}
	defer pool.Close()
	dl := time.Now().Add(budget(cfg, 70, 800))
	dir, _ := os.MkdirTemp("", "c18-")
	defer os.RemoveAll(dir)
	if cfg.Replay != "" {
		rf, err := sb.LoadReplay(cfg.Replay)
		if err != nil {
			rec.InfraProblem("replay: %v", err)
			return
		}
		var c c18Case
		json.Unmarshal(rf.Case, &c)
		rec.NonTrivial(c.Src)
		rec.NonTrivial(c.Src, "r")
		if c.Kind == "location" {
			if f := c18JudgeLocation(rec, dir, c); f != nil && f.Key == rf.Key {
				rec.Fail(f.Key, f.Detail, f.Case)
			}
			return
		}
		for _, f := range c18JudgeSpans(pool, rec, c) {
			if f.Key == rf.Key {
				rec.Fail(f.Key, f.Detail, f.Case)
			}
		}
		return
	}
	// (a1) intact corpus files: complete
	files := corpusFiles()
	for i, f := range files {
		if !cfg.Mine(i) {
			continue
		}
		b, err := os.ReadFile(f)
		if err != nil {
			continue
		}
		c := c18Case{Src: string(b), Tmpl: strings.HasSuffix(f, ".php"), Feature: "corpus-intact", Kind: "span"}
		rec.Label("span.corpus-intact", strings.TrimPrefix(f, sb.Repo()+"/"))
		rec.NonTrivial(c.Src)
		for _, fl := range c18JudgeSpans(pool, rec, c) {
			fl.Detail = strings.TrimPrefix(f, sb.Repo()+"/") + ": " + fl.Detail
			fl.Case = c18Case{Src: "file:" + f, Tmpl: c.Tmpl, Feature: c.Feature, Kind: "span"}
			rec.Fail(fl.Key, fl.Detail, c)
		}
	}
	rec.R.Extra["corpus_files"] = len(files)
	rec.Flush()
	// (b) error locations over generated programs
	nloc := 6
	if cfg.Thorough() {
		nloc = 150
	}
	gcfg := pgen.DefaultCfg()
	gcfg.MaxStmts = 6
	gcfg.MaxFuncs = 1
	gcfg.Exclude = c02Exclusions(cfg.Root)
	locDone := 0
	exprDone := 0
	rapidLoop(t, rec, "loc", nloc, nloc, dl, func(rt *rapid.T) *failure {
		p := pgen.Gen(rt, gcfg)
		if _, err := pgen.Run(p); err != nil {
			return nil
		}
		src := p.Print(pgen.PrintOpts{})
		lines := strings.Split(strings.TrimRight(src, "\n"), "\n")
		// top-level insertion points: lines of main that start at column 0 and are simple statements
		mainStart := 1
		for i, l := range lines {
			if strings.HasPrefix(l, "}") {
				mainStart = i + 1
			}
		}
		var points []int
		depth := 0
		for i := mainStart; i < len(lines); i++ {
			if depth == 0 && i > 0 {
				points = append(points, i)
			}
			depth += strings.Count(lines[i], "{") - strings.Count(lines[i], "}")
		}
		points = append(points, len(lines))
		if len(points) > 4 && !cfg.Thorough() {
			points = []int{points[0], points[len(points)/2], points[len(points)-1]}
		}
		for _, at := range points {
			for fi, fk := range locFaults {
				locDone++
				if locDone%cfg.NShards != cfg.Shard {
					continue
				}
				// every fault at top level; runtime faults also inside one wrapping context (rotating)
				lc := locContexts[0]
				if fk.Kind == "runtime" && (locDone/cfg.NShards)%2 == 1 {
					lc = locContexts[1+(locDone/cfg.NShards/2+fi)%(len(locContexts)-1)]
				}
				block := append(append(append([]string{}, lc.Pre...), fk.Stmt), lc.Post...)
				nl := append(append(append([]string{}, lines[:at]...), block...), lines[at:]...)
				fname := fk.Name
				if lc.Name != "top" {
					fname += "@" + lc.Name
				}
				c := c18Case{Src: strings.Join(nl, "\n") + "\n", Tmpl: true, Kind: "location", Fault: fname, Line: at + 1 + len(lc.Pre)}
				rec.NonTrivial(c.Src)
				rec.Label("location."+fname, c.Src)
				if f := c18JudgeLocation(rec, dir, c); f != nil {
					if !rec.IsKnown(f.Key) {
						return f
					}
					rec.Fail(f.Key, f.Detail, f.Case)
				}
			}
			// expression faults inside multi-line constructs: all 20 (context, fault) pairs in thorough,
			// a rotating five per insertion point in quick
			for ci, ec := range locExprContexts {
				for fi, ef := range locExprFaults {
					exprDone++
					if exprDone%cfg.NShards != cfg.Shard {
						continue
					}
					if ec.Only != "" && ef.Name != ec.Only {
						continue
					}
					if !cfg.Thorough() && (ci+fi+exprDone/cfg.NShards/24)%4 != 0 && ec.Only == "" {
						continue
					}
					mid := ef.Expr
					if ec.Mid != "" {
						mid = ec.Mid
					}
					block := append(append(append([]string{}, ec.Pre...), mid), ec.Post...)
					nl := append(append(append([]string{}, lines[:at]...), block...), lines[at:]...)
					c := c18Case{Src: strings.Join(nl, "\n") + "\n", Tmpl: true, Kind: "location", Fault: ef.Name + "@" + ec.Name, Line: at + 1 + len(ec.Pre)}
					rec.NonTrivial(c.Src)
					rec.Label("location."+c.Fault, c.Src)
					if f := c18JudgeLocation(rec, dir, c); f != nil {
						if !rec.IsKnown(f.Key) {
							return f
						}
						rec.Fail(f.Key, f.Detail, f.Case)
					}
				}
			}
		}
		return nil
	})
	// (a2) injections into corpus files and generated programs
	total := 12000 / cfg.NShards
	if cfg.Thorough() {
		total = 200000 / cfg.NShards
	}
	rapidLoop(t, rec, "inject", total, 250, dl, func(rt *rapid.T) *failure {
		var src string
		tmpl := true
		if rapid.IntRange(0, 2).Draw(rt, "fromcorpus") == 0 {
			f := files[rapid.IntRange(0, len(files)-1).Draw(rt, "file")]
			b, _ := os.ReadFile(f)
			src = string(b)
			if len(src) > 30000 {
				return nil // large files are covered intact in (a1); no truncation (it would cut constructs and multi-byte sequences)
			}
			tmpl = strings.HasSuffix(f, ".php")
		} else {
			g := pgen.DefaultCfg()
			g.MaxStmts = 8
			g.Exceptions = rapid.Bool().Draw(rt, "exc")
			p := pgen.Gen(rt, g)
			tmpl = rapid.Bool().Draw(rt, "tmpl")
			src = p.Print(pgen.PrintOpts{NoHeader: !tmpl})
		}
		cuts := tokenCuts(pool, src, tmpl)
		if len(cuts) < 2 {
			return nil
		}
		inj, feature := inject(rt, src, cuts, tmpl)
		c := c18Case{Src: inj, Tmpl: tmpl, Feature: feature, Kind: "span"}
		if feature != "none" {
			rec.NonTrivial(inj)
		}
		rec.Label("span.injected:"+feature, "")
		for _, f := range c18JudgeSpans(pool, rec, c) {
			if !rec.IsKnown(f.Key) {
				return f
			}
			rec.Fail(f.Key, f.Detail, f.Case)
		}
		return nil
	})
}
