package props

import (
	"encoding/json"
	"fmt"
	"strings"
	"testing"
	"time"

	"pgregory.net/rapid"
	"verifharness/sb"
)

// ---------------------------------------------------------------------------
// C19 — a generic instantiation enforces its own type arguments, whatever came before.
// ---------------------------------------------------------------------------

func init() {
	sb.Assume("C19",
		"per-instance model: an instance created with type arguments A accepts a value v in a member declared with the type parameter T iff v belongs to A(T), independently of every other instantiation in the history; accepted values must read back unchanged",
		"members judged: typed properties (asserted) and typed method parameters (same expectation; method parameter types are a listed C07 finding, kept under their own key here)",
		"type arguments over {int, string, array, a user class}; values over {int, string, array, instance of that class, instance of another class}",
	)
}

var gTypes = []string{"int", "string", "array", "GU"}
var gVals = []struct{ Name, Lit, Kind string }{
	{"int", "5", "int"}, {"string", `"s"`, "string"}, {"array", "[1, 2]", "array"}, {"GU", "new GU()", "GU"}, {"GV", "new GV()", "GV"},
}

type gOp struct {
	Op    string   `json:"op"`    // inst | write | hwrite (through a shared helper function) | call
	Class string   `json:"class"` // Box | Pair
	Args  []string `json:"args"`  // type arguments for inst
	Inst  int      `json:"inst"`  // target instance for write / call
	Mem   string   `json:"mem"`   // v | a | b
	Val   int      `json:"val"`   // index into gVals
}

// setv/seta/setb: one assignment statement shared by every instance it is applied to (a per-statement
// cache of the resolved declaration would make a later instantiation inherit an earlier one's types)
const gPrelude = "<?php\nclass GU {}\nclass GV {}\nclass Box<T> { public T $v; public function put(T $x) { return 1; } }\nclass Pair<A, B> { public A $a; public B $b; }\nfunction setv($o, $x) { $o->v = $x; }\nfunction seta($o, $x) { $o->a = $x; }\nfunction setb($o, $x) { $o->b = $x; }\n"

// settings (a first pseudo-operation {Op: "setting"}): the same declarations and history inside a namespace, or
// declared in one namespace and imported into another with use (GV under an alias); the type arguments written
// in the source then need resolving against the namespace / the use list
const gClasses = "class GU {}\nclass GV {}\nclass Box<T> { public T $v; public function put(T $x) { return 1; } }\nclass Pair<A, B> { public A $a; public B $b; }\n"
const gHelpers = "function setv($o, $x) { $o->v = $x; }\nfunction seta($o, $x) { $o->a = $x; }\nfunction setb($o, $x) { $o->b = $x; }\n"

var gSettings = map[string]string{
	"namespace": "<?php\nnamespace shop;\n" + gClasses + gHelpers,
	"use":       "<?php\nnamespace lib;\n" + gClasses + "namespace app;\nuse lib\\GU;\nuse lib\\GV;\nuse lib\\Box;\nuse lib\\Pair;\n" + gHelpers,
}

func gScript(ops []gOp) string {
	var sb strings.Builder
	if len(ops) > 0 && ops[0].Op == "setting" {
		sb.WriteString(strings.ReplaceAll(gSettings[ops[0].Class], "Throwable", "\\Throwable"))
	} else {
		sb.WriteString(gPrelude)
	}
	catch := "Throwable"
	if len(ops) > 0 && ops[0].Op == "setting" {
		catch = "\\Throwable"
	}
	ni := 0
	for k, op := range ops {
		switch op.Op {
		case "inst":
			fmt.Fprintf(&sb, "$o%d = new %s<%s>();\n", ni, op.Class, strings.Join(op.Args, ", "))
			ni++
		case "write":
			fmt.Fprintf(&sb, "try { $o%d->%s = %s; __obs(\"w%d\", \"ok\"); __obs(\"r%d\", $o%d->%s); } catch (%s $e) { __obs(\"w%d\", \"rej\"); __obs(\"m%d\", $e->getMessage()); }\n", op.Inst, op.Mem, gVals[op.Val].Lit, k, k, op.Inst, op.Mem, catch, k, k)
		case "hwrite":
			fmt.Fprintf(&sb, "try { set%s($o%d, %s); __obs(\"w%d\", \"ok\"); __obs(\"r%d\", $o%d->%s); } catch (%s $e) { __obs(\"w%d\", \"rej\"); __obs(\"m%d\", $e->getMessage()); }\n", op.Mem, op.Inst, gVals[op.Val].Lit, k, k, op.Inst, op.Mem, catch, k, k)
		case "call":
			fmt.Fprintf(&sb, "try { $o%d->put(%s); __obs(\"w%d\", \"ok\"); } catch (%s $e) { __obs(\"w%d\", \"rej\"); __obs(\"m%d\", $e->getMessage()); }\n", op.Inst, gVals[op.Val].Lit, k, catch, k, k)
		}
	}
	return sb.String()
}

type c19Case struct {
	Ops []gOp  `json:"history"`
	Src string `json:"src"`
}

func c19Judge(pool *sb.Pool, rec *sb.Rec, ops []gOp) []*failure {
	src := gScript(ops)
	rep := pool.Exec(&sb.Req{Kind: "script", Src: src, Tmpl: true, Run: true})
	rec.Eval()
	cs := c19Case{Ops: ops, Src: src}
	if rep.Outcome == sb.Infra {
		rec.InfraProblem("%s", rep.Msg)
		return nil
	}
	if rep.Outcome != sb.OK {
		return []*failure{{Key: "cell:script:" + rep.Outcome, Detail: fmt.Sprintf("%s at %s: %s\n%s", rep.Outcome, rep.Site, clip(rep.Msg, 200), src), Case: cs}}
	}
	o := parseObs(rep.Obs)
	type inst struct {
		class string
		args  []string
	}
	var insts []inst
	firstArgs := map[string]string{}
	var out []*failure
	seen := map[string]bool{}
	for k, op := range ops {
		if op.Op == "setting" {
			continue
		}
		if op.Op == "inst" {
			insts = append(insts, inst{op.Class, op.Args})
			if _, ok := firstArgs[op.Class]; !ok {
				firstArgs[op.Class] = strings.Join(op.Args, ",")
			}
			continue
		}
		in := insts[op.Inst]
		declared := in.args[0]
		if op.Mem == "b" {
			declared = in.args[1]
		}
		v := gVals[op.Val]
		want := "rej"
		if v.Kind == declared {
			want = "ok"
		}
		got := strings.Trim(o[fmt.Sprintf("w%d", k)], "s:\"")
		hist := "same-as-first-instantiation"
		if firstArgs[in.class] != strings.Join(in.args, ",") {
			hist = "after-different-instantiation"
		}
		member := "prop"
		if op.Op == "call" {
			member = "method-param"
		}
		if op.Op == "hwrite" {
			member = "prop-via-helper"
		}
		if strings.Contains(o[fmt.Sprintf("m%d", k)], sb.RecoveredPanicMarker) {
			key := fmt.Sprintf("cell:%s:crash", member)
			if !seen[key] {
				seen[key] = true
				out = append(out, &failure{Key: key, Detail: "Go panic in a typed member write: " + clip(firstLine(o[fmt.Sprintf("m%d", k)]), 160) + "\n" + src, Case: cs})
			}
			continue
		}
		if got != want {
			cl := "accepted-foreign"
			if want == "ok" {
				cl = "rejected-own"
			}
			_ = hist
			key := fmt.Sprintf("cell:%s:%s", member, cl)
			if !seen[key] {
				seen[key] = true
				out = append(out, &failure{Key: key, Detail: fmt.Sprintf("step %d: %s<%s> instance %d, member %s declared %s, value %s: want %s got %s (%s)\n%s", k, in.class, strings.Join(in.args, ","), op.Inst, op.Mem, declared, v.Name, want, got, clip(o[fmt.Sprintf("m%d", k)], 100), src), Case: cs})
			}
		}
	}
	return out
}

func c19NonTrivial(ops []gOp) bool {
	seen := map[string]map[string]bool{}
	for _, op := range ops {
		if op.Op == "inst" {
			if seen[op.Class] == nil {
				seen[op.Class] = map[string]bool{}
			}
			seen[op.Class][strings.Join(op.Args, ",")] = true
		} else if len(seen["Box"])+len(seen["Pair"]) >= 2 {
			for _, s := range seen {
				if len(s) >= 2 {
					return true
				}
			}
		}
	}
	return false
}

func TestC19(t *testing.T) {
	cfg := sb.LoadConfig("C19")
	rec := sb.NewRec(cfg)
	defer rec.Flush()
	rec.R.Rule = "histories of instantiations of generic classes with 1-2 type parameters (Box<T>, Pair<A,B>) over {int, string, array, user class}, interleaved with typed property writes and typed method calls on any live instance with values of five kinds; complete enumeration of all histories up to length 3 (thorough: 4) over Box, rapid histories with up to 6 instantiations including Pair; the same enumeration inside a namespace and with the classes imported by use; fresh new-sites evaluated for the first time by 8 goroutines at once (600 sites per shard, thorough 20000); each write's acceptance and read-back is compared with the instance's own type arguments. Non-trivial = at least two instantiations of the same generic class with different arguments precede a judged write; distinct by history."
	pool := &sb.Pool{}
	defer pool.Close()
	dl := time.Now().Add(budget(cfg, 50, 600))
	if cfg.Replay != "" {
		rf, err := sb.LoadReplay(cfg.Replay)
		if err != nil {
			rec.InfraProblem("replay: %v", err)
			return
		}
		var c c19Case
		json.Unmarshal(rf.Case, &c)
		rec.NonTrivial(c.Src)
		rec.NonTrivial(c.Src, "r")
		for _, f := range c19Judge(pool, rec, c.Ops) {
			if f.Key == rf.Key {
				rec.Fail(f.Key, f.Detail, f.Case)
			}
		}
		return
	}
	c19Concurrent(cfg, rec, pool)
	maxLen := 3
	if cfg.Thorough() {
		maxLen = 4
	}
	idx := 0
	complete := true
	var gen func(prefix []gOp, ninst int)
	gen = func(prefix []gOp, ninst int) {
		if len(prefix) == maxLen || (len(prefix) > 0 && prefix[len(prefix)-1].Op != "inst" && prefix[len(prefix)-1].Op != "setting" && len(prefix) >= 2) {
			// judge complete histories, and every history that ends in a write
			if len(prefix) > 0 && prefix[len(prefix)-1].Op != "inst" && prefix[len(prefix)-1].Op != "setting" {
				idx++
				if cfg.Mine(idx) {
					if time.Now().After(dl) {
						complete = false
					} else {
						id, _ := json.Marshal(prefix)
						if c19NonTrivial(prefix) {
							rec.NonTrivial(string(id))
						}
						rec.Label(fmt.Sprintf("enum.len%d", len(prefix)), gScript(prefix))
						for _, f := range c19Judge(pool, rec, append([]gOp{}, prefix...)) {
							rec.Fail(f.Key, f.Detail, f.Case)
						}
					}
				}
			}
		}
		if len(prefix) == maxLen {
			return
		}
		for _, a := range gTypes {
			gen(append(prefix, gOp{Op: "inst", Class: "Box", Args: []string{a}}), ninst+1)
		}
		for i := 0; i < ninst; i++ {
			for v := range gVals {
				gen(append(prefix, gOp{Op: "write", Inst: i, Mem: "v", Val: v}), ninst)
				gen(append(prefix, gOp{Op: "hwrite", Inst: i, Mem: "v", Val: v}), ninst)
			}
		}
	}
	gen(nil, 0)
	for _, st := range []string{"namespace", "use"} {
		maxLen++ // the setting is not a step of the history
		gen([]gOp{{Op: "setting", Class: st}}, 0)
		maxLen--
	}
	rec.R.Exhaustive = complete
	rec.Flush()
	total := 6000 / cfg.NShards
	if cfg.Thorough() {
		total = 400000 / cfg.NShards
	}
	rapidLoop(t, rec, "hist", total, 100, dl, func(rt *rapid.T) *failure {
		var ops []gOp
		if st := rapid.SampledFrom([]string{"", "", "namespace", "use"}).Draw(rt, "setting"); st != "" {
			ops = append(ops, gOp{Op: "setting", Class: st})
		}
		type live struct{ class string }
		var insts []live
		n := rapid.IntRange(2, 14).Draw(rt, "len")
		ninst := 0
		for i := 0; i < n; i++ {
			if len(insts) == 0 || (ninst < 6 && rapid.IntRange(0, 2).Draw(rt, "isinst") == 0) {
				if rapid.IntRange(0, 2).Draw(rt, "pair") == 0 {
					ops = append(ops, gOp{Op: "inst", Class: "Pair", Args: []string{rapid.SampledFrom(gTypes).Draw(rt, "a"), rapid.SampledFrom(gTypes).Draw(rt, "b")}})
					insts = append(insts, live{"Pair"})
				} else {
					ops = append(ops, gOp{Op: "inst", Class: "Box", Args: []string{rapid.SampledFrom(gTypes).Draw(rt, "t")}})
					insts = append(insts, live{"Box"})
				}
				ninst++
				continue
			}
			k := rapid.IntRange(0, len(insts)-1).Draw(rt, "target")
			op := gOp{Op: "write", Inst: k, Val: rapid.IntRange(0, len(gVals)-1).Draw(rt, "val")}
			if insts[k].class == "Pair" {
				op.Mem = rapid.SampledFrom([]string{"a", "b"}).Draw(rt, "mem")
			} else {
				op.Mem = "v"
				if rapid.IntRange(0, 4).Draw(rt, "call") == 0 {
					op.Op = "call"
				}
			}
			if op.Op == "write" && rapid.IntRange(0, 2).Draw(rt, "helper") == 0 {
				op.Op = "hwrite"
			}
			ops = append(ops, op)
		}
		id, _ := json.Marshal(ops)
		if c19NonTrivial(ops) {
			rec.NonTrivial(string(id))
			rec.Label("hist.nontrivial", "")
		}
		for _, f := range c19Judge(pool, rec, ops) {
			if !rec.IsKnown(f.Key) {
				return f
			}
			rec.Fail(f.Key, f.Detail, f.Case)
		}
		return nil
	})
}
