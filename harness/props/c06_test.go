package props

import (
	"encoding/json"
	"fmt"
	"regexp"
	"sort"
	"strconv"
	"strings"
	"testing"
	"time"

	"pgregory.net/rapid"
	"verifharness/sb"
)

// ---------------------------------------------------------------------------
// C06 — arrays are values: writes through a copy never show through the original.
// ---------------------------------------------------------------------------

func init() {
	sb.Assume("C06",
		"oracle = before/after deep snapshots inside the same run (typed observation sink): after mutating one name, the other name's snapshot must be byte-identical to its snapshot before, and the mutated name must show exactly the effect computed by a small Go model of the mutation",
		"snapshots are compared modulo integer keys (sequence of values, string keys kept): origami stores lists positionally and the statement does not fix the integer keys left behind by unset",
		"a mutation is only applied where it is well defined for the shape (nested store needs an array element, ++ an int element, sort a list of ints, pop a non-empty array)",
		"positive controls: with an explicit & reference, and with an object handle copy, the write must show through (guards against an over-eager repair)",
		"findings are keyed cell:<mutation>:<leak|effect|crash|noshare>, independent of shape, route and side (each listed defect shows on every route)",
	)
}

// aVal is the model of a script value: int64, string, or *aArr.
type aArr struct {
	Keys []string // "" = positional
	Vals []any
}

func (a *aArr) clone() *aArr {
	c := &aArr{Keys: append([]string{}, a.Keys...)}
	for _, v := range a.Vals {
		if n, ok := v.(*aArr); ok {
			c.Vals = append(c.Vals, n.clone())
		} else {
			c.Vals = append(c.Vals, v)
		}
	}
	return c
}

func aLit(v any) string {
	switch x := v.(type) {
	case int64:
		return strconv.FormatInt(x, 10)
	case string:
		return strconv.Quote(x)
	case *aArr:
		var parts []string
		for i, e := range x.Vals {
			if x.Keys[i] != "" {
				parts = append(parts, strconv.Quote(x.Keys[i])+" => "+aLit(e))
			} else {
				parts = append(parts, aLit(e))
			}
		}
		return "[" + strings.Join(parts, ", ") + "]"
	}
	return "null"
}

// aNorm renders the model in the normalised snapshot form.
func aNorm(v any) string {
	switch x := v.(type) {
	case int64:
		return "i:" + strconv.FormatInt(x, 10)
	case string:
		return "s:" + strconv.Quote(x)
	case *aArr:
		var parts []string
		for i, e := range x.Vals {
			k := "#"
			if x.Keys[i] != "" {
				k = strconv.Quote(x.Keys[i])
			}
			parts = append(parts, k+"=>"+aNorm(e))
		}
		return "a[" + strings.Join(parts, ",") + "]"
	}
	return "n"
}

// normSnap rewrites a worker snapshot into the normalised form: integer keys
// (positional or spelled as numeric strings after an unset) become #, and the
// keyed-literal representation O{"k"=>v} is written like a keyed array.
func normSnap(s string) string {
	var out strings.Builder
	var stack []byte
	i := 0
	for i < len(s) {
		c := s[i]
		atKey := i == 0 || s[i-1] == '[' || s[i-1] == ',' || s[i-1] == '{'
		if c == '"' {
			j := i + 1
			for j < len(s) {
				if s[j] == '\\' {
					j += 2
					continue
				}
				if s[j] == '"' {
					break
				}
				j++
			}
			end := min(j+1, len(s))
			lit := s[i:end]
			if atKey && end+1 < len(s) && s[end] == '=' && s[end+1] == '>' {
				if _, err := strconv.Atoi(strings.Trim(lit, "\"")); err == nil {
					lit = "#"
				}
			}
			out.WriteString(lit)
			i = end
			continue
		}
		if c >= '0' && c <= '9' && atKey {
			j := i
			for j < len(s) && s[j] >= '0' && s[j] <= '9' {
				j++
			}
			if j+1 < len(s) && s[j] == '=' && s[j+1] == '>' {
				out.WriteString("#")
				i = j
				continue
			}
		}
		switch {
		case c == 'O' && i+1 < len(s) && s[i+1] == '{':
			out.WriteString("a[")
			stack = append(stack, 'O')
			i += 2
			continue
		case c == '{':
			stack = append(stack, '{')
		case c == '}':
			if n := len(stack); n > 0 {
				top := stack[n-1]
				stack = stack[:n-1]
				if top == 'O' {
					out.WriteByte(']')
					i++
					continue
				}
			}
		}
		out.WriteByte(c)
		i++
	}
	return out.String()
}

func mkArr(items ...any) *aArr {
	a := &aArr{}
	for i := 0; i < len(items); i++ {
		if k, ok := items[i].(aKey); ok {
			a.Keys = append(a.Keys, string(k))
			a.Vals = append(a.Vals, items[i+1])
			i++
			continue
		}
		a.Keys = append(a.Keys, "")
		a.Vals = append(a.Vals, items[i])
	}
	return a
}

type aKey string

func c06Shapes() map[string]*aArr {
	return map[string]*aArr{
		"empty":   mkArr(),
		"list":    mkArr(int64(1), int64(2), int64(3)),
		"keyed":   mkArr(aKey("k"), int64(1), aKey("m"), int64(2)),
		"nested2": mkArr(mkArr(int64(1), int64(2)), mkArr(int64(3))),
		"nested3": mkArr(mkArr(mkArr(int64(1)))),
		"mixed":   mkArr(int64(1), aKey("k"), mkArr(int64(2), int64(3))),
		"strs":    mkArr("b", "a", "c"),
	}
}

// mutation: source text on lvalue L and model effect; ok=false when not applicable.
type c06Mut struct {
	Name  string
	Text  func(L string, a *aArr) string
	Apply func(a *aArr) bool
}

// c06LeakOnly: two-step mutations whose exact effect on the mutated side is not modelled (sparse
// integer keys); only "the other name still holds what it held" is asserted, on non-sharing routes
var c06LeakOnly = map[string]bool{"unset-then-int-store": true, "unset-then-append": true, "sparse-store-then-overwrite": true, "pop-then-int-store": true, "last-int-key-store": true}

// plainList: a positional list with at least n elements
func plainList(a *aArr, n int) bool { return !keyedShape(a) && len(a.Vals) >= n }

// keyedShape: a literal with string keys is an object-like value in origami
// (docs/php-differences.md #3); positional mutations on it are not asserted.
func keyedShape(a *aArr) bool {
	for _, k := range a.Keys {
		if k != "" {
			return true
		}
	}
	return false
}

func firstPositional(a *aArr) int {
	for i, k := range a.Keys {
		if k == "" {
			return i
		}
	}
	return -1
}

var c06Muts = []c06Mut{
	{"unset-then-int-store", func(L string, a *aArr) string { return "unset(" + L + "[0]); " + L + "[1] = 77;" }, func(a *aArr) bool { return plainList(a, 2) }},
	{"unset-then-append", func(L string, a *aArr) string { return "unset(" + L + "[0]); " + L + "[] = 77;" }, func(a *aArr) bool { return plainList(a, 2) }},
	{"sparse-store-then-overwrite", func(L string, a *aArr) string { return L + "[10] = 1; " + L + "[10] = 2; " + L + "[0] = 3;" }, func(a *aArr) bool { return plainList(a, 1) }},
	{"pop-then-int-store", func(L string, a *aArr) string { return "array_pop(" + L + "); " + L + "[0] = 77;" }, func(a *aArr) bool { return plainList(a, 2) }},
	{"last-int-key-store", func(L string, a *aArr) string { return fmt.Sprintf("%s[%d] = 77;", L, len(a.Vals)-1) }, func(a *aArr) bool { return plainList(a, 2) }},
	{"int-key-store", func(L string, a *aArr) string { return L + "[0] = 99;" }, func(a *aArr) bool {
		if keyedShape(a) {
			return false
		}
		if i := firstPositional(a); i == 0 {
			a.Vals[0] = int64(99)
			return true
		}
		return false // storing key 0 into an array without a positional first element: representation not fixed
	}},
	{"string-key-store", func(L string, a *aArr) string { return L + `["k"] = 99;` }, func(a *aArr) bool {
		for i, k := range a.Keys {
			if k == "k" {
				a.Vals[i] = int64(99)
				return true
			}
		}
		a.Keys = append(a.Keys, "k")
		a.Vals = append(a.Vals, int64(99))
		return true
	}},
	{"append", func(L string, a *aArr) string { return L + "[] = 99;" }, func(a *aArr) bool {
		if keyedShape(a) {
			return false
		}
		a.Keys = append(a.Keys, "")
		a.Vals = append(a.Vals, int64(99))
		return true
	}},
	{"nested-store", func(L string, a *aArr) string { return L + "[0][0] = 99;" }, func(a *aArr) bool {
		if keyedShape(a) {
			return false
		}
		if len(a.Vals) > 0 && a.Keys[0] == "" {
			if n, ok := a.Vals[0].(*aArr); ok && len(n.Vals) > 0 && n.Keys[0] == "" {
				n.Vals[0] = int64(99)
				return true
			}
		}
		return false
	}},
	{"nested-append", func(L string, a *aArr) string { return L + "[0][] = 99;" }, func(a *aArr) bool {
		if keyedShape(a) {
			return false
		}
		if len(a.Vals) > 0 && a.Keys[0] == "" {
			if n, ok := a.Vals[0].(*aArr); ok {
				n.Keys = append(n.Keys, "")
				n.Vals = append(n.Vals, int64(99))
				return true
			}
		}
		return false
	}},
	{"unset", func(L string, a *aArr) string {
		if len(a.Keys) > 0 && a.Keys[0] != "" {
			return "unset(" + L + `["` + a.Keys[0] + `"]);`
		}
		return "unset(" + L + "[0]);"
	}, func(a *aArr) bool {
		if len(a.Vals) == 0 {
			return false
		}
		a.Keys = a.Keys[1:]
		a.Vals = a.Vals[1:]
		return true
	}},
	{"sort", func(L string, a *aArr) string { return "sort(" + L + ");" }, func(a *aArr) bool {
		if len(a.Vals) < 2 {
			return false
		}
		allInt, allStr := true, true
		for i, v := range a.Vals {
			if a.Keys[i] != "" {
				return false
			}
			if _, ok := v.(int64); !ok {
				allInt = false
			}
			if _, ok := v.(string); !ok {
				allStr = false
			}
		}
		if allInt {
			sort.Slice(a.Vals, func(i, j int) bool { return a.Vals[i].(int64) < a.Vals[j].(int64) })
			return true
		}
		if allStr {
			sort.Slice(a.Vals, func(i, j int) bool { return a.Vals[i].(string) < a.Vals[j].(string) })
			return true
		}
		return false
	}},
	{"array_push", func(L string, a *aArr) string { return "array_push(" + L + ", 99);" }, func(a *aArr) bool {
		if keyedShape(a) {
			return false
		}
		a.Keys = append(a.Keys, "")
		a.Vals = append(a.Vals, int64(99))
		return true
	}},
	{"array_pop", func(L string, a *aArr) string { return "array_pop(" + L + ");" }, func(a *aArr) bool {
		if keyedShape(a) {
			return false
		}
		if len(a.Vals) == 0 {
			return false
		}
		a.Keys = a.Keys[:len(a.Keys)-1]
		a.Vals = a.Vals[:len(a.Vals)-1]
		return true
	}},
	{"method-push", func(L string, a *aArr) string { return L + "->push(99);" }, func(a *aArr) bool {
		for _, k := range a.Keys {
			if k != "" {
				return false
			}
		}
		a.Keys = append(a.Keys, "")
		a.Vals = append(a.Vals, int64(99))
		return true
	}},
	{"nested-key-store", func(L string, a *aArr) string { return L + `["k"][0] = 99;` }, func(a *aArr) bool {
		for i, k := range a.Keys {
			if k == "k" {
				if n, ok := a.Vals[i].(*aArr); ok && len(n.Vals) > 0 && n.Keys[0] == "" {
					n.Vals[0] = int64(99)
					return true
				}
			}
		}
		return false
	}},
	{"element-incr", func(L string, a *aArr) string { return L + "[0]++;" }, func(a *aArr) bool {
		if keyedShape(a) {
			return false
		}
		if len(a.Vals) > 0 && a.Keys[0] == "" {
			if n, ok := a.Vals[0].(int64); ok {
				a.Vals[0] = n + 1
				return true
			}
		}
		return false
	}},
	{"element-compound", func(L string, a *aArr) string { return L + "[0] += 5;" }, func(a *aArr) bool {
		if keyedShape(a) {
			return false
		}
		if len(a.Vals) > 0 && a.Keys[0] == "" {
			if n, ok := a.Vals[0].(int64); ok {
				a.Vals[0] = n + 5
				return true
			}
		}
		return false
	}},
}

// route: how the second name comes to hold the array.
type c06Route struct {
	Name    string
	Setup   func(lit string) string // statements establishing both names
	Orig    string                  // lvalue / observable expression of the first name
	Copy    string                  // of the second name
	Shared  bool                    // positive control: writes must show through
	Sides   []string                // which side may be mutated ("copy", "orig")
	PostObs string                  // extra statements before the final observation (e.g. re-read)
}

var c06Prelude = "<?php\nclass Box { public $p; function get() { return $this->p; } static $sp; static function sget() { return self::$sp; } }\nfunction ident($x) { return $x; }\nfunction mkGapped() { $a = [40, 10, 30, 20]; unset($a[1]); return $a; }\nfunction mkStrKeyed() { $a = [3, 1, 2]; $a[\"k\"] = 0; return $a; }\nfunction mkPopped() { $a = [3, 1, 2, 9]; array_pop($a); return $a; }\nfunction firstOf($o) { return $o->p; }\n$GLOBALS['gstore'] = null;\nfunction gget() { global $gstore; return $gstore; }\n"

var c06Routes = []c06Route{
	{Name: "assign", Setup: func(l string) string { return "$orig = " + l + ";\n$copy = $orig;\n" }, Orig: "$orig", Copy: "$copy", Sides: []string{"copy", "orig"}},
	{Name: "return", Setup: func(l string) string { return "$orig = " + l + ";\n$copy = ident($orig);\n" }, Orig: "$orig", Copy: "$copy", Sides: []string{"copy", "orig"}},
	{Name: "prop-store", Setup: func(l string) string { return "$orig = " + l + ";\n$o = new Box();\n$o->p = $orig;\n" }, Orig: "$orig", Copy: "$o->p", Sides: []string{"copy", "orig"}},
	{Name: "prop-read", Setup: func(l string) string { return "$o = new Box();\n$o->p = " + l + ";\n$copy = $o->p;\n" }, Orig: "$o->p", Copy: "$copy", Sides: []string{"copy", "orig"}},
	{Name: "outer-store", Setup: func(l string) string { return "$orig = " + l + ";\n$outer = [\"in\" => $orig];\n" }, Orig: "$orig", Copy: "$outer[\"in\"]", Sides: []string{"copy", "orig"}},
	{Name: "outer-read", Setup: func(l string) string { return "$outer = [\"in\" => " + l + "];\n$copy = $outer[\"in\"];\n" }, Orig: "$outer[\"in\"]", Copy: "$copy", Sides: []string{"copy", "orig"}},
	{Name: "clone", Setup: func(l string) string { return "$o = new Box();\n$o->p = " + l + ";\n$c = clone $o;\n" }, Orig: "$o->p", Copy: "$c->p", Sides: []string{"copy", "orig"}},
	// a call that returns stored state itself (not a local): the caller's variable is still a copy
	{Name: "getter-return", Setup: func(l string) string { return "$o = new Box();\n$o->p = " + l + ";\n$copy = $o->get();\n" }, Orig: "$o->p", Copy: "$copy", Sides: []string{"copy", "orig"}},
	{Name: "function-returns-property", Setup: func(l string) string { return "$o = new Box();\n$o->p = " + l + ";\n$copy = firstOf($o);\n" }, Orig: "$o->p", Copy: "$copy", Sides: []string{"copy", "orig"}},
	{Name: "static-getter-return", Setup: func(l string) string { return "Box::$sp = " + l + ";\n$copy = Box::sget();\n" }, Orig: "Box::$sp", Copy: "$copy", Sides: []string{"copy"}},
	{Name: "closure-return", Setup: func(l string) string {
		return "$o = new Box();\n$o->p = " + l + ";\n$f = function() use ($o) { return $o->p; };\n$copy = $f();\n"
	}, Orig: "$o->p", Copy: "$copy", Sides: []string{"copy", "orig"}},
	{Name: "reference", Setup: func(l string) string { return "$orig = " + l + ";\n$copy = &$orig;\n" }, Orig: "$orig", Copy: "$copy", Shared: true, Sides: []string{"copy", "orig"}},
	{Name: "handle", Setup: func(l string) string { return "$o = new Box();\n$o->p = " + l + ";\n$h = $o;\n" }, Orig: "$o->p", Copy: "$h->p", Shared: true, Sides: []string{"copy", "orig"}},
}

type c06Case struct {
	Route, Shape, Mut, Side string
	Src                     string `json:"src"`
	Before                  string `json:"before"` // normalised snapshot both names must hold before the mutation
	After                   string `json:"after"`  // normalised snapshot of the mutated side afterwards (model)
	Shared                  bool   `json:"shared"`
	LeakOnly                bool   `json:"leak_only,omitempty"`
	Raw                     bool   `json:"raw,omitempty"` // built shape: "before" is what the run itself observed, snapshots compared unnormalised (integer keys count)
}

func mkC06Case(route, shapeName, side string, sh *aArr, m c06Mut, shared bool, src string) c06Case {
	after := sh.clone()
	m.Apply(after)
	return c06Case{Route: route, Shape: shapeName, Mut: m.Name, Side: side, Src: src, Before: aNorm(sh), After: aNorm(after), Shared: shared, LeakOnly: c06LeakOnly[m.Name]}
}

func c06Script(r c06Route, shape *aArr, m c06Mut, side string) string {
	L := r.Copy
	if side == "orig" {
		L = r.Orig
	}
	return c06ScriptRaw(r, aLit(shape), m.Text(L, shape))
}

func c06ScriptRaw(r c06Route, lit, mutText string) string {
	var sb strings.Builder
	sb.WriteString(c06Prelude)
	sb.WriteString(r.Setup(lit))
	fmt.Fprintf(&sb, "__obs(\"orig0\", %s);\n__obs(\"copy0\", %s);\n", r.Orig, r.Copy)
	fmt.Fprintf(&sb, "try { %s } catch (Throwable $e) { __obs(\"!mut\", $e->getMessage()); }\n", mutText)
	fmt.Fprintf(&sb, "__obs(\"orig1\", %s);\n__obs(\"copy1\", %s);\n", r.Orig, r.Copy)
	return sb.String()
}

// by-value parameter route has its own script: the callee mutates its parameter.
func c06ParamScript(shape *aArr, m c06Mut) string {
	return c06ParamScriptRaw(aLit(shape), m.Text("$arr", shape))
}

func c06ParamScriptRaw(lit, mutText string) string {
	var sb strings.Builder
	sb.WriteString(c06Prelude)
	fmt.Fprintf(&sb, "function touch($arr) {\n    __obs(\"copy0\", $arr);\n    try { %s } catch (Throwable $e) { __obs(\"!mut\", $e->getMessage()); }\n    __obs(\"copy1\", $arr);\n    return 0;\n}\n", mutText)
	fmt.Fprintf(&sb, "$orig = %s;\n__obs(\"orig0\", $orig);\ntouch($orig);\n__obs(\"orig1\", $orig);\n", lit)
	return sb.String()
}

// built arrays: produced by statements (unset, keyed append, explicit integer keys), so that their slots carry
// explicit key names; and plain lists for the library functions that reorder
var c06Built = [][2]string{
	{"gapped", "mkGapped()"}, {"sparse", "[0 => 5, 2 => 3, 7 => 9, 4 => 1]"}, {"strkey-appended", "mkStrKeyed()"},
	{"list", "[3, 1, 2]"}, {"strs", "[\"b\", \"a\", \"c\"]"}, {"nested", "[[2, 1], [4, 3]]"}, {"popped", "mkPopped()"},
}

// library functions that take the array by reference: judged for independence only (the other name keeps
// keys, order and values)
var c06LibMuts = []struct {
	Name string
	Text func(L string) string
}{
	{"sort", func(L string) string { return "sort(" + L + ");" }},
	{"rsort", func(L string) string { return "rsort(" + L + ");" }},
	{"usort", func(L string) string { return "usort(" + L + ", function($x, $y) { return $y <=> $x; });" }},
	{"ksort", func(L string) string { return "ksort(" + L + ");" }},
	{"krsort", func(L string) string { return "krsort(" + L + ");" }},
	{"array_shift", func(L string) string { return "array_shift(" + L + ");" }},
	{"array_unshift", func(L string) string { return "array_unshift(" + L + ", 77);" }},
	{"array_splice", func(L string) string { return "array_splice(" + L + ", 1, 1, [77, 78]);" }},
	{"array_push", func(L string) string { return "array_push(" + L + ", 77, 78);" }},
	{"array_pop", func(L string) string { return "array_pop(" + L + ");" }},
	{"array_walk-by-ref", func(L string) string { return "array_walk(" + L + ", function(&$v, $k) { $v = 77; });" }},
	{"foreach-by-ref", func(L string) string { return "foreach (" + L + " as &$v) { $v = 77; } unset($v);" }},
	{"unset-first", func(L string) string { return "unset(" + L + "[0]);" }},
	{"sort-then-append", func(L string) string { return "sort(" + L + "); " + L + "[] = 77;" }},
}

// static-local return route: mutate the returned array, the next call must return the pristine one.
func c06StaticScript(shape *aArr, m c06Mut) string {
	var sb strings.Builder
	sb.WriteString(c06Prelude)
	fmt.Fprintf(&sb, "function st() { static $s = %s; return $s; }\n", aLit(shape))
	sb.WriteString("$copy = st();\n__obs(\"orig0\", st());\n__obs(\"copy0\", $copy);\n")
	fmt.Fprintf(&sb, "try { %s } catch (Throwable $e) { __obs(\"!mut\", $e->getMessage()); }\n", m.Text("$copy", shape))
	sb.WriteString("__obs(\"orig1\", st());\n__obs(\"copy1\", $copy);\n")
	return sb.String()
}

// c06Judge evaluates one cell. routeName / shared / side describe the case; src is the script.
func c06Judge(pool *sb.Pool, rec *sb.Rec, c c06Case) []*failure {
	shared := c.Shared
	rep := pool.Exec(&sb.Req{Kind: "script", Src: c.Src, Tmpl: true, Run: true})
	rec.Eval()
	if rep.Outcome == sb.Infra {
		rec.InfraProblem("%s", rep.Msg)
		return nil
	}
	// keyed by mutation and clause only: every listed defect shows on all routes and both sides
	cell := fmt.Sprintf("cell:%s", c.Mut)
	var out []*failure
	mk := func(clause, d string) {
		out = append(out, &failure{Key: cell + ":" + clause, Detail: fmt.Sprintf("route %s, mutation %s on the %s, shape %s: %s", c.Route, c.Mut, c.Side, c.Shape, d), Case: c})
	}
	if rep.Outcome != sb.OK {
		mk("crash", fmt.Sprintf("outcome %s %s %s", rep.Outcome, rep.Site, clip(rep.Msg, 200)))
		return out
	}
	o := parseObs(rep.Obs)
	if e, bad := o["!mut"]; bad {
		if strings.Contains(e, sb.RecoveredPanicMarker) {
			mk("crash", "Go panic in the mutation: "+clip(firstLine(e), 160))
		} else {
			mk("effect", "the mutation raised: "+clip(e, 160))
		}
		return out
	}
	before, afterS := c.Before, c.After
	o0, c0, o1, c1 := normSnap(o["orig0"]), normSnap(o["copy0"]), normSnap(o["orig1"]), normSnap(o["copy1"])
	if c.Raw {
		// integer keys keep their number; only the spelling "2"=> of a named integer slot is unified with 2=>
		// (scripts cannot tell them apart)
		o0, c0, o1, c1 = rawKeyRe.ReplaceAllString(o["orig0"], "$1=>"), rawKeyRe.ReplaceAllString(o["copy0"], "$1=>"), rawKeyRe.ReplaceAllString(o["orig1"], "$1=>"), rawKeyRe.ReplaceAllString(o["copy1"], "$1=>")
		before = o0
	}
	if o0 != before || c0 != before {
		mk("setup", fmt.Sprintf("before the mutation the two names do not both hold the array: orig=%s copy=%s want %s", o0, c0, before))
		return out
	}
	mut, other, otherName := c1, o1, "original"
	if c.Side == "orig" {
		mut, other, otherName = o1, c1, "copy"
	}
	if c.LeakOnly {
		if !shared && other != before {
			mk("leak", fmt.Sprintf("the write shows through the %s: %s (was %s)", otherName, other, before))
		}
		return out
	}
	if mut != afterS {
		mk("effect", fmt.Sprintf("mutated side is %s, model says %s", mut, afterS))
		if shared {
			return out // the positive control cannot be judged when the write itself is wrong
		}
	}
	if shared {
		if other != afterS {
			mk("noshare", fmt.Sprintf("explicit sharing (reference / object handle): the %s is %s, want the write to show through: %s", otherName, other, afterS))
		}
	} else if other != before {
		mk("leak", fmt.Sprintf("the write shows through the %s: %s (was %s)", otherName, other, before))
	}
	return out
}

var rawKeyRe = regexp.MustCompile(`"(\d+)"=>`)

func TestC06(t *testing.T) {
	cfg := sb.LoadConfig("C06")
	rec := sb.NewRec(cfg)
	defer rec.Flush()
	rec.R.Rule = "complete enumeration of (array shape: empty / list / string-keyed / nested to depth 3 / mixed / strings) x (aliasing route: assign, by-value parameter, return, return of a static local, store into / read from a property, store into / read from an outer array, clone, getter / function / static getter / closure returning stored state; positive controls: & reference, object handle) x (12 single mutations with a modelled effect + 5 two-step mutations over sparse / unset / popped integer keys judged for independence only) x (mutated side); plus (7 arrays built by statements: gapped by unset, explicit sparse integer keys, string key appended, popped, lists) x (14 library calls taking the array by reference: sort family, shift / unshift / splice / push / pop, by-reference walk and foreach) x (route) x (side), judged for independence only on unnormalised snapshots; rapid adds random shapes and sequences of 2-3 mutations. Non-trivial = the mutation changes the mutated side in the model; distinct by (route, shape, mutation, side)."
	pool := &sb.Pool{}
	defer pool.Close()
	dl := time.Now().Add(budget(cfg, 50, 600))
	shapes := c06Shapes()
	if cfg.Replay != "" {
		rf, err := sb.LoadReplay(cfg.Replay)
		if err != nil {
			rec.InfraProblem("replay: %v", err)
			return
		}
		var c c06Case
		json.Unmarshal(rf.Case, &c)
		rec.NonTrivial(c.Src)
		rec.NonTrivial(c.Src, "replay")
		for _, f := range c06Judge(pool, rec, c) {
			if f.Key == rf.Key {
				rec.Fail(f.Key, f.Detail, f.Case)
			}
		}
		return
	}
	var shapeNames []string
	for n := range shapes {
		shapeNames = append(shapeNames, n)
	}
	sort.Strings(shapeNames)
	idx := 0
	run := func(c c06Case) {
		idx++
		if !cfg.Mine(idx) {
			return
		}
		rec.NonTrivial(c.Route, c.Shape, c.Mut, c.Side)
		rec.Label("route:"+c.Route, c.Src)
		rec.Label("mut:"+c.Mut, "")
		for _, f := range c06Judge(pool, rec, c) {
			rec.Fail(f.Key, f.Detail, f.Case)
		}
	}
	for _, sn := range shapeNames {
		sh := shapes[sn]
		for _, m := range c06Muts {
			if probe := sh.clone(); !m.Apply(probe) {
				continue // not applicable / no effect in the model
			}
			for _, r := range c06Routes {
				for _, side := range r.Sides {
					run(mkC06Case(r.Name, sn, side, sh, m, r.Shared, c06Script(r, sh, m, side)))
				}
			}
			// by-value parameter: the callee mutates; snapshots: copy0/copy1 inside, orig0/orig1 outside
			run(mkC06Case("param", sn, "copy", sh, m, false, c06ParamScript(sh, m)))
			run(mkC06Case("static-return", sn, "copy", sh, m, false, c06StaticScript(sh, m)))
		}
	}
	// library functions over built arrays
	for _, b := range c06Built {
		for _, m := range c06LibMuts {
			mk := func(route, side, src string) c06Case {
				return c06Case{Route: route, Shape: "built:" + b[0], Mut: "lib:" + m.Name, Side: side, Src: src, LeakOnly: true, Raw: true}
			}
			for _, r := range c06Routes {
				if r.Shared {
					continue
				}
				for _, side := range r.Sides {
					L := r.Copy
					if side == "orig" {
						L = r.Orig
					}
					run(mk(r.Name, side, c06ScriptRaw(r, b[1], m.Text(L))))
				}
			}
			run(mk("param", "copy", c06ParamScriptRaw(b[1], m.Text("$arr"))))
		}
	}
	rec.R.Exhaustive = true
	rec.Flush()
	// random shapes
	total := 8000 / cfg.NShards
	if cfg.Thorough() {
		total = 600000 / cfg.NShards
	}
	var genArr func(rt *rapid.T, d int) *aArr
	genArr = func(rt *rapid.T, d int) *aArr {
		a := &aArr{}
		n := rapid.IntRange(0, 4).Draw(rt, "n")
		keyed := rapid.IntRange(0, 3).Draw(rt, "keyed") == 0
		for i := 0; i < n; i++ {
			k := ""
			if keyed && (rapid.Bool().Draw(rt, "k") || (i > 0 && a.Keys[i-1] != "")) {
				k = string(rune('k' + i)) // a positional item after a keyed one is rejected by the parser
			}
			var v any = int64(rapid.IntRange(0, 9).Draw(rt, "v"))
			if d > 0 && rapid.IntRange(0, 2).Draw(rt, "nest") == 0 {
				v = genArr(rt, d-1)
			}
			a.Keys = append(a.Keys, k)
			a.Vals = append(a.Vals, v)
		}
		return a
	}
	rapidLoop(t, rec, "random", total, 200, dl, func(rt *rapid.T) *failure {
		sh := genArr(rt, 2)
		m := c06Muts[rapid.IntRange(0, len(c06Muts)-1).Draw(rt, "mut")]
		if probe := sh.clone(); !m.Apply(probe) {
			return nil
		}
		r := c06Routes[rapid.IntRange(0, len(c06Routes)-1).Draw(rt, "route")]
		side := r.Sides[rapid.IntRange(0, len(r.Sides)-1).Draw(rt, "side")]
		c := mkC06Case(r.Name, "random:"+aLit(sh), side, sh, m, r.Shared, c06Script(r, sh, m, side))
		rec.NonTrivial(c.Route, c.Shape, c.Mut, c.Side)
		rec.Label("random:"+c.Route, "")
		for _, f := range c06Judge(pool, rec, c) {
			if !rec.IsKnown(f.Key) {
				return f
			}
			rec.Fail(f.Key, f.Detail, f.Case)
		}
		return nil
	})
}
