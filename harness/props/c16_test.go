package props

import (
	"encoding/json"
	"fmt"
	"os"
	"path/filepath"
	"regexp"
	"sort"
	"strings"
	"testing"
	"time"

	"pgregory.net/rapid"
	"verifharness/pgen"
	"verifharness/sb"
)

// ---------------------------------------------------------------------------
// C16 — ahead-of-time compilation preserves behaviour: compiled = interpreted.
// ---------------------------------------------------------------------------

func init() {
	sb.Assume("C16",
		"translation validation: every generated program is compiled with `origami compile <dir> -o <out> --pkg main --entry <dir>/main.php` (one invocation per program, CLI built from /repo), the generated ast_*.go files of a batch are gathered into one Go package together with each program's generated register.go (package-level symbols renamed per program); the package's main repeats the default main.go template (fresh VM, same Load calls, Register, RunCompiledFile, '错误:' + exit 1 on a returned control, shutdown callbacks), built once with `replace github.com/php-any/origami => /repo`, and each program is run compiled and interpreted",
		"compared: stdout bytes, exit status and the uncaught-error message with locations removed (compiled ASTs carry zeroed locations by design)",
		"programs that define classes are emitted inside a namespace because only namespace-level classes are carried into compiled ASTs; base control-flow constructs inherit the C02 exclusions",
		"a file the compile step rejects must be reported with an error naming the file; an accepted file without generated output, or generated Go code that does not build, is a failure",
	)
}

type c16Prog struct {
	Name string `json:"name"`
	Src  string `json:"src"`
	Kind string `json:"kind"`
}

type c16Case struct {
	Prog        c16Prog `json:"program"`
	Interpreted string  `json:"interpreted"`
	Compiled    string  `json:"compiled"`
}

var locStrip = regexp.MustCompile(`(in |at |thrown at )?[^\s:]*\.php:\d+(:\d+)?|on line \d+|#\d+ [^\n]*\n|Stack trace:\n`)

var dumpLoc = regexp.MustCompile(`(?m)^[^\n]*main\.php:\d+:\n`)

func normRun(r sb.CLIResult) string {
	// var_dump prefixes its output with file:line; compiled ASTs carry zeroed locations by design
	r.Stdout = dumpLoc.ReplaceAllString(r.Stdout, "<loc>\n")
	errTxt := locStrip.ReplaceAllString(r.Stderr, "")
	errTxt = strings.Join(strings.Fields(errTxt), " ")
	return fmt.Sprintf("exit=%d\n--stdout--\n%s\n--stderr--\n%s", r.Exit, r.Stdout, errTxt)
}

const c16MainTmpl = `package main

import (
	"fmt"
	"os"

	"github.com/php-any/origami/data"
	"github.com/php-any/origami/parser"
	"github.com/php-any/origami/runtime"
	"github.com/php-any/origami/std"
	"github.com/php-any/origami/std/net/annotation"
	"github.com/php-any/origami/std/net/http"
	"github.com/php-any/origami/std/net/websocket"
	"github.com/php-any/origami/std/php"
	"github.com/php-any/origami/std/system"
)

type entry struct {
	path string
	reg  func(vm data.VM) // the generated Register of that program (register.go, symbols renamed per program)
}

var table = map[string]entry{
%s}

// same body as the default main.go template of cmd/compile, for the program named on the command line
func main() {
	e, ok := table[os.Args[1]]
	if !ok {
		fmt.Fprintln(os.Stderr, "unknown program")
		os.Exit(3)
	}
	p := parser.NewParser()
	vm := runtime.NewVM(p)

	std.Load(vm)
	php.Load(vm)
	http.Load(vm)
	websocket.Load(vm)
	annotation.Load(vm)
	system.Load(vm)

	e.reg(vm)
	_, err := vm.RunCompiledFile(e.path)
	if err != nil {
		fmt.Fprintf(os.Stderr, "错误: %%v\n", err)
		os.Exit(1)
	}
	vm.RunShutdownCallbacks()
}
`

var astFuncRe = regexp.MustCompile(`func (AST_\w+)\(\)`)
var ctorRe = regexp.MustCompile(`node\.New\w+`)

// c16Batch compiles, builds and compares one batch of programs. Returns failures.
func c16Batch(rec *sb.Rec, root string, progs []c16Prog) []*failure {
	var fs []*failure
	src := filepath.Join(root, "src")
	pkg := filepath.Join(root, "pkg")
	os.MkdirAll(src, 0o755)
	os.MkdirAll(pkg, 0o755)
	type built struct {
		prog  c16Prog
		fn    string
		entry string
		ctors int
	}
	var ok []built
	for _, p := range progs {
		dir := filepath.Join(src, p.Name)
		os.MkdirAll(dir, 0o755)
		os.WriteFile(filepath.Join(dir, "main.php"), []byte(p.Src), 0o644)
		out := filepath.Join(root, "out", p.Name)
		r := sb.RunCmd(src, 60*time.Second, sb.CLIBin(), "compile", p.Name, "-o", out, "--pkg", "main", "--entry", p.Name+"/main.php")
		rec.Eval()
		if r.TimedOut || r.Err != "" {
			rec.Inconclusive("compile of %s timed out / failed to start: %s", p.Name, r.Err)
			continue
		}
		asts, _ := filepath.Glob(filepath.Join(out, "ast_*.go"))
		if r.Exit != 0 {
			msg := r.Stdout + r.Stderr
			if !strings.Contains(msg, "main.php") && !strings.Contains(msg, p.Name) {
				fs = append(fs, &failure{Key: "cell:compile:error-without-file:" + p.Kind, Detail: fmt.Sprintf("compile rejected %s without naming the file: %s\n%s", p.Name, clip(msg, 300), clip(p.Src, 1200)), Case: c16Case{Prog: p}})
			} else {
				// a rejected construct is allowed, but the interpreter must accept the same source for this to be a translation gap worth counting
				rec.Label("compile.rejected:"+p.Kind, clip(msg, 300)+"\n"+clip(p.Src, 600))
			}
			continue
		}
		if len(asts) == 0 {
			fs = append(fs, &failure{Key: "cell:compile:no-output:" + p.Kind, Detail: fmt.Sprintf("compile accepted %s but generated no ast file: %s", p.Name, clip(r.Stdout+r.Stderr, 300)), Case: c16Case{Prog: p}})
			continue
		}
		b, _ := os.ReadFile(asts[0])
		m := astFuncRe.FindSubmatch(b)
		if m == nil {
			fs = append(fs, &failure{Key: "cell:compile:no-ast-func:" + p.Kind, Detail: "generated file has no AST_ function", Case: c16Case{Prog: p}})
			continue
		}
		os.WriteFile(filepath.Join(pkg, filepath.Base(asts[0])), b, 0o644)
		// the generated register.go, with its package-level symbols renamed so that all programs of the batch fit one package
		regSrc, err := os.ReadFile(filepath.Join(out, "register.go"))
		if err != nil {
			fs = append(fs, &failure{Key: "cell:compile:no-register:" + p.Kind, Detail: "compile produced no register.go", Case: c16Case{Prog: p}})
			continue
		}
		rs := string(regSrc)
		for _, sym := range []string{"registerClasses", "Register", "EntryPath"} {
			rs = regexp.MustCompile(`\b`+sym+`\b`).ReplaceAllString(rs, sym+"_"+p.Name)
		}
		os.WriteFile(filepath.Join(pkg, "register_"+p.Name+".go"), []byte(rs), 0o644)
		ctors := map[string]bool{}
		for _, c := range ctorRe.FindAll(b, -1) {
			ctors[string(c)] = true
		}
		delete(ctors, "node.NewNode")
		delete(ctors, "node.NewTokenFrom")
		for c := range ctors {
			rec.Label("go-source:"+c, "")
		}
		ok = append(ok, built{prog: p, fn: string(m[1]), entry: filepath.Join(src, p.Name, "main.php"), ctors: len(ctors)})
	}
	if len(ok) == 0 {
		return fs
	}
	os.WriteFile(filepath.Join(pkg, "go.mod"), []byte("module batch\n\ngo 1.25.0\n\nrequire github.com/php-any/origami v0.0.0\n\nreplace github.com/php-any/origami => "+sb.Repo()+"\n"), 0o644)
	sum, _ := os.ReadFile(sb.Repo() + "/go.sum")
	os.WriteFile(filepath.Join(pkg, "go.sum"), sum, 0o644)
	bin := filepath.Join(root, "batch.bin")
	for attempt := 0; attempt < 6; attempt++ {
		var tb strings.Builder
		for _, b := range ok {
			fmt.Fprintf(&tb, "\t%q: {EntryPath_%s, Register_%s},\n", b.prog.Name, b.prog.Name, b.prog.Name)
		}
		os.WriteFile(filepath.Join(pkg, "main.go"), []byte(fmt.Sprintf(c16MainTmpl, tb.String())), 0o644)
		r := sb.RunCmd(pkg, 10*time.Minute, "go", "build", "-mod=mod", "-o", bin, ".")
		if r.Exit == 0 && !r.TimedOut {
			break
		}
		if r.TimedOut || r.Err != "" {
			rec.InfraProblem("go build of the batch: timeout/err %s", r.Err)
			return fs
		}
		// find the culprit files
		bad := map[string]bool{}
		for _, m := range regexp.MustCompile(`ast_(\w+?)_main\.go`).FindAllStringSubmatch(r.Stderr+r.Stdout, -1) {
			bad[strings.ToLower(m[1])] = true
		}
		if len(bad) == 0 {
			rec.InfraProblem("go build of the batch failed: %s", clip(r.Stderr+r.Stdout, 600))
			return fs
		}
		var keep []built
		for _, b := range ok {
			if bad[strings.ToLower(b.prog.Name)] {
				fs = append(fs, &failure{Key: "cell:compile:generated-code-does-not-build:" + b.prog.Kind, Detail: fmt.Sprintf("the Go code generated for %s does not build: %s\n%s", b.prog.Name, clip(r.Stderr+r.Stdout, 500), clip(b.prog.Src, 1200)), Case: c16Case{Prog: b.prog}})
				os.Remove(filepath.Join(pkg, "ast_"+b.prog.Name+"_main.go"))
				os.Remove(filepath.Join(pkg, "register_"+b.prog.Name+".go"))
			} else {
				keep = append(keep, b)
			}
		}
		ok = keep
	}
	if _, err := os.Stat(bin); err != nil {
		rec.InfraProblem("no batch binary")
		return fs
	}
	programs, checked := 0, 0
	for _, b := range ok {
		ri := sb.RunCLI(src, b.entry, 30*time.Second)
		rc := sb.RunCmd(src, 30*time.Second, bin, b.prog.Name)
		rec.EvalN(2)
		if ri.TimedOut || rc.TimedOut || ri.Err != "" || rc.Err != "" {
			rec.Inconclusive("run of %s timed out (interpreted %v, compiled %v)", b.prog.Name, ri.TimedOut, rc.TimedOut)
			continue
		}
		programs++
		checked++
		ni, nc := normRun(ri), normRun(rc)
		if strings.Count(ri.Stdout, "\n")+len(ri.Stdout) > 0 && b.ctors > 0 {
			rec.NonTrivial(b.prog.Src)
		}
		rec.Label("program:"+b.prog.Kind, b.prog.Src)
		if ni != nc {
			what := "stdout"
			switch {
			case ri.Exit != rc.Exit:
				what = "exit-status"
			case ri.Stdout == rc.Stdout:
				what = "diagnostic"
			}
			key := "cell:differs:" + what + ":" + b.prog.Kind
			if strings.Contains(rc.Stderr+rc.Stdout, "不存在或无法加载") && !strings.Contains(ri.Stderr+ri.Stdout, "不存在或无法加载") {
				// one root cause whatever the program: a class or interface the source declares cannot be found by the compiled program
				key = "cell:differs:class-or-interface-missing-in-compiled"
			}
			fs = append(fs, &failure{Key: key, Detail: fmt.Sprintf("compiled and interpreted runs of %s differ (%s):\n  interpreted: %q\n  compiled:    %q\n%s", b.prog.Name, what, clip(ni, 500), clip(nc, 500), clip(b.prog.Src, 1500)), Case: c16Case{Prog: b.prog, Interpreted: ni, Compiled: nc}})
		}
	}
	addExtra(rec, "programs", programs)
	addExtra(rec, "disagreements_checked", checked)
	return fs
}

func addExtra(rec *sb.Rec, k string, n int) {
	old, _ := rec.R.Extra[k].(int)
	rec.R.Extra[k] = old + n
}

func c16GenProgram(rt *rapid.T, i int, exclude map[string]bool) c16Prog {
	name := fmt.Sprintf("p%04d", i)
	switch rapid.IntRange(0, 7).Draw(rt, "pkind") {
	case 6:
		// several namespace sections in one file: same short function names in each, unqualified calls
		// (some to functions declared later in the same section), fully qualified calls across sections
		ns := rapid.IntRange(2, 3).Draw(rt, "nns")
		var sb strings.Builder
		sb.WriteString("<?php\n")
		fnames := []string{"label", "wrap", "pick"}
		for k := 0; k < ns; k++ {
			fmt.Fprintf(&sb, "namespace %s\\N%d;\n", name, k)
			order := rapid.Permutation([]int{0, 1, 2}).Draw(rt, "forder")
			for _, fi := range order {
				switch fi {
				case 0:
					fmt.Fprintf(&sb, "function label($n) { return 'L%d:' . $n; }\n", k)
				case 1:
					fmt.Fprintf(&sb, "function wrap($n) { return 'W%d(' . label($n) . ')'; }\n", k)
				default:
					fmt.Fprintf(&sb, "function pick($n) { return wrap($n + %d) . '/' . label($n); }\n", k)
				}
			}
			for c := rapid.IntRange(1, 3).Draw(rt, "ncalls"); c > 0; c-- {
				fn := rapid.SampledFrom(fnames).Draw(rt, "fn")
				if rapid.Bool().Draw(rt, "qualified") {
					fmt.Fprintf(&sb, "echo \\%s\\N%d\\%s(%d), \"\\n\";\n", name, rapid.IntRange(0, k).Draw(rt, "tns"), fn, c)
				} else {
					fmt.Fprintf(&sb, "echo %s(%d), \"\\n\";\n", fn, c)
				}
			}
		}
		return c16Prog{Name: name, Src: sb.String(), Kind: "multi-namespace"}
	case 7:
		// user-defined attribute classes whose constructors are observable; compile may refuse them,
		// but must not silently drop them
		var sb strings.Builder
		fmt.Fprintf(&sb, "<?php\nnamespace %s;\nclass Mark {\n    public function __construct(public string $tag = \"none\") { echo \"mark:\", $tag, \"\\n\"; }\n}\n", name)
		onClass, onMethod := rapid.Bool().Draw(rt, "oncls"), rapid.Bool().Draw(rt, "onmeth")
		if !onClass && !onMethod {
			onClass = true
		}
		if onClass {
			fmt.Fprintf(&sb, "#[Mark(\"c%d\")]\n", rapid.IntRange(0, 9).Draw(rt, "ctag"))
		}
		sb.WriteString("class Svc {\n")
		if onMethod {
			fmt.Fprintf(&sb, "    #[Mark(\"m%d\")]\n", rapid.IntRange(0, 9).Draw(rt, "mtag"))
		}
		sb.WriteString("    public function total($xs) { $s = 0; foreach ($xs as $x) { $s += $x; } return $s; }\n}\n$svc = new Svc();\necho \"total=\", $svc->total([1, 2, 3]), \"\\n\";\n")
		return c16Prog{Name: name, Src: sb.String(), Kind: "attribute"}
	case 0, 1:
		cfg := pgen.DefaultCfg()
		cfg.MaxStmts = 10
		cfg.Exclude = exclude
		p := pgen.Gen(rt, cfg)
		if _, err := pgen.Run(p); err != nil {
			return c16Prog{}
		}
		return c16Prog{Name: name, Src: p.Print(pgen.PrintOpts{}), Kind: "control-flow"}
	case 2:
		cfg := pgen.DefaultCfg()
		cfg.MaxStmts = 8
		cfg.Exceptions = true
		cfg.Exclude = exclude
		p := pgen.Gen(rt, cfg)
		if _, err := pgen.Run(p); err != nil {
			return c16Prog{}
		}
		return c16Prog{Name: name, Src: p.Print(pgen.PrintOpts{Namespace: name}), Kind: "exceptions"}
	case 3:
		tt := rapid.SampledFrom([]xType{xInt, xBool, xStr}).Draw(rt, "xt")
		tree := xGen(rt, tt, rapid.IntRange(2, 4).Draw(rt, "xd"))
		if _, err := xEval(tree, xFreshEnv()); err != nil {
			return c16Prog{}
		}
		feats := map[string]bool{}
		xFeatures(tree, nil, feats)
		if len(feats) > 0 {
			return c16Prog{}
		}
		var sb strings.Builder
		sb.WriteString("<?php\n")
		for _, v := range xVars {
			fmt.Fprintf(&sb, "$%s = %s;\n", v.Name, v.Lit)
		}
		fmt.Fprintf(&sb, "$r = %s;\necho json_encode($r), \"|\", json_encode([$a, $b, $c, $s, $t, $n]), \"\\n\";\n", xPrint(tree, 0, nil))
		return c16Prog{Name: name, Src: sb.String(), Kind: "expression"}
	case 4:
		cp := genClassProgram(rt)
		return c16Prog{Name: name, Src: strings.Replace(cp.Src, "<?php\n", "<?php\nnamespace "+name+";\n", 1), Kind: "classes"}
	default:
		// a small hierarchy with dispatch (C08 style), namespaced
		nc := rapid.IntRange(1, 3).Draw(rt, "hnc")
		h := &hier{Parent: make([]int, nc), IExt: [][]int{{}}, Impl: make([][]int, nc), DefM: make([]bool, nc), DefTag: make([]bool, nc)}
		noIface := rapid.Bool().Draw(rt, "noiface")
		if noIface {
			// interfaces declared in the entry file are a listed finding (missing in the compiled program):
			// half of the hierarchies do without, so that dispatch itself is compared
			h.IExt = [][]int{}
		}
		for c := 0; c < nc; c++ {
			h.Parent[c] = rapid.IntRange(-1, c-1).Draw(rt, "hp")
			h.DefM[c] = rapid.Bool().Draw(rt, "hm") || c == 0
			h.DefTag[c] = rapid.Bool().Draw(rt, "ht") || c == 0
			if rapid.Bool().Draw(rt, "hi") && !noIface {
				h.Impl[c] = []int{0}
			}
		}
		return c16HierProgram(name, h)
	}
}

// c16HierProgram turns a C08 hierarchy fixture into a namespaced program that prints its observations.
func c16HierProgram(name string, h *hier) c16Prog {
	src := h.source()
	src = strings.Replace(src, "<?php\n", "<?php\nnamespace "+name+";\nfunction __obs($l, $v) { echo $l, '=', json_encode($v), \";\"; }\n", 1)
	src = strings.ReplaceAll(src, "extends Exception", "extends \\Exception")
	src = strings.ReplaceAll(src, "Throwable", "\\Throwable")
	src = strings.ReplaceAll(src, "(Exception ", "(\\Exception ")
	src = strings.ReplaceAll(src, "instanceof Exception", "instanceof \\Exception")
	return c16Prog{Name: name, Src: src, Kind: "hierarchy"}
}

// c16FixedHierarchies: interface-free chains of 2 and 3 classes with every placement of the method and
// the static method below the root (self:: / static:: / parent:: / new self / new static through subclasses).
func c16FixedHierarchies() []c16Prog {
	var out []c16Prog
	k := 0
	for _, n := range []int{2, 3} {
		for mask := 0; mask < 1<<(2*(n-1)); mask++ {
			h := &hier{Parent: make([]int, n), IExt: [][]int{}, Impl: make([][]int, n), DefM: make([]bool, n), DefTag: make([]bool, n)}
			for c := 0; c < n; c++ {
				h.Parent[c] = c - 1
				h.DefM[c] = c == 0 || mask&(1<<(2*(c-1))) != 0
				h.DefTag[c] = c == 0 || mask&(1<<(2*(c-1)+1)) != 0
			}
			out = append(out, c16HierProgram(fmt.Sprintf("fh%03d", k), h))
			k++
		}
	}
	return out
}

func TestC16(t *testing.T) {
	cfg := sb.LoadConfig("C16")
	rec := sb.NewRec(cfg)
	defer rec.Flush()
	rec.R.Rule = "batches of generated programs (control flow, exceptions in a namespace, expressions, class programs, class hierarchies with dispatch, files with several namespace sections, user-defined attributes), 20 fixed interface-free class chains with every placement of the dispatched methods, 20 hand-written programs for the language areas the generators do not reach (float literals, global statement, statics, references, closures, literals in other bases, string escapes, destructuring, constants, generators, null handling, spread / named / default arguments, magic methods, library calls, enums, juggling), plus the statically deterministic corpus files; every program is translated by its own `origami compile` invocation, the batch is built once into one binary, and each program is run compiled and interpreted: stdout, exit status and the location-free diagnostic must be equal. Non-trivial = the interpreted run prints something and the generated Go source uses at least one node constructor (special handler / fast-path node); distinct by program text."
	dl := time.Now().Add(budget(cfg, 200, 1800))
	root, _ := os.MkdirTemp("", "c16-")
	defer os.RemoveAll(root)
	exclude := c02Exclusions(cfg.Root)
	if cfg.Replay != "" {
		rf, err := sb.LoadReplay(cfg.Replay)
		if err != nil {
			rec.InfraProblem("replay: %v", err)
			return
		}
		var c c16Case
		json.Unmarshal(rf.Case, &c)
		rec.NonTrivial(c.Prog.Src)
		rec.NonTrivial(c.Prog.Src, "r")
		for _, f := range c16Batch(rec, root, []c16Prog{c.Prog}) {
			rec.Fail(rf.Key, f.Detail, f.Case)
		}
		return
	}
	batchSize, batches := 120, 1
	if cfg.Thorough() {
		batchSize, batches = 400, 3
	}
	batchSize /= cfg.NShards
	if batchSize < 20 {
		batchSize = 20
	}
	for b := 0; b < batches; b++ {
		if time.Now().After(dl) {
			rec.Note("stopped by budget before batch %d", b)
			break
		}
		var progs []c16Prog
		n := 0
		rapidLoop(t, rec, fmt.Sprintf("gen%d", b), batchSize, batchSize, dl, func(rt *rapid.T) *failure {
			n++
			if p := c16GenProgram(rt, cfg.Shard*10000+b*1000+n, exclude); p.Src != "" {
				progs = append(progs, p)
			}
			return nil
		})
		if b == 0 && cfg.Shard == 0 {
			progs = append(progs, c16FixedHierarchies()...)
		}
		if b == 0 {
			for i, fp := range c16FeaturePrograms() {
				if i%cfg.NShards == cfg.Shard {
					progs = append(progs, fp)
				}
			}
		}
		if b == 0 {
			files := deterministicCorpus()
			sort.Strings(files)
			for i, f := range files {
				if i%cfg.NShards != cfg.Shard {
					continue
				}
				src, err := os.ReadFile(f)
				if err != nil {
					continue
				}
				progs = append(progs, c16Prog{Name: fmt.Sprintf("c%04d", i), Src: string(src), Kind: "corpus:" + strings.TrimPrefix(f, sb.Repo()+"/")})
			}
		}
		broot := filepath.Join(root, fmt.Sprintf("b%d", b))
		for _, f := range c16Batch(rec, broot, progs) {
			rec.Fail(f.Key, f.Detail, f.Case)
		}
		os.RemoveAll(broot)
		rec.Flush()
	}
}
