package props

import (
	"encoding/json"
	"fmt"
	"sort"
	"strconv"
	"strings"
	"testing"
	"time"
	"unicode/utf8"

	"pgregory.net/rapid"
	"verifharness/sb"
)

// ---------------------------------------------------------------------------
// C15 — array and string methods behave as documented (Node.js-style semantics).
// ---------------------------------------------------------------------------

func init() {
	sb.Assume("C15",
		"expected results come from an independent Go implementation of docs/array_methods.md and docs/strings.md; where the docs defer to 'Node.js style' the JavaScript Array/String semantics are used: relative index normalisation, splice delete-count clamping, flat default depth 1, join default ',', concat spreading one level, default sort by string comparison",
		"string replace replaces every occurrence and split() without argument splits on a space: both are taken from the documentation's own examples",
		"two observations per case through the typed sink: the return value and the receiver afterwards; mutators (push pop shift unshift splice reverse sort) must change the receiver exactly as the model, all others must leave it deep-equal",
		"index-returning / index-taking string methods on non-ASCII receivers are not asserted (the docs do not say bytes vs code points); reduce without initial value on an empty array is not asserted",
		"findings are keyed cell:<method>:<argument shape>:<ret|receiver|error|crash>",
	)
}

// model values: int64, string, bool, nil, []any
func mLit(v any) string {
	switch x := v.(type) {
	case nil:
		return "null"
	case int64:
		if x < 0 {
			return "(" + strconv.FormatInt(x, 10) + ")"
		}
		return strconv.FormatInt(x, 10)
	case string:
		return "'" + strings.ReplaceAll(x, "'", "\\'") + "'"
	case bool:
		if x {
			return "true"
		}
		return "false"
	case []any:
		var p []string
		for _, e := range x {
			p = append(p, mLit(e))
		}
		return "[" + strings.Join(p, ", ") + "]"
	}
	return "null"
}

func mSnap(v any) string {
	switch x := v.(type) {
	case nil:
		return "n"
	case int64:
		return "i:" + strconv.FormatInt(x, 10)
	case string:
		return "s:" + strconv.Quote(x)
	case bool:
		if x {
			return "b:1"
		}
		return "b:0"
	case []any:
		var p []string
		for _, e := range x {
			p = append(p, "#=>"+mSnap(e))
		}
		return "a[" + strings.Join(p, ",") + "]"
	}
	return "?"
}

func cloneL(l []any) []any {
	out := make([]any, len(l))
	for i, e := range l {
		if n, ok := e.([]any); ok {
			out[i] = cloneL(n)
		} else {
			out[i] = e
		}
	}
	return out
}

func jsToString(v any) string {
	switch x := v.(type) {
	case nil:
		return ""
	case int64:
		return strconv.FormatInt(x, 10)
	case string:
		return x
	case bool:
		if x {
			return "true"
		}
		return "false"
	case []any:
		var p []string
		for _, e := range x {
			p = append(p, jsToString(e))
		}
		return strings.Join(p, ",")
	}
	return ""
}

func relIndex(i, n int64) int64 {
	if i < 0 {
		i += n
		if i < 0 {
			i = 0
		}
	}
	if i > n {
		i = n
	}
	return i
}

func strictEq(a, b any) bool {
	switch x := a.(type) {
	case int64:
		y, ok := b.(int64)
		return ok && x == y
	case string:
		y, ok := b.(string)
		return ok && x == y
	case bool:
		y, ok := b.(bool)
		return ok && x == y
	case nil:
		return b == nil
	}
	return false
}

func flatten(l []any, depth int64) []any {
	var out []any
	for _, e := range l {
		if n, ok := e.([]any); ok && depth > 0 {
			out = append(out, flatten(n, depth-1)...)
		} else {
			out = append(out, e)
		}
	}
	if out == nil {
		out = []any{}
	}
	return out
}

type c15Case struct {
	Method string `json:"method"`
	Shape  string `json:"shape"`
	Src    string `json:"src"`
	Ret    string `json:"expected_return"`
	After  string `json:"expected_receiver"`
	NoRet  bool   `json:"return_not_asserted,omitempty"`
	Each   string `json:"expected_each,omitempty"`
	// Preps: the same call on a receiver with the same elements that got them through earlier
	// mutations (extra element popped / shifted off, elements pushed one by one) instead of a literal
	Preps map[string]string `json:"prepared_receivers,omitempty"`
}

func arrCase(method, shape string, recv []any, args string, ret any, after []any) c15Case {
	call := fmt.Sprintf("try { $r = $a->%s(%s); __obs(\"r\", $r); } catch (Throwable $e) { __obs(\"!r\", $e->getMessage()); }\n__obs(\"after\", $a);\n", method, args)
	src := fmt.Sprintf("<?php\n$a = %s;\n", mLit(recv)) + call
	preps := map[string]string{
		"popped":  fmt.Sprintf("<?php\n$a = %s;\n$a->pop();\n", mLit(append(cloneL(recv), int64(99)))) + call,
		"shifted": fmt.Sprintf("<?php\n$a = %s;\n$a->shift();\n", mLit(append([]any{int64(99)}, cloneL(recv)...))) + call,
	}
	// (push of a list argument is a finding of its own, cell:push:*: only scalar elements are pushed)
	var pushes strings.Builder
	pushes.WriteString("<?php\n$a = [];\n")
	scalars := true
	for _, v := range recv {
		if _, isList := v.([]any); isList {
			scalars = false
		}
		fmt.Fprintf(&pushes, "$a->push(%s);\n", mLit(v))
	}
	if scalars {
		preps["pushed"] = pushes.String() + call
	}
	return c15Case{Method: method, Shape: shape, Src: src, Ret: mSnap(ret), After: mSnap(after), Preps: preps}
}

var idxPool = func(n int64) []int64 { return []int64{-n - 1, -n, -1, 0, 1, n - 1, n, n + 1} }

func uniq64(xs []int64) []int64 {
	seen := map[int64]bool{}
	var out []int64
	for _, x := range xs {
		if !seen[x] {
			seen[x] = true
			out = append(out, x)
		}
	}
	return out
}

func idxShape(i, n int64) string {
	switch {
	case i < -n:
		return "below-neg-len"
	case i < 0:
		return "negative"
	case i == 0:
		return "zero"
	case i < n:
		return "inside"
	case i == n:
		return "eq-len"
	}
	return "beyond-len"
}

// c15ArrayCases enumerates the array-method cases for one receiver.
func c15ArrayCases(recv []any) []c15Case {
	var out []c15Case
	n := int64(len(recv))
	allInt := true
	for _, e := range recv {
		if _, ok := e.(int64); !ok {
			allInt = false
		}
	}
	items := [][]any{{}, {int64(9)}, {"x", int64(8)}, {int64(7), "y", true}}
	argList := func(it []any) string {
		var p []string
		for _, e := range it {
			p = append(p, mLit(e))
		}
		return strings.Join(p, ", ")
	}
	// push / unshift with 0..3 variadic items
	for _, it := range items {
		sh := fmt.Sprintf("variadic%d", len(it))
		after := append(cloneL(recv), it...)
		out = append(out, arrCase("push", sh, recv, argList(it), int64(len(after)), after))
		after2 := append(append([]any{}, it...), cloneL(recv)...)
		out = append(out, arrCase("unshift", sh, recv, argList(it), int64(len(after2)), after2))
	}
	// pop / shift
	if n > 0 {
		out = append(out, arrCase("pop", "nonempty", recv, "", recv[n-1], cloneL(recv[:n-1])))
		out = append(out, arrCase("shift", "nonempty", recv, "", recv[0], cloneL(recv[1:])))
	} else {
		out = append(out, arrCase("pop", "empty", recv, "", nil, []any{}))
		out = append(out, arrCase("shift", "empty", recv, "", nil, []any{}))
	}
	// slice
	out = append(out, arrCase("slice", "no-args", recv, "", cloneL(recv), recv))
	for _, s := range uniq64(idxPool(n)) {
		st := relIndex(s, n)
		out = append(out, arrCase("slice", "start-only:"+idxShape(s, n), recv, mLit(s), cloneL(recv[st:]), recv))
		for _, e := range uniq64(idxPool(n)) {
			en := relIndex(e, n)
			var r []any
			if st < en {
				r = cloneL(recv[st:en])
			} else {
				r = []any{}
			}
			out = append(out, arrCase("slice", "start+end:"+idxShape(s, n)+","+idxShape(e, n), recv, mLit(s)+", "+mLit(e), r, recv))
		}
	}
	// splice
	for _, s := range uniq64(idxPool(n)) {
		st := relIndex(s, n)
		// deleteCount omitted: delete to the end
		out = append(out, arrCase("splice", "start-only:"+idxShape(s, n), recv, mLit(s), cloneL(recv[st:]), cloneL(recv[:st])))
		for _, dc := range uniq64([]int64{-1, 0, 1, 2, n, n + 1}) {
			d := dc
			if d < 0 {
				d = 0
			}
			if d > n-st {
				d = n - st
			}
			for _, it := range items[:3] {
				deleted := cloneL(recv[st : st+d])
				after := append(append(cloneL(recv[:st]), it...), cloneL(recv[st+d:])...)
				args := mLit(s) + ", " + mLit(dc)
				if len(it) > 0 {
					args += ", " + argList(it)
				}
				dsh := "count-inside"
				switch {
				case dc < 0:
					dsh = "count-negative"
				case dc == 0:
					dsh = "count-zero"
				case dc > n-st:
					dsh = "count-beyond"
				}
				out = append(out, arrCase("splice", fmt.Sprintf("start:%s,%s,items%d", idxShape(s, n), dsh, len(it)), recv, args, deleted, after))
			}
		}
	}
	// concat
	out = append(out, arrCase("concat", "no-args", recv, "", cloneL(recv), recv))
	out = append(out, arrCase("concat", "one-array", recv, "[5, 6]", append(cloneL(recv), int64(5), int64(6)), recv))
	out = append(out, arrCase("concat", "two-arrays", recv, "[5], [6, 7]", append(cloneL(recv), int64(5), int64(6), int64(7)), recv))
	out = append(out, arrCase("concat", "scalar+array", recv, "5, [6]", append(cloneL(recv), int64(5), int64(6)), recv))
	out = append(out, arrCase("concat", "nested-array", recv, "[[5, 6]]", append(cloneL(recv), []any{int64(5), int64(6)}), recv))
	// join (flat receivers of ints/strings only)
	flatScalars := true
	for _, e := range recv {
		switch e.(type) {
		case int64, string:
		default:
			flatScalars = false
		}
	}
	if flatScalars {
		var parts []string
		for _, e := range recv {
			parts = append(parts, jsToString(e))
		}
		out = append(out, arrCase("join", "default-separator", recv, "", strings.Join(parts, ","), recv))
		out = append(out, arrCase("join", "separator", recv, "' - '", strings.Join(parts, " - "), recv))
		out = append(out, arrCase("join", "empty-separator", recv, "''", strings.Join(parts, ""), recv))
		// sort: default string comparison, mutates
		sorted := cloneL(recv)
		sort.SliceStable(sorted, func(i, j int) bool { return jsToString(sorted[i]) < jsToString(sorted[j]) })
		out = append(out, arrCase("sort", "default", recv, "", sorted, sorted))
	}
	// reverse
	rev := cloneL(recv)
	for i, j := 0, len(rev)-1; i < j; i, j = i+1, j-1 {
		rev[i], rev[j] = rev[j], rev[i]
	}
	out = append(out, arrCase("reverse", "default", recv, "", rev, rev))
	// indexOf / includes
	needles := []any{int64(2), "b", int64(99)}
	if n > 0 {
		needles = append(needles, recv[n-1])
	}
	for _, nd := range needles {
		if _, isArr := nd.([]any); isArr {
			continue
		}
		find := func(from int64) int64 {
			for i := from; i < n; i++ {
				if strictEq(recv[i], nd) {
					return i
				}
			}
			return -1
		}
		out = append(out, arrCase("indexOf", "no-from", recv, mLit(nd), find(0), recv))
		out = append(out, arrCase("includes", "no-from", recv, mLit(nd), find(0) >= 0, recv))
		for _, f := range uniq64(idxPool(n)) {
			fr := relIndex(f, n)
			out = append(out, arrCase("indexOf", "from:"+idxShape(f, n), recv, mLit(nd)+", "+mLit(f), find(fr), recv))
			out = append(out, arrCase("includes", "from:"+idxShape(f, n), recv, mLit(nd)+", "+mLit(f), find(fr) >= 0, recv))
		}
	}
	// flat / length
	out = append(out, arrCase("flat", "default-depth", recv, "", flatten(recv, 1), recv))
	out = append(out, arrCase("flat", "depth0", recv, "0", flatten(recv, 0), recv))
	out = append(out, arrCase("flat", "depth2", recv, "2", flatten(recv, 2), recv))
	lenSrc := fmt.Sprintf("<?php\n$a = %s;\ntry { __obs(\"r\", $a->length); } catch (Throwable $e) { __obs(\"!r\", $e->getMessage()); }\n__obs(\"after\", $a);\n", mLit(recv))
	out = append(out, c15Case{Method: "length", Shape: "property", Src: lenSrc, Ret: mSnap(n), After: mSnap(recv)})
	// callbacks (int receivers)
	if allInt {
		ints := make([]int64, n)
		for i, e := range recv {
			ints[i] = e.(int64)
		}
		type cb struct {
			shape, src string
			pred       func(e, i int64) bool
		}
		preds := []cb{
			{"element", "function($e) { return $e % 2 == 0; }", func(e, i int64) bool { return e%2 == 0 }},
			{"element+index", "function($e, $i) { return $i >= 1 && $e > 1; }", func(e, i int64) bool { return i >= 1 && e > 1 }},
			{"element+index+array", "function($e, $i, $arr) { return $arr->length > 2 && $e >= 2; }", func(e, i int64) bool { return n > 2 && e >= 2 }},
			// the third argument is the array the method was called on, whole and unchanged, at every call
			{"array-first-element", "function($e, $i, $arr) { return $e != $arr[0]; }", func(e, i int64) bool { return e != ints[0] }},
			{"array-previous-element", "function($e, $i, $arr) { return $i == 0 || $e != $arr[$i - 1]; }", func(e, i int64) bool { return i == 0 || e != ints[i-1] }},
			{"array-last-element", "function($e, $i, $arr) { return $e < $arr[$arr->length - 1]; }", func(e, i int64) bool { return e < ints[len(ints)-1] }},
		}
		for _, p := range preds {
			var filt []any
			findV, findI := any(nil), int64(-1)
			every, some := true, false
			for i, e := range ints {
				ok := p.pred(e, int64(i))
				if ok {
					filt = append(filt, e)
					if findI < 0 {
						findV, findI = e, int64(i)
					}
					some = true
				} else {
					every = false
				}
			}
			if filt == nil {
				filt = []any{}
			}
			out = append(out, arrCase("filter", "cb:"+p.shape, recv, p.src, filt, recv))
			out = append(out, arrCase("find", "cb:"+p.shape, recv, p.src, findV, recv))
			out = append(out, arrCase("findIndex", "cb:"+p.shape, recv, p.src, findI, recv))
			out = append(out, arrCase("every", "cb:"+p.shape, recv, p.src, every, recv))
			out = append(out, arrCase("some", "cb:"+p.shape, recv, p.src, some, recv))
		}
		var m1, m2, fm []any
		sum := int64(0)
		for i, e := range ints {
			m1 = append(m1, e*2)
			m2 = append(m2, e+int64(i))
			fm = append(fm, e, e*2)
			sum += e
		}
		for _, l := range []*[]any{&m1, &m2, &fm} {
			if *l == nil {
				*l = []any{}
			}
		}
		out = append(out, arrCase("map", "cb:element", recv, "function($e) { return $e * 2; }", m1, recv))
		out = append(out, arrCase("map", "cb:element+index", recv, "function($e, $i) { return $e + $i; }", m2, recv))
		out = append(out, arrCase("flatMap", "cb:element", recv, "function($e) { return [$e, $e * 2]; }", fm, recv))
		// flatMap flattens exactly one level: what the callback nests deeper stays nested
		var fm2, fm3 []any
		for _, v := range recv {
			e := v.(int64)
			fm2 = append(fm2, []any{e, e * 10})
			fm3 = append(fm3, e, []any{e})
		}
		if fm2 == nil {
			fm2, fm3 = []any{}, []any{}
		}
		out = append(out, arrCase("flatMap", "cb:returns-nested", recv, "function($e) { return [[$e, $e * 10]]; }", fm2, recv))
		out = append(out, arrCase("flatMap", "cb:returns-mixed-depth", recv, "function($e) { return [$e, [$e]]; }", fm3, recv))
		out = append(out, arrCase("reduce", "with-initial", recv, "function($acc, $cur) { return $acc + $cur; }, 100", 100+sum, recv))
		if n > 0 {
			out = append(out, arrCase("reduce", "no-initial", recv, "function($acc, $cur) { return $acc + $cur; }", sum, recv))
		}
		// forEach: order of visits observed through the sink
		var each []string
		for i, e := range ints {
			each = append(each, fmt.Sprintf("%d:%d", i, e))
		}
		feSrc := fmt.Sprintf("<?php\n$a = %s;\ntry { $a->forEach(function($e, $i) { __obs(\"each\", $i . ':' . $e); }); __obs(\"r\", null); } catch (Throwable $e) { __obs(\"!r\", $e->getMessage()); }\n__obs(\"after\", $a);\n", mLit(recv))
		out = append(out, c15Case{Method: "forEach", Shape: "cb:element+index", Src: feSrc, Ret: "n", NoRet: true, After: mSnap(recv), Each: strings.Join(each, "|")})
	}
	return out
}

func strCase(method, shape, recv, args string, ret any) c15Case {
	src := fmt.Sprintf("<?php\n$a = %s;\ntry { $r = $a->%s(%s); __obs(\"r\", $r); } catch (Throwable $e) { __obs(\"!r\", $e->getMessage()); }\n__obs(\"after\", $a);\n", mLit(recv), method, args)
	return c15Case{Method: "str." + method, Shape: shape, Src: src, Ret: mSnap(ret), After: mSnap(recv)}
}

func jsSubstring(s string, a, b int64) string {
	n := int64(len(s))
	clamp := func(x int64) int64 {
		if x < 0 {
			return 0
		}
		if x > n {
			return n
		}
		return x
	}
	a, b = clamp(a), clamp(b)
	if a > b {
		a, b = b, a
	}
	return s[a:b]
}

func c15StringCases(recv string) []c15Case {
	var out []c15Case
	ascii := utf8.RuneCountInString(recv) == len(recv)
	n := int64(len(recv))
	needles := []string{"", "a", "b", "ab", " ", "é", "世", "zz"}
	if ascii {
		out = append(out, strCase("length", "method", recv, "", n))
		lenSrc := fmt.Sprintf("<?php\n$a = %s;\ntry { __obs(\"r\", $a->length); } catch (Throwable $e) { __obs(\"!r\", $e->getMessage()); }\n__obs(\"after\", $a);\n", mLit(recv))
		out = append(out, c15Case{Method: "str.length", Shape: "property", Src: lenSrc, Ret: mSnap(n), After: mSnap(recv)})
		for _, nd := range needles {
			if utf8.RuneCountInString(nd) != len(nd) {
				continue
			}
			sh := "found"
			if !strings.Contains(recv, nd) {
				sh = "missing"
			}
			if nd == "" {
				sh = "empty-needle"
			}
			out = append(out, strCase("indexOf", sh, recv, mLit(nd), int64(strings.Index(recv, nd))))
		}
		for _, s := range uniq64(idxPool(n)) {
			out = append(out, strCase("substring", "start-only:"+idxShape(s, n), recv, mLit(s), jsSubstring(recv, s, n)))
			for _, e := range uniq64(idxPool(n)) {
				cs, ce := s, e
				if cs < 0 {
					cs = 0
				}
				if ce < 0 {
					ce = 0
				}
				if cs > n {
					cs = n
				}
				if ce > n {
					ce = n
				}
				if cs > ce {
					continue // start > end: JavaScript swaps the arguments, the docs do not say; not asserted
				}
				out = append(out, strCase("substring", "start+end:"+idxShape(s, n)+","+idxShape(e, n), recv, mLit(s)+", "+mLit(e), jsSubstring(recv, s, e)))
			}
		}
	}
	for _, nd := range needles {
		sh := "ascii"
		if utf8.RuneCountInString(nd) != len(nd) || !ascii {
			sh = "non-ascii"
		}
		if nd == "" {
			sh = "empty-needle"
		}
		out = append(out, strCase("startsWith", sh, recv, mLit(nd), strings.HasPrefix(recv, nd)))
		out = append(out, strCase("endsWith", sh, recv, mLit(nd), strings.HasSuffix(recv, nd)))
		if nd != "" {
			out = append(out, strCase("replace", sh, recv, mLit(nd)+", 'X'", strings.ReplaceAll(recv, nd, "X")))
			var parts []any
			for _, p := range strings.Split(recv, nd) {
				parts = append(parts, p)
			}
			out = append(out, strCase("split", "separator:"+sh, recv, mLit(nd), parts))
		}
	}
	var dparts []any
	for _, p := range strings.Split(recv, " ") {
		dparts = append(dparts, p)
	}
	if recv != "" && !strings.HasPrefix(recv, " ") && !strings.HasSuffix(recv, " ") && !strings.Contains(recv, "  ") {
		// the docs only show single inner spaces; empty fields from leading / trailing / double spaces are not asserted
		out = append(out, strCase("split", "default-separator", recv, "", dparts))
	}
	out = append(out, strCase("trim", "default", recv, "", strings.TrimSpace(recv)))
	out = append(out, strCase("toUpperCase", map[bool]string{true: "ascii", false: "non-ascii"}[ascii], recv, "", strings.ToUpper(recv)))
	out = append(out, strCase("toLowerCase", map[bool]string{true: "ascii", false: "non-ascii"}[ascii], recv, "", strings.ToLower(recv)))
	return out
}

func c15Judge(pool *sb.Pool, rec *sb.Rec, c c15Case) []*failure {
	rep := pool.Exec(&sb.Req{Kind: "script", Src: c.Src, Tmpl: true, Run: true})
	rec.Eval()
	if rep.Outcome == sb.Infra {
		rec.InfraProblem("%s", rep.Msg)
		return nil
	}
	cell := fmt.Sprintf("cell:%s:%s", c.Method, c.Shape)
	var out []*failure
	mk := func(cl, d string) {
		out = append(out, &failure{Key: cell + ":" + cl, Detail: fmt.Sprintf("%s(%s): %s\n%s", c.Method, c.Shape, d, c.Src), Case: c})
	}
	if rep.Outcome != sb.OK {
		mk("crash", fmt.Sprintf("%s at %s: %s", rep.Outcome, rep.Site, clip(rep.Msg, 160)))
		return out
	}
	o := parseObs(rep.Obs)
	if e, bad := o["!r"]; bad {
		if strings.Contains(e, sb.RecoveredPanicMarker) {
			mk("crash", "Go panic: "+clip(firstLine(e), 160))
		} else {
			mk("error", "raised "+clip(e, 160))
		}
		return out
	}
	if !c.NoRet {
		if got := normSnap(o["r"]); got != c.Ret {
			mk("ret", fmt.Sprintf("returned %s, documented result %s", clip(got, 200), clip(c.Ret, 200)))
		}
	}
	if got := normSnap(o["after"]); got != c.After {
		mk("receiver", fmt.Sprintf("receiver afterwards is %s, should be %s", clip(got, 200), clip(c.After, 200)))
	}
	if c.Each != "" || c.Method == "forEach" {
		var seen []string
		for _, ob := range rep.Obs {
			if strings.HasPrefix(ob, "each=") {
				if u, ok := unq(strings.TrimPrefix(ob, "each=")); ok {
					seen = append(seen, u)
				}
			}
		}
		if strings.Join(seen, "|") != c.Each {
			mk("ret", fmt.Sprintf("callback visits %q, expected %q", strings.Join(seen, "|"), c.Each))
		}
	}
	return out
}

// c15History: metamorphic relation "same elements, different history => same outcome": the call on a
// receiver prepared by earlier mutations must return and leave behind exactly what it does on a literal.
func c15History(pool *sb.Pool, rec *sb.Rec, c c15Case, prep string) *failure {
	ps, ok := c.Preps[prep]
	if !ok {
		return nil
	}
	obsOf := func(src string) (string, bool) {
		rep := pool.Exec(&sb.Req{Kind: "script", Src: src, Tmpl: true, Run: true})
		rec.Eval()
		if rep.Outcome != sb.OK {
			return "outcome=" + rep.Outcome, rep.Outcome != sb.Infra
		}
		o := parseObs(rep.Obs)
		e := o["!r"]
		if e != "" {
			e = "raised"
		}
		return fmt.Sprintf("r=%s after=%s err=%s", normSnap(o["r"]), normSnap(o["after"]), e), true
	}
	lit, ok1 := obsOf(c.Src)
	pre, ok2 := obsOf(ps)
	if !ok1 || !ok2 {
		rec.InfraProblem("history run: infra")
		return nil
	}
	rec.Label("history:"+prep, "")
	if lit == pre {
		return nil
	}
	return &failure{Key: fmt.Sprintf("cell:%s:history:%s", c.Method, prep), Detail: fmt.Sprintf("%s(%s) on a receiver that was %s before differs from the same call on a literal with the same elements:\n  literal : %s\n  prepared: %s\n%s", c.Method, c.Shape, prep, clip(lit, 300), clip(pre, 300), ps), Case: c}
}

func c15Receivers() [][]any {
	return [][]any{
		{},
		{int64(1)},
		{int64(1), int64(2)},
		{int64(1), int64(2), int64(3)},
		{int64(3), int64(1), int64(2), int64(10)},
		{"b", "a"},
		{"a", "b", "a", "c"},
		{int64(2), "b", int64(2)},
		{int64(1), []any{int64(2), int64(3)}, []any{int64(4), []any{int64(5), int64(6)}}},
	}
}

// receivers for trim(): the white space JavaScript's trim strips (and NUL, which it does not)
var c15TrimStrings = []string{"\x0cab\x0c", "\u00a0ab\u00a0", "\u3000ab", "ab\u3000\u00a0", "\x00ab\x00", "\tab\n", "\vab\v", "\r\n a b \r\n", "\u2028ab\u2029", "\x00 ab"}

func jsTrim(s string) string {
	return strings.Trim(s, " \t\n\v\f\r\u00a0\u3000\u2028\u2029")
}

var c15Strings = []string{"", "a", "ab", "a b", " ab ", "abab", "ba b a", "aé", "世a世", "é b"}

func TestC15(t *testing.T) {
	cfg := sb.LoadConfig("C15")
	rec := sb.NewRec(cfg)
	defer rec.Flush()
	rec.R.Rule = "complete enumeration of (method) x (receiver: lists of length 0..4 over ints, strings and nested lists; strings of length 0..6 over {a, b, space, e-acute, CJK}) x (argument tuples: each optional omitted / given, indexes from {-len-1, -len, -1, 0, 1, len-1, len, len+1}, 0..3 variadic items of mixed kinds, callbacks using element / index / array, reduce with and without initial value); rapid adds longer random receivers. Two observations per case: return value and receiver afterwards; array cases are repeated on a receiver with the same elements but a history (extra element popped or shifted off, elements pushed one by one) and must give the same outcome as on the literal. Non-trivial = an optional argument is omitted, an index is negative or >= len, or the variadic count is not 1; distinct by (method, receiver, arguments)."
	pool := &sb.Pool{}
	defer pool.Close()
	dl := time.Now().Add(budget(cfg, 60, 700))
	if cfg.Replay != "" {
		rf, err := sb.LoadReplay(cfg.Replay)
		if err != nil {
			rec.InfraProblem("replay: %v", err)
			return
		}
		var c c15Case
		json.Unmarshal(rf.Case, &c)
		rec.NonTrivial(c.Src)
		rec.NonTrivial(c.Src, "r")
		if i := strings.Index(rf.Key, ":history:"); i >= 0 {
			if f := c15History(pool, rec, c, rf.Key[i+len(":history:"):]); f != nil {
				rec.Fail(f.Key, f.Detail, f.Case)
			}
			return
		}
		for _, f := range c15Judge(pool, rec, c) {
			if f.Key == rf.Key {
				rec.Fail(f.Key, f.Detail, f.Case)
			}
		}
		return
	}
	idx := 0
	run := func(c c15Case) {
		idx++
		if !cfg.Mine(idx) {
			return
		}
		nt := strings.Contains(c.Shape, "neg") || strings.Contains(c.Shape, "len") || strings.Contains(c.Shape, "no-") || strings.Contains(c.Shape, "default") || strings.Contains(c.Shape, "only") || strings.Contains(c.Shape, "variadic0") || strings.Contains(c.Shape, "variadic2") || strings.Contains(c.Shape, "variadic3") || strings.Contains(c.Shape, "items0") || strings.Contains(c.Shape, "items2")
		if nt {
			rec.NonTrivial(c.Src)
		}
		rec.Label("method:"+c.Method, c.Src)
		for _, f := range c15Judge(pool, rec, c) {
			rec.Fail(f.Key, f.Detail, f.Case)
		}
		if c.Preps != nil && (cfg.Thorough() || idx%3 == 0) {
			prep := []string{"popped", "pushed", "shifted"}[(idx/3)%3]
			if f := c15History(pool, rec, c, prep); f != nil {
				rec.Fail(f.Key, f.Detail, f.Case)
			}
		}
	}
	for _, r := range c15Receivers() {
		for _, c := range c15ArrayCases(r) {
			run(c)
		}
	}
	for _, s := range c15Strings {
		for _, c := range c15StringCases(s) {
			run(c)
		}
	}
	for _, ts := range c15TrimStrings {
		run(strCase("trim", "unicode-space-or-nul", ts, "", jsTrim(ts)))
	}
	rec.R.Exhaustive = true
	rec.Flush()
	total := 400 / cfg.NShards
	if cfg.Thorough() {
		total = 20000 / cfg.NShards
	}
	if total < 1 {
		total = 1
	}
	rapidLoop(t, rec, "random", total, 20, dl, func(rt *rapid.T) *failure {
		var cases []c15Case
		if rapid.Bool().Draw(rt, "arr") {
			n := rapid.IntRange(0, 8).Draw(rt, "len")
			recv := make([]any, n)
			kind := rapid.IntRange(0, 2).Draw(rt, "kind")
			for i := range recv {
				switch kind {
				case 0:
					recv[i] = int64(rapid.IntRange(-5, 20).Draw(rt, "iv"))
				case 1:
					recv[i] = rapid.SampledFrom([]string{"a", "b", "ab", "", "c d"}).Draw(rt, "sv")
				default:
					if rapid.Bool().Draw(rt, "mix") {
						recv[i] = int64(rapid.IntRange(0, 9).Draw(rt, "miv"))
					} else {
						recv[i] = rapid.SampledFrom([]string{"a", "b", "zz"}).Draw(rt, "msv")
					}
				}
			}
			cases = c15ArrayCases(recv)
		} else {
			cases = c15StringCases(rapid.StringMatching(`[ab é世]{0,12}`).Draw(rt, "str"))
		}
		for _, c := range cases {
			rec.NonTrivial(c.Src)
			for _, f := range c15Judge(pool, rec, c) {
				if !rec.IsKnown(f.Key) {
					return f
				}
				rec.Fail(f.Key, f.Detail, f.Case)
			}
		}
		rec.Label("random-receiver", "")
		return nil
	})
}
