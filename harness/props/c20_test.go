package props

import (
	"encoding/json"
	"fmt"
	"os"
	"os/exec"
	"path/filepath"
	"regexp"
	"sort"
	"strings"
	"syscall"
	"testing"
	"time"

	"github.com/php-any/origami/data"
	"github.com/php-any/origami/parser"
	"github.com/php-any/origami/runtime"
	"github.com/php-any/origami/std"
	"github.com/php-any/origami/std/php"
	"pgregory.net/rapid"
	"verifharness/pgen"
	"verifharness/sb"
)

// ---------------------------------------------------------------------------
// C20 — sequential programs are deterministic and leave nothing behind for the next VM.
// ---------------------------------------------------------------------------

func init() {
	sb.Register("seq", seqHandler)
	sb.Assume("C20",
		"repetition oracle: the same program run k times in fresh processes of the CLI built from /repo and k times on fresh VMs inside one worker process must give byte-identical stdout, stderr (absolute scratch paths normalised) and exit status; k = 6 (quick) / 21 (thorough): a two-way order dependence that flips with probability 1/2 per run survives 21 identical runs with probability 2^-20",
		"enumeration-order oracle: declared properties of a class without a parent enumerate in declaration order, dynamic properties and keyed entries in insertion order, through foreach and json_encode (the generator knows the order; get_object_vars does not exist in origami); classes with a parent are checked for run-to-run stability only",
		"residue oracle: the output of program B on a fresh VM after program A ran on another fresh VM in the same process must equal B's output when run first; A is drawn to leave state behind (classes, functions, constants, statics, output buffering, exception handler, superglobal writes)",
		"corpus files take part only when a static scan of call names finds no time / random / pid / memory / sleep / spawn / network / filesystem-write / exec / logging (timestamps) / include API: decided before any run, never by running twice",
	)
}

type seqCfg struct {
	Scripts []string `json:"scripts"`
	Loads   string   `json:"loads"`
	// Entry: run each script the way an embedding host does: a brand-new parser + VM, vm.LoadAndRun(file),
	// the parser's own diagnostic printer, nothing reset by the harness; stdout through data.WriteOutput,
	// the process's stderr captured around each script
	Entry bool `json:"entry,omitempty"`
}

type seqOut struct {
	Outs []string `json:"outs"`
}

func seqHandler(req *sb.Req) *sb.Rep {
	var cfg seqCfg
	if err := json.Unmarshal(req.Data, &cfg); err != nil {
		return &sb.Rep{Outcome: sb.Infra, Msg: err.Error()}
	}
	defer func() { data.WriteOutput = data.DefaultOutputWriter }()
	var out seqOut
	if cfg.Entry {
		for i, src := range cfg.Scripts {
			_ = i
			// the file name is part of every diagnostic: name it after the program, not after its position
			path := filepath.Join(sb.WorkerTmp, fmt.Sprintf("entry_%016x.php", sb.Hash64(src)))
			os.WriteFile(path, []byte(src), 0o644)
			out.Outs = append(out.Outs, strings.ReplaceAll(runEntry(path), sb.WorkerTmp, "<tmp>"))
		}
		b, _ := json.Marshal(&out)
		return &sb.Rep{Outcome: sb.OK, Data: b}
	}
	for i, src := range cfg.Scripts {
		e := sb.NewScriptEnv(cfg.Loads)
		path := filepath.Join(sb.WorkerTmp, fmt.Sprintf("seq_%d.php", i))
		os.WriteFile(path, []byte(src), 0o644)
		res := ""
		func() {
			defer func() {
				if r := recover(); r != nil {
					msg := fmt.Sprint(r)
					if c, ok := r.(data.Control); ok {
						msg = c.AsString()
					}
					res = e.Out.String() + "\n[[go-panic: " + clip(firstLine(msg), 200) + "]]"
				}
			}()
			prog, acl := e.P.ParseFile(path)
			if acl != nil {
				res = "[[parse-error: " + clip(acl.AsString(), 300) + "]]"
				return
			}
			ctx := e.VM.CreateContext(e.P.GetVariables())
			_, c := prog.GetValue(ctx)
			if data.FlushAllBuffersFn != nil {
				data.FlushAllBuffersFn()
			}
			res = e.Out.String()
			if c != nil && e.Thrown == nil {
				e.Thrown = c
			}
			if e.Thrown != nil {
				res += "\n[[uncaught: " + clip(e.Thrown.AsString(), 300) + "]]"
			}
		}()
		out.Outs = append(out.Outs, strings.ReplaceAll(res, sb.WorkerTmp, "<tmp>"))
	}
	b, _ := json.Marshal(&out)
	return &sb.Rep{Outcome: sb.OK, Data: b}
}

// runEntry runs one file on a fresh VM through the production entry point and returns stdout plus
// whatever the run wrote to the process's stderr.
func runEntry(path string) (res string) {
	// stdout and stderr of the process are redirected around the run; the interpreter's own default
	// output writer stays in place (it is what records that a program has printed something)
	data.WriteOutput = data.DefaultOutputWriter
	outFile, err := os.CreateTemp(sb.WorkerTmp, "stdout-")
	if err != nil {
		return "[[infra: " + err.Error() + "]]"
	}
	errFile, err := os.CreateTemp(sb.WorkerTmp, "stderr-")
	if err != nil {
		return "[[infra: " + err.Error() + "]]"
	}
	defer os.Remove(outFile.Name())
	defer os.Remove(errFile.Name())
	os.Stdout.Sync()
	saved1, _ := syscall.Dup(1)
	saved2, _ := syscall.Dup(2)
	syscall.Dup2(int(outFile.Fd()), 1)
	syscall.Dup2(int(errFile.Fd()), 2)
	restored := false
	restore := func() (string, string) {
		if !restored {
			restored = true
			os.Stdout.Sync()
			syscall.Dup2(saved1, 1)
			syscall.Dup2(saved2, 2)
			syscall.Close(saved1)
			syscall.Close(saved2)
			outFile.Close()
			errFile.Close()
		}
		o, _ := os.ReadFile(outFile.Name())
		e, _ := os.ReadFile(errFile.Name())
		return string(o), string(e)
	}
	defer func() {
		if r := recover(); r != nil {
			msg := fmt.Sprint(r)
			if c, ok := r.(data.Control); ok {
				msg = c.AsString()
			}
			o, e := restore()
			res = o + "\n[[stderr: " + e + "]]\n[[go-panic: " + clip(firstLine(msg), 200) + "]]"
		}
	}()
	p := parser.NewParser()
	vm := runtime.NewVM(p)
	std.Load(vm)
	php.Load(vm)
	// the default handler prints the diagnostic and exits the process; keep the printing, drop the exit
	if rvm, ok := vm.(*runtime.VM); ok {
		rvm.SetThrowControl(func(acl data.Control) { p.ShowControl(acl) })
	}
	_, c := vm.LoadAndRun(path)
	if c != nil {
		p.ShowControl(c)
	}
	if data.FlushAllBuffersFn != nil {
		data.FlushAllBuffersFn()
	}
	o, e := restore()
	return o + "\n[[stderr: " + e + "]]"
}

func seqRunEntry(pool *sb.Pool, scripts []string) ([]string, *sb.Rep) {
	b, _ := json.Marshal(seqCfg{Scripts: scripts, Entry: true})
	rep := pool.Exec(&sb.Req{Kind: "seq", Data: b, DeadlineMs: 60000})
	if rep.Outcome != sb.OK {
		return nil, &rep
	}
	var out seqOut
	json.Unmarshal(rep.Data, &out)
	return out.Outs, &rep
}

// ---- class / enumeration-order programs ----

type cprog struct {
	Src      string
	Expected string // "" = order not asserted (only repetition)
	Classes  int
	Entries  int
	Labels   []string // keyed-ops program: what each expected line shows
}

var propNames = []string{"z", "a", "m", "b", "y", "k", "Q", "c9", "x_1", "d"}

// genKeyedOpsProgram: library functions over string-keyed arrays built by literals; the result of each
// is printed as keys=values and must come out in the order PHP defines (insertion order of the
// operands), on every run.
func genKeyedOpsProgram(rt *rapid.T) cprog {
	type kv struct {
		k string
		v int
	}
	pool := []string{"z", "k", "y", "x", "w", "v", "alpha", "B", "m2", "q"}
	mk := func(label string, lo, hi int) []kv {
		n := rapid.IntRange(lo, hi).Draw(rt, label+"n")
		ks := rapid.Permutation(pool).Draw(rt, label+"perm")[:n]
		out := make([]kv, n)
		for i, k := range ks {
			out[i] = kv{k, rapid.IntRange(1, 6).Draw(rt, label+"v")}
		}
		return out
	}
	lit := func(a []kv) string {
		var ps []string
		for _, e := range a {
			ps = append(ps, fmt.Sprintf("'%s' => %d", e.k, e.v))
		}
		return "[" + strings.Join(ps, ", ") + "]"
	}
	show := func(a []kv) string {
		var ks, vs []string
		for _, e := range a {
			ks = append(ks, e.k)
			vs = append(vs, fmt.Sprint(e.v))
		}
		return strings.Join(ks, ",") + "=" + strings.Join(vs, ",") + "\n"
	}
	idx := func(a []kv, k string) int {
		for i, e := range a {
			if e.k == k {
				return i
			}
		}
		return -1
	}
	A, B := mk("a", 2, 7), mk("b", 2, 7)
	var sb, exp strings.Builder
	sb.WriteString("<?php\nfunction show($r) { echo implode(',', array_keys($r)), '=', implode(',', array_values($r)), \"\\n\"; }\n")
	fmt.Fprintf(&sb, "$a = %s;\n$b = %s;\n", lit(A), lit(B))
	// array_merge / array_replace: A's order, B's values win, B's new keys appended in B's order
	merged := append([]kv{}, A...)
	for _, e := range B {
		if i := idx(merged, e.k); i >= 0 {
			merged[i].v = e.v
		} else {
			merged = append(merged, e)
		}
	}
	sb.WriteString("show(array_merge($a, $b));\nshow(array_replace($a, $b));\n")
	exp.WriteString(show(merged) + show(merged))
	// union: A's entries win
	union := append([]kv{}, A...)
	for _, e := range B {
		if idx(union, e.k) < 0 {
			union = append(union, e)
		}
	}
	sb.WriteString("show($a + $b);\n")
	exp.WriteString(show(union))
	// array_values / array_keys / foreach
	sb.WriteString("echo implode(',', array_values($b)), \"\\n\";\nforeach ($b as $k => $v) { echo $k, ':', $v, ';'; }\necho \"\\n\";\n")
	var vs, fe []string
	for _, e := range B {
		vs = append(vs, fmt.Sprint(e.v))
		fe = append(fe, fmt.Sprintf("%s:%d;", e.k, e.v))
	}
	exp.WriteString(strings.Join(vs, ",") + "\n" + strings.Join(fe, "") + "\n")
	// array_slice with preserved keys
	off := rapid.IntRange(0, len(A)-1).Draw(rt, "off")
	ln := rapid.IntRange(1, len(A)).Draw(rt, "len")
	end := off + ln
	if end > len(A) {
		end = len(A)
	}
	fmt.Fprintf(&sb, "show(array_slice($a, %d, %d, true));\n", off, ln)
	exp.WriteString(show(A[off:end]))
	// array_unique: the first entry of each value stays
	var uq []kv
	seen := map[int]bool{}
	for _, e := range merged {
		if !seen[e.v] {
			seen[e.v] = true
			uq = append(uq, e)
		}
	}
	sb.WriteString("show(array_unique(array_merge($a, $b)));\n")
	exp.WriteString(show(uq))
	// array_filter keeps keys and order
	th := rapid.IntRange(1, 5).Draw(rt, "th")
	var fl []kv
	for _, e := range union {
		if e.v > th {
			fl = append(fl, e)
		}
	}
	fmt.Fprintf(&sb, "show(array_filter($a + $b, function ($v) { return $v > %d; }));\n", th)
	exp.WriteString(show(fl))
	labels := []string{"array_merge", "array_replace", "union", "array_values", "foreach", "array_slice", "array_unique", "array_filter"}
	// unset of an entry (first, middle or last), enumeration, then the key set again: it goes to the end
	c := append([]kv{}, merged...)
	for round := 0; round < 2 && len(c) > 1; round++ {
		at := rapid.IntRange(0, len(c)-1).Draw(rt, "unsetAt")
		gone := c[at]
		c = append(append([]kv{}, c[:at]...), c[at+1:]...)
		if round == 0 {
			sb.WriteString("$c = array_merge($a, $b);\n")
		}
		fmt.Fprintf(&sb, "unset($c['%s']);\nshow($c);\n", gone.k)
		exp.WriteString(show(c))
		labels = append(labels, "unset")
		if rapid.Bool().Draw(rt, "readd") {
			c = append(c, kv{gone.k, 9})
			fmt.Fprintf(&sb, "$c['%s'] = 9;\nshow($c);\nforeach ($c as $k => $v) { echo $k, ':', $v, ';'; }\necho \"\\n\";\n", gone.k)
			var fe2 []string
			for _, e := range c {
				fe2 = append(fe2, fmt.Sprintf("%s:%d;", e.k, e.v))
			}
			exp.WriteString(show(c) + strings.Join(fe2, "") + "\n")
			labels = append(labels, "set-after-unset", "foreach-after-unset")
		}
	}
	// dynamic properties of an object: set in order, one of them overwritten later (it keeps its place).
	// (unset($o->p) stores null instead of removing the property - a matter of unset, not of order - so no
	// property is unset here.)
	o := append([]kv{}, A...)
	sb.WriteString("$o = new stdClass();\n")
	for _, e := range o {
		fmt.Fprintf(&sb, "$o->%s = %d;\n", e.k, e.v)
	}
	if len(o) > 1 {
		at := rapid.IntRange(0, len(o)-1).Draw(rt, "oAt")
		o[at].v = 8
		fmt.Fprintf(&sb, "$o->%s = 8;\n", o[at].k)
	}
	sb.WriteString("foreach ($o as $k => $v) { echo $k, ':', $v, ';'; }\necho \"\\n\", json_encode($o), \"\\n\";\n")
	var ofe, ojs []string
	for _, e := range o {
		ofe = append(ofe, fmt.Sprintf("%s:%d;", e.k, e.v))
		ojs = append(ojs, fmt.Sprintf("%q:%d", e.k, e.v))
	}
	exp.WriteString(strings.Join(ofe, "") + "\n{" + strings.Join(ojs, ",") + "}\n")
	labels = append(labels, "object-foreach", "object-json_encode")
	// decoding keeps document order (both modes), encoding keeps insertion order
	var djs []string
	for _, e := range B {
		djs = append(djs, fmt.Sprintf("%q:%d", e.k, e.v))
	}
	doc := "{" + strings.Join(djs, ",") + "}"
	fmt.Fprintf(&sb, "$doc = '%s';\nshow(json_decode($doc, true));\nforeach (json_decode($doc) as $k => $v) { echo $k, ':', $v, ';'; }\necho \"\\n\", json_encode(json_decode($doc)), \"\\n\", json_encode($b), \"\\n\";\n", doc)
	exp.WriteString(show(B) + strings.Join(fe, "") + "\n" + doc + "\n" + doc + "\n")
	labels = append(labels, "json_decode-assoc", "json_decode-object-foreach", "json_decode-object-reencode", "json_encode")
	// more library calls that build keyed arrays
	var keysA []string
	for _, e := range A {
		keysA = append(keysA, "'"+e.k+"'")
	}
	fill := make([]kv, len(A))
	for i, e := range A {
		fill[i] = kv{e.k, 0}
	}
	fmt.Fprintf(&sb, "show(array_fill_keys([%s], 0));\nshow(array_combine(array_keys($a), array_values($a)));\n", strings.Join(keysA, ", "))
	exp.WriteString(show(fill) + show(A))
	labels = append(labels, "array_fill_keys", "array_combine")
	flipped := make([]kv, len(A))
	for i, e := range A {
		flipped[i] = kv{e.k, i}
	}
	sb.WriteString("show(array_flip(array_keys($a)));\n")
	exp.WriteString(show(flipped))
	labels = append(labels, "array_flip")
	// methods of a class as reflection lists them: declaration order
	sb.WriteString("class Rk {")
	var mnames []string
	for _, e := range A {
		fmt.Fprintf(&sb, " function m_%s() { return %d; }", e.k, e.v)
		mnames = append(mnames, "m_"+e.k)
	}
	sb.WriteString(" }\necho implode(',', (new ReflectionClass('Rk'))->getMethods()), \"\\n\";\n")
	exp.WriteString(strings.Join(mnames, ",") + "\n")
	labels = append(labels, "reflection-getMethods")
	return cprog{Src: sb.String(), Expected: exp.String(), Classes: 0, Entries: len(merged), Labels: labels}
}

func genClassProgram(rt *rapid.T) cprog {
	var sb, exp strings.Builder
	sb.WriteString("<?php\n")
	ncls := rapid.IntRange(1, 3).Draw(rt, "ncls")
	inherit := ncls >= 2 && rapid.IntRange(0, 2).Draw(rt, "inherit") == 0
	type cls struct {
		name  string
		props []string
	}
	var classes []cls
	maxEntries := 0
	for c := 0; c < ncls; c++ {
		names := rapid.Permutation(propNames).Draw(rt, "perm")
		n := rapid.IntRange(1, 6).Draw(rt, "nprops")
		cl := cls{name: fmt.Sprintf("Kz%d", c), props: names[:n]}
		fmt.Fprintf(&sb, "class %s", cl.name)
		if inherit && c == ncls-1 {
			fmt.Fprintf(&sb, " extends %s", classes[0].name)
		}
		sb.WriteString(" {\n")
		for i, p := range cl.props {
			if inherit && c == ncls-1 {
				// avoid redeclaring a parent's property
				dup := false
				for _, q := range classes[0].props {
					if q == p {
						dup = true
					}
				}
				if dup {
					continue
				}
			}
			fmt.Fprintf(&sb, "    public $%s = %d;\n", p, i+1)
		}
		fmt.Fprintf(&sb, "    function id() { return '%s'; }\n}\n", cl.name)
		classes = append(classes, cl)
	}
	assertOrder := true
	for c, cl := range classes {
		inheriting := inherit && c == ncls-1
		fmt.Fprintf(&sb, "$o%d = new %s();\n", c, cl.name)
		// dynamic properties in a drawn order
		nd := rapid.IntRange(0, 3).Draw(rt, "ndyn")
		var order []string
		vals := map[string]int{}
		if !inheriting {
			for i, p := range cl.props {
				order = append(order, p)
				vals[p] = i + 1
			}
		}
		for d := 0; d < nd; d++ {
			name := fmt.Sprintf("dyn%s", rapid.SampledFrom([]string{"B", "a", "Z", "m"}).Draw(rt, "dn"))
			if _, dup := vals[name]; dup {
				continue
			}
			fmt.Fprintf(&sb, "$o%d->%s = %d;\n", c, name, 100+d)
			order = append(order, name)
			vals[name] = 100 + d
		}
		fmt.Fprintf(&sb, "foreach ($o%d as $k => $v) { echo $k, '=', $v, ';'; }\necho \"\\n\";\n", c)
		fmt.Fprintf(&sb, "echo json_encode($o%d), \"\\n\";\n", c)
		// a clone enumerates like its original, plus what is added to it afterwards
		cloned := rapid.IntRange(0, 1).Draw(rt, "clone") == 0
		if cloned {
			fmt.Fprintf(&sb, "$c%d = clone $o%d;\n$c%d->late = 7;\n", c, c, c)
			fmt.Fprintf(&sb, "foreach ($c%d as $k => $v) { echo $k, '=', $v, ';'; }\necho \"\\n\";\n", c)
			fmt.Fprintf(&sb, "echo json_encode($c%d), \"\\n\";\n", c)
		}
		if inheriting {
			assertOrder = false
		} else {
			var kv, js []string
			for _, k := range order {
				kv = append(kv, fmt.Sprintf("%s=%d;", k, vals[k]))
				js = append(js, fmt.Sprintf("%q:%d", k, vals[k]))
			}
			exp.WriteString(strings.Join(kv, "") + "\n{" + strings.Join(js, ",") + "}\n")
			if cloned {
				exp.WriteString(strings.Join(kv, "") + "late=7;\n{" + strings.Join(append(js, "\"late\":7"), ",") + "}\n")
			}
		}
		if len(order) > maxEntries {
			maxEntries = len(order)
		}
	}
	// a keyed array built by insertion
	nk := rapid.IntRange(0, 5).Draw(rt, "nkeys")
	keys := rapid.Permutation([]string{"k2", "k0", "k1", "Zed", "alpha", "m"}).Draw(rt, "kperm")[:nk]
	sb.WriteString("$arr = [];\n")
	var kv, js []string
	for i, k := range keys {
		fmt.Fprintf(&sb, "$arr['%s'] = %d;\n", k, i)
		kv = append(kv, fmt.Sprintf("%s=%d;", k, i))
		js = append(js, fmt.Sprintf("%q:%d", k, i))
	}
	if nk > 0 {
		// (json_encode of an array that got its string keys by assignment drops the keys: a C14 matter, not an ordering one)
		sb.WriteString("foreach ($arr as $k => $v) { echo $k, '=', $v, ';'; }\necho \"\\n\";\n")
		exp.WriteString(strings.Join(kv, "") + "\n")
		_ = js
	}
	if nk > maxEntries {
		maxEntries = nk
	}
	// case-insensitive class lookup and method call
	fmt.Fprintf(&sb, "$lc = new %s();\necho $lc->id(), \"\\n\";\n", strings.ToLower(classes[0].name))
	exp.WriteString(classes[0].name + "\n")
	p := cprog{Src: sb.String(), Classes: ncls, Entries: maxEntries}
	if assertOrder {
		p.Expected = exp.String()
	}
	return p
}

// residue-leaving programs
var residueA = []string{
	"<?php\nclass Shared { public $v = 1; static $s = 0; static function bump() { self::$s = self::$s + 1; return self::$s; } }\nfunction helper() { static $n = 0; $n++; return $n; }\necho helper(), helper(), Shared::bump(), Shared::bump(), \"\\n\";\n",
	"<?php\ndefine('RESIDUE_C', 41);\n$GLOBALS['gx'] = 5;\necho RESIDUE_C, \"\\n\";\n",
	"<?php\nob_start();\necho 'buffered-and-never-flushed';\n",
	"<?php\nset_exception_handler(function($e) { echo 'HANDLER:', $e->getMessage(); });\necho 'set', \"\\n\";\n",
	"<?php\n$_GET['leak'] = 'from-A';\n$_POST['leak'] = 'from-A';\n$_SERVER['LEAK'] = 'from-A';\necho 'w', \"\\n\";\n",
	"<?php\nfunction shared_fn() { return 'A-version'; }\nclass Dup { function who() { return 'A'; } }\necho shared_fn(), \"\\n\";\n",
}
var residueB = []string{
	"<?php\nclass Shared { public $v = 2; static $s = 100; static function bump() { self::$s = self::$s + 1; return self::$s; } }\nfunction helper() { static $n = 10; $n++; return $n; }\necho helper(), ',', Shared::bump(), \"\\n\";\n",
	"<?php\necho defined('RESIDUE_C') ? 'const-leaked' : 'no-const', ',', isset($GLOBALS['gx']) ? 'global-leaked' : 'no-global', \"\\n\";\n",
	"<?php\necho 'plain-output', \"\\n\";\n",
	"<?php\ntry { throw new Exception('boom'); } catch (Exception $e) { echo 'caught:', $e->getMessage(), \"\\n\"; }\n",
	"<?php\necho isset($_GET['leak']) ? 'get-leaked' : 'no-get', ',', isset($_POST['leak']) ? 'post-leaked' : 'no-post', ',', isset($_SERVER['LEAK']) ? 'server-leaked' : 'no-server', \"\\n\";\n",
	"<?php\nfunction shared_fn() { return 'B-version'; }\nclass Dup { function who() { return 'B'; } }\necho shared_fn(), (new Dup())->who(), \"\\n\";\n",
	// programs that end in a diagnostic before printing anything: the diagnostic text must not depend on what ran earlier
	"<?php\nabstract class AbB { abstract function m(); }\n$x = new AbB();\n",
	"<?php\nundefined_function_in_b();\n",
	"<?php\nthrow new Exception('uncaught-in-B');\n",
	"<?php\n$x = 1 % 0;\n",
}

type c20Case struct {
	Kind    string   `json:"kind"` // order | repeat-vm | repeat-cli | residue | corpus
	Src     string   `json:"src"`
	Want    string   `json:"want,omitempty"`
	A       string   `json:"a,omitempty"`
	File    string   `json:"file,omitempty"`
	Outputs []string `json:"outputs,omitempty"`
}

var tmpRe = regexp.MustCompile(`/[^\s:'"]*(c20-|verif-w-|run-C20)[^\s:'"]*/`)

func normOut(s string) string { return tmpRe.ReplaceAllString(s, "<tmp>/") }

func seqRun(pool *sb.Pool, scripts []string) ([]string, *sb.Rep) {
	b, _ := json.Marshal(seqCfg{Scripts: scripts})
	rep := pool.Exec(&sb.Req{Kind: "seq", Data: b, DeadlineMs: 60000})
	if rep.Outcome != sb.OK {
		return nil, &rep
	}
	var out seqOut
	json.Unmarshal(rep.Data, &out)
	return out.Outs, &rep
}

func allSame(xs []string) (bool, int) {
	for i := 1; i < len(xs); i++ {
		if xs[i] != xs[0] {
			return false, i
		}
	}
	return true, -1
}

func c20Repeat(pool *sb.Pool, rec *sb.Rec, dir string, src string, k int, cli bool, what string) *failure {
	// fresh VMs in one process
	scripts := make([]string, k)
	for i := range scripts {
		scripts[i] = src
	}
	outs, rep := seqRun(pool, scripts)
	rec.EvalN(k)
	if outs == nil {
		if rep.Outcome == sb.Infra {
			rec.InfraProblem("%s", rep.Msg)
			return nil
		}
		return &failure{Key: "cell:repeat-vm:" + rep.Outcome, Detail: fmt.Sprintf("%s: %s at %s: %s\n%s", what, rep.Outcome, rep.Site, clip(rep.Msg, 200), clip(src, 1500)), Case: c20Case{Kind: "repeat-vm", Src: src}}
	}
	if same, i := allSame(outs); !same {
		return &failure{Key: "cell:repeat-vm:output-differs", Detail: fmt.Sprintf("%s: run 1 and run %d on fresh VMs in one process differ:\n  %q\n  %q\n%s", what, i+1, clip(outs[0], 400), clip(outs[i], 400), clip(src, 1500)), Case: c20Case{Kind: "repeat-vm", Src: src, Outputs: []string{outs[0], outs[i]}}}
	}
	if !cli {
		return nil
	}
	path := filepath.Join(dir, "rep.php")
	os.WriteFile(path, []byte(src), 0o644)
	var runs []string
	for i := 0; i < k; i++ {
		r := sb.RunCLI(dir, path, 30*time.Second)
		rec.Eval()
		if r.Err != "" || r.TimedOut {
			rec.Inconclusive("cli run problem: %s timedout=%v", r.Err, r.TimedOut)
			return nil
		}
		runs = append(runs, fmt.Sprintf("exit=%d\n--stdout--\n%s\n--stderr--\n%s", r.Exit, normOut(r.Stdout), normOut(r.Stderr)))
	}
	if same, i := allSame(runs); !same {
		return &failure{Key: "cell:repeat-cli:output-differs", Detail: fmt.Sprintf("%s: process 1 and process %d differ:\n  %q\n  %q\n%s", what, i+1, clip(runs[0], 400), clip(runs[i], 400), clip(src, 1500)), Case: c20Case{Kind: "repeat-cli", Src: src, Outputs: []string{runs[0], runs[i]}}}
	}
	return nil
}

var nondetCalls = regexp.MustCompile(`(?i)time\(|date\(|rand\(|uniqid|getmypid|memory_get|sleep\(|spawn|fopen|file_put_contents|unlink|mkdir|exec\(|system\(|curl|Server|socket|microtime|hrtime|random_|shuffle|spl_object|Log::|Database|DB::|sqlite|mysql|readline|STDIN|\$_SERVER|getenv|tempnam|sys_get_temp_dir|require|include|__DIR__|__FILE__|Channel|Reflection|Annotation|namespace|use `)

func deterministicCorpus() []string {
	var out []string
	for _, f := range corpusFiles() {
		b, err := os.ReadFile(f)
		if err != nil || len(b) > 20000 {
			continue
		}
		if nondetCalls.Match(b) {
			continue
		}
		out = append(out, f)
	}
	return out
}

func TestC20(t *testing.T) {
	cfg := sb.LoadConfig("C20")
	rec := sb.NewRec(cfg)
	defer rec.Flush()
	rec.R.Rule = "generated class programs (1-3 classes with 1-6 declared properties in a drawn order, dynamic properties, clones, a keyed array built by insertion, case-insensitive class lookup; enumeration through foreach / json_encode), generated library programs over string-keyed arrays (array_merge, array_replace, +, array_values, array_slice, array_unique, array_filter, foreach) with the PHP-defined result order as oracle, and generated control-flow programs, each run k times on fresh VMs in one process and (a share) k times in fresh CLI processes; the statically deterministic corpus files run k times in fresh processes; ordered pairs (A, B) of residue-leaving programs run as [A, B] vs [B] in one process. Non-trivial = the program defines >= 2 classes or enumerates an object / array with >= 3 entries; pairs share a name; distinct by program text."
	pool := &sb.Pool{}
	defer pool.Close()
	dl := time.Now().Add(budget(cfg, 90, 1200))
	dir, _ := os.MkdirTemp("", "c20-")
	defer os.RemoveAll(dir)
	k := 6
	if cfg.Thorough() {
		k = 21
	}
	if cfg.Replay != "" {
		rf, err := sb.LoadReplay(cfg.Replay)
		if err != nil {
			rec.InfraProblem("replay: %v", err)
			return
		}
		var c c20Case
		json.Unmarshal(rf.Case, &c)
		rec.NonTrivial(c.Src)
		rec.NonTrivial(c.Src, "r")
		switch c.Kind {
		case "order":
			outs, _ := seqRun(pool, []string{c.Src})
			if len(outs) == 1 && outs[0] != c.Want {
				rec.Fail(rf.Key, fmt.Sprintf("want %q got %q", clip(c.Want, 300), clip(outs[0], 300)), c)
			}
		case "residue":
			ab, _ := seqRun(pool, []string{c.A, c.Src})
			b, _ := seqRun(pool, []string{c.Src})
			if len(ab) == 2 && len(b) == 1 && ab[1] != b[0] {
				rec.Fail(rf.Key, fmt.Sprintf("B after A: %q, B alone: %q", clip(ab[1], 300), clip(b[0], 300)), c)
			}
		default:
			if f := c20Repeat(pool, rec, dir, c.Src, 21, c.Kind == "repeat-cli", "replay"); f != nil {
				rec.Fail(rf.Key, f.Detail, f.Case)
			}
		}
		return
	}
	// residue pairs: all ordered pairs (complete)
	idx := 0
	for ai, a := range residueA {
		for bi, b := range residueB {
			idx++
			if !cfg.Mine(idx) {
				continue
			}
			rec.NonTrivial("pair", a, b)
			rec.Label("residue.pair", fmt.Sprintf("A%d then B%d", ai, bi))
			ab, rep := seqRun(pool, []string{a, b})
			alone, _ := seqRun(pool, []string{b})
			rec.EvalN(3)
			if ab == nil || alone == nil {
				if rep != nil && rep.Outcome != sb.OK && rep.Outcome != sb.Infra {
					rec.Fail(fmt.Sprintf("cell:residue:A%d:crash", ai), fmt.Sprintf("running A%d then B%d: %s %s", ai, bi, rep.Outcome, clip(rep.Msg, 200)), c20Case{Kind: "residue", A: a, Src: b})
				}
				continue
			}
			// the same pair through the production entry point (fresh parser + VM, vm.LoadAndRun, the
			// parser's diagnostic printer; stdout and stderr compared)
			// each history in a process of its own: "B run first" must really be the first program of its process
			freshAB, freshB := &sb.Pool{}, &sb.Pool{}
			abE, _ := seqRunEntry(freshAB, []string{a, b})
			freshAB.Close()
			aloneE, _ := seqRunEntry(freshB, []string{b})
			freshB.Close()
			if abE != nil {
				if aloneE != nil {
					rec.EvalN(3)
					if normOut(abE[1]) != normOut(aloneE[0]) {
						rec.Fail(fmt.Sprintf("cell:residue-entry:A%d->B%d", ai, bi), fmt.Sprintf("through vm.LoadAndRun on fresh VMs, program B%d gives %q after A%d ran earlier in the process, but %q when run first\nA:\n%s\nB:\n%s", bi, clip(abE[1], 400), ai, clip(aloneE[0], 400), a, b), c20Case{Kind: "residue-entry", A: a, Src: b})
					}
				}
			}
			if ab[1] != alone[0] {
				rec.Fail(fmt.Sprintf("cell:residue:A%d->B%d", ai, bi), fmt.Sprintf("program B%d prints %q after A%d ran on another VM in the same process, but %q when run first\nA:\n%s\nB:\n%s", bi, clip(ab[1], 300), ai, clip(alone[0], 300), a, b), c20Case{Kind: "residue", A: a, Src: b})
			}
		}
	}
	// deterministic corpus files through the CLI
	cfiles := deterministicCorpus()
	rec.R.Extra["deterministic_corpus_files"] = len(cfiles)
	scratch := filepath.Join(dir, "corpus")
	exec.Command("cp", "-r", sb.Repo()+"/tests", scratch).Run()
	kc := 3
	if cfg.Thorough() {
		kc = 8
	}
	for i, f := range cfiles {
		if !cfg.Mine(i) || !strings.HasPrefix(f, sb.Repo()+"/tests/") {
			continue
		}
		if time.Now().After(dl.Add(-time.Until(dl) / 2)) {
			rec.Note("corpus repetition stopped by budget at file %d/%d", i, len(cfiles))
			break
		}
		local := filepath.Join(scratch, strings.TrimPrefix(f, sb.Repo()+"/tests/"))
		var runs []string
		for r := 0; r < kc; r++ {
			res := sb.RunCLI(filepath.Dir(local), local, 20*time.Second)
			rec.Eval()
			if res.Err != "" || res.TimedOut {
				runs = nil
				rec.Inconclusive("corpus file %s: %s timedout=%v", f, res.Err, res.TimedOut)
				break
			}
			runs = append(runs, fmt.Sprintf("exit=%d\n%s\n--stderr--\n%s", res.Exit, normOut(res.Stdout), normOut(res.Stderr)))
		}
		if runs == nil {
			continue
		}
		rec.NonTrivial("corpus", f)
		rec.Label("corpus.file", strings.TrimPrefix(f, sb.Repo()+"/"))
		if same, j := allSame(runs); !same {
			rec.Fail("cell:repeat-cli:corpus:"+strings.TrimPrefix(f, sb.Repo()+"/"), fmt.Sprintf("%s: process 1 and process %d differ:\n  %q\n  %q", f, j+1, clip(runs[0], 300), clip(runs[j], 300)), c20Case{Kind: "corpus", File: f})
		}
	}
	rec.Flush()
	total := 1200 / cfg.NShards
	ncli := 16 / cfg.NShards
	if cfg.Thorough() {
		total = 8000 / cfg.NShards
		ncli = 400 / cfg.NShards
	}
	if ncli < 1 {
		ncli = 1
	}
	cliDone := 0
	gcfg := pgen.DefaultCfg()
	gcfg.MaxStmts = 8
	gcfg.Exclude = c02Exclusions(cfg.Root)
	rapidLoop(t, rec, "programs", total, 40, dl, func(rt *rapid.T) *failure {
		if rapid.IntRange(0, 3).Draw(rt, "kind") == 0 {
			p := pgen.Gen(rt, gcfg)
			if _, err := pgen.Run(p); err != nil {
				return nil
			}
			src := p.Print(pgen.PrintOpts{})
			rec.Label("program.control-flow", "")
			return c20Repeat(pool, rec, dir, src, k, false, "control-flow program")
		}
		cp := genClassProgram(rt)
		what := "class program"
		if rapid.IntRange(0, 2).Draw(rt, "keyedops") == 0 {
			cp = genKeyedOpsProgram(rt)
			what = "keyed-array library program"
			rec.Label("program.keyed-ops", cp.Src)
		}
		if cp.Classes >= 2 || cp.Entries >= 3 {
			rec.NonTrivial(cp.Src)
		}
		rec.Label("program.classes", cp.Src)
		useCLI := cliDone < ncli
		if useCLI {
			cliDone++
		}
		if f := c20Repeat(pool, rec, dir, cp.Src, k, useCLI, what); f != nil {
			return f
		}
		if cp.Expected != "" {
			outs, _ := seqRun(pool, []string{cp.Src})
			if len(outs) == 1 && outs[0] != cp.Expected {
				if len(cp.Labels) > 0 {
					// keyed by the first line that differs: one library call / construct per line
					gl, wl := strings.Split(outs[0], "\n"), strings.Split(cp.Expected, "\n")
					for i := range wl {
						if i >= len(gl) || gl[i] != wl[i] {
							lbl, g := "end", ""
							if i < len(cp.Labels) {
								lbl = cp.Labels[i]
							}
							if i < len(gl) {
								g = gl[i]
							}
							return &failure{Key: "cell:order:" + lbl + ":" + orderClass(g, wl[i]), Detail: fmt.Sprintf("%s: enumeration differs from insertion / document order:\n  want %q\n  got  %q\n%s", lbl, clip(wl[i], 300), clip(g, 300), clip(cp.Src, 2500)), Case: c20Case{Kind: "order", Src: cp.Src, Want: cp.Expected}}
						}
					}
				}
				return &failure{Key: "cell:order:" + orderClass(outs[0], cp.Expected), Detail: fmt.Sprintf("enumeration order differs from declaration / insertion order:\n  want %q\n  got  %q\n%s", clip(cp.Expected, 500), clip(outs[0], 500), clip(cp.Src, 1500)), Case: c20Case{Kind: "order", Src: cp.Src, Want: cp.Expected}}
			}
		}
		return nil
	})
}

// orderClass says whether the difference is only a permutation of entries (order) or something else (content).
func orderClass(got, want string) string {
	canon := func(s string) string {
		parts := regexp.MustCompile(`[;,{}\n]`).Split(s, -1)
		sort.Strings(parts)
		return strings.Join(parts, "|")
	}
	if canon(got) == canon(want) {
		return "permutation"
	}
	return "content"
}
