package props

import (
	"encoding/json"
	"fmt"
	"os"
	"path/filepath"
	"strings"
	"testing"
	"time"

	"github.com/php-any/origami/data"
	"github.com/php-any/origami/node"
	"github.com/php-any/origami/runtime"
	"pgregory.net/rapid"
	"verifharness/sb"
)

// ---------------------------------------------------------------------------
// C12 — request-scoped VMs are isolated: temporary definitions never leak.
// ---------------------------------------------------------------------------

func init() {
	sb.Register("tempvm", tempvmHandler)
	sb.Assume("C12",
		"set-based model: Base and Local[i] sets of names per kind; a lookup on temporary VM i resolves n <=> n in Base U Local[i], a lookup on the base VM resolves n <=> n in Base; checked for every VM and every name of the pool after every step, through GetClass / GetInterface / GetFunc / LoadPkg and through class_exists / function_exists / new / call in a script run on that VM",
		"for a name defined on several VMs resolvability is asserted, and that the definition a script runs (each class reports the VM it was defined on) was made on the base VM or on the VM running the script, never on another temporary VM; which of those wins is not asserted",
		"class names are case-insensitive: a class defined under the lower-case spelling of a pool name is the same name for resolution",
		"classes that exist only as files below a namespace directory registered on the base VM: instantiating one on a VM autoloads it there; afterwards it resolves (plain GetClass, no loading lookup) on that VM only, or everywhere when the base VM loaded it",
		"classes, interfaces and functions use separate name pools (no cross-kind collisions); shared write-through state (file cache, constants, globals) is intended sharing and not modelled",
	)
}

// op kinds
const (
	opDefSrc    = "def-src"    // define on VM by parsing source through that VM's parser
	opDefDirect = "def-direct" // define by calling Add* directly
	opDiscard   = "discard"    // replace temp VM i by a fresh one
	opScript    = "script"     // run a probing script on the VM (no state change expected)
	opAutoload  = "autoload"   // a script on the VM instantiates \Auto\Ac<n>, which only exists as a file under a registered namespace directory
	opLoadFile  = "load-file"  // the (temporary) VM loads and runs file <n> from disk (LoadAndRun, the include / request-entry path): it declares class Fc<n>, interface Fi<n> and function ff<n>; several VMs may load the same unchanged file
)

type tvOp struct {
	Op   string `json:"op"`
	VM   int    `json:"vm"`   // -1 base, 0..3 temp
	Kind string `json:"kind"` // class | interface | func
	N    int    `json:"n"`
	// Lower: a class defined from source under the lower-case spelling of its pool name (class names
	// are case-insensitive, so it is the same name as far as resolution goes)
	Lower bool `json:"lower,omitempty"`
}

// tvWho is what a probing script saw when it instantiated a class and asked it where it was defined.
type tvWho struct {
	Step   int  `json:"step"`
	VM     int  `json:"vm"`
	N      int  `json:"n"`
	Lower  bool `json:"lower"` // spelling used by the probe
	Origin int  `json:"origin"`
	Func   bool `json:"func,omitempty"` // a pool function called through a wrapper defined on the base VM
}

type tvCfg struct {
	Temps int    `json:"temps"`
	Names int    `json:"names"`
	Ops   []tvOp `json:"ops"`
}

type tvOut struct {
	// Steps[s][vm+1] = observation string "api:kind:n=0/1,..." in a fixed order
	Steps  [][]map[string]bool `json:"steps"`
	Errors []string            `json:"errors"`
	Who    []tvWho             `json:"who"`
}

func tvName(kind string, n int) string {
	switch kind {
	case "class":
		return fmt.Sprintf("TvC%d", n)
	case "interface":
		return fmt.Sprintf("TvI%d", n)
	}
	return fmt.Sprintf("tvf%d", n)
}

func tempvmHandler(req *sb.Req) *sb.Rep {
	var cfg tvCfg
	if err := json.Unmarshal(req.Data, &cfg); err != nil {
		return &sb.Rep{Outcome: sb.Infra, Msg: err.Error()}
	}
	e := sb.NewScriptEnv("")
	defer func() { data.WriteOutput = data.DefaultOutputWriter }()
	base := e.VM.(*runtime.VM)
	temps := make([]*runtime.TempVM, cfg.Temps)
	newTemp := func() *runtime.TempVM {
		t := runtime.NewTempVM(base).(*runtime.TempVM)
		t.PrepareParse(e.P)
		return t
	}
	for i := range temps {
		temps[i] = newTemp()
	}
	// classes that exist only as files below a namespace directory registered on the base VM
	autoDir, _ := os.MkdirTemp("", "c12-auto-")
	defer os.RemoveAll(autoDir)
	os.MkdirAll(filepath.Join(autoDir, "Auto"), 0o755)
	for n := 0; n < cfg.Names; n++ {
		os.WriteFile(filepath.Join(autoDir, "Auto", fmt.Sprintf("Ac%d.php", n)), []byte(fmt.Sprintf("<?php\nnamespace Auto;\nclass Ac%d { function who() { return 'auto%d'; } }\n", n, n)), 0o644)
	}
	base.AddNamespace("Auto", filepath.Join(autoDir, "Auto"))
	for n := 0; n < cfg.Names; n++ {
		os.WriteFile(filepath.Join(autoDir, fmt.Sprintf("lib%d.php", n)), []byte(fmt.Sprintf("<?php\nclass Fc%d { function who() { return 'file%d'; } }\ninterface Fi%d { function im(); }\nfunction ff%d() { return 'ff%d'; }\n", n, n, n, n, n)), 0o644)
	}
	vmOf := func(i int) data.VM {
		if i < 0 {
			return base
		}
		return temps[i]
	}
	out := tvOut{}
	// factory functions defined on the base VM before anything else: their bodies (one AST shared by every VM that
	// calls them) instantiate a pool class, which each request may define for itself
	{
		var fb strings.Builder
		fb.WriteString("<?php\n")
		for n := 0; n < cfg.Names; n++ {
			fmt.Fprintf(&fb, "function mkc%d() { $o = new %s(); return $o->who(); }\n", n, tvName("class", n))
			fmt.Fprintf(&fb, "function viaf%d() { return %s(); }\n", n, tvName("func", n))
		}
		p := e.P.Clone()
		if prog, acl := p.ParseString(fb.String(), "/virtual/factories.php"); acl == nil {
			prog.GetValue(base.CreateContext(p.GetVariables()))
		} else {
			out.Errors = append(out.Errors, "factories rejected: "+clip(acl.AsString(), 160))
		}
	}
	seq := 0
	src := func(kind string, n, vm int, lower bool) string {
		seq++
		switch kind {
		case "class":
			name := tvName(kind, n)
			if lower {
				name = strings.ToLower(name)
			}
			return fmt.Sprintf("<?php\nclass %s { function who() { return 'c%d@%d#%d'; } }\n", name, n, vm, seq)
		case "interface":
			return fmt.Sprintf("<?php\ninterface %s { function im(); }\n", tvName(kind, n))
		}
		return fmt.Sprintf("<?php\nfunction %s() { return 'f%d@%d#%d'; }\n", tvName(kind, n), n, vm, seq)
	}
	observe := func() []map[string]bool {
		row := make([]map[string]bool, cfg.Temps+1)
		for v := -1; v < cfg.Temps; v++ {
			m := map[string]bool{}
			vm := vmOf(v)
			for n := 0; n < cfg.Names; n++ {
				func() {
					defer func() {
						if r := recover(); r != nil {
							out.Errors = append(out.Errors, fmt.Sprintf("lookup on vm %d panicked: %v", v, r))
						}
					}()
					_, ok := vm.GetClass(tvName("class", n))
					m[fmt.Sprintf("GetClass:class:%d", n)] = ok
					_, ok = vm.GetInterface(tvName("interface", n))
					m[fmt.Sprintf("GetInterface:interface:%d", n)] = ok
					_, ok = vm.GetFunc(tvName("func", n))
					m[fmt.Sprintf("GetFunc:func:%d", n)] = ok
					c, _ := vm.LoadPkg(tvName("class", n))
					m[fmt.Sprintf("LoadPkg:class:%d", n)] = c != nil
					c, _ = vm.LoadPkg(tvName("interface", n))
					m[fmt.Sprintf("LoadPkg:interface:%d", n)] = c != nil
					// autoloadable classes: a plain lookup only (LoadPkg would itself load the file)
					_, ok = vm.GetClass(fmt.Sprintf("Auto\\Ac%d", n))
					m[fmt.Sprintf("GetClass:auto:%d", n)] = ok
					// what file <n> declares
					_, ok = vm.GetClass(fmt.Sprintf("Fc%d", n))
					m[fmt.Sprintf("GetClass:fclass:%d", n)] = ok
					_, ok = vm.GetInterface(fmt.Sprintf("Fi%d", n))
					m[fmt.Sprintf("GetInterface:finterface:%d", n)] = ok
					_, ok = vm.GetFunc(fmt.Sprintf("ff%d", n))
					m[fmt.Sprintf("GetFunc:ffunc:%d", n)] = ok
				}()
			}
			row[v+1] = m
		}
		return row
	}
	runScript := func(v int) map[string]bool {
		vmIdx := v
		// probing script on VM v: class_exists / function_exists / new / call
		var sbd strings.Builder
		sbd.WriteString("<?php\n")
		for n := 0; n < cfg.Names; n++ {
			fmt.Fprintf(&sbd, "__obs('ce:%d', class_exists('%s'));\n__obs('fe:%d', function_exists('%s'));\n", n, tvName("class", n), n, tvName("func", n))
			fmt.Fprintf(&sbd, "try { $o = new %s(); __obs('new:%d', 1); } catch (Throwable $e) { __obs('!new:%d', 1); }\n", tvName("class", n), n, n)
			// which definition runs: exact and lower-case spelling (classes added directly have no who())
			fmt.Fprintf(&sbd, "try { $o = new %s(); __obs('who:%d', $o->who()); } catch (Throwable $e) { }\n", tvName("class", n), n)
			fmt.Fprintf(&sbd, "try { $o = new %s(); __obs('wholc:%d', $o->who()); } catch (Throwable $e) { }\n", strings.ToLower(tvName("class", n)), n)
			fmt.Fprintf(&sbd, "try { __obs('call:%d', %s()); } catch (Throwable $e) { __obs('!call:%d', 1); }\n", n, tvName("func", n), n)
			// the same instantiation made by the base VM's factory function on behalf of this VM
			fmt.Fprintf(&sbd, "try { __obs('whofn:%d', mkc%d()); } catch (Throwable $e) { }\n", n, n)
			fmt.Fprintf(&sbd, "try { __obs('fwho:%d', viaf%d()); } catch (Throwable $e) { }\n", n, n)
		}
		res := map[string]bool{}
		func() {
			defer func() {
				if r := recover(); r != nil {
					out.Errors = append(out.Errors, fmt.Sprintf("script on vm %d panicked: %v", v, clip(fmt.Sprint(r), 200)))
				}
			}()
			e.Obs = nil
			e.Thrown = nil
			var p = e.P.Clone()
			vm := vmOf(v)
			if t, ok := vm.(*runtime.TempVM); ok {
				p = t.PrepareParse(e.P)
			}
			prog, acl := p.ParseString(sbd.String(), fmt.Sprintf("/virtual/probe_%d.php", len(out.Steps)))
			if acl != nil {
				// new X() of an unknown class can be rejected at parse time: treat every probe as unresolvable
				out.Errors = append(out.Errors, "probe script rejected: "+clip(acl.AsString(), 200))
				return
			}
			ctx := vm.CreateContext(p.GetVariables())
			prog.GetValue(ctx)
			for _, o := range e.Obs {
				k, v, _ := strings.Cut(o, "=")
				switch {
				case strings.HasPrefix(k, "ce:"):
					res["class_exists:class:"+k[3:]] = v == "b:1"
				case strings.HasPrefix(k, "fe:"):
					res["function_exists:func:"+k[3:]] = v == "b:1"
				case strings.HasPrefix(k, "new:"):
					res["new:class:"+k[4:]] = true
				case strings.HasPrefix(k, "!new:"):
					res["new:class:"+k[5:]] = false
				case strings.HasPrefix(k, "who:"), strings.HasPrefix(k, "wholc:"), strings.HasPrefix(k, "whofn:"):
					// s:"c<n>@<vm>#<seq>"
					var n, org, sq int
					if _, err := fmt.Sscanf(strings.Trim(strings.TrimPrefix(v, "s:"), "\""), "c%d@%d#%d", &n, &org, &sq); err == nil {
						out.Who = append(out.Who, tvWho{Step: len(out.Steps), VM: vmIdx, N: n, Lower: strings.HasPrefix(k, "wholc:"), Origin: org})
					}
				case strings.HasPrefix(k, "fwho:"):
					// s:"f<n>@<vm>#<seq>": which definition of the pool function the base VM's wrapper called
					var n, org, sq int
					if _, err := fmt.Sscanf(strings.Trim(strings.TrimPrefix(v, "s:"), "\""), "f%d@%d#%d", &n, &org, &sq); err == nil {
						out.Who = append(out.Who, tvWho{Step: len(out.Steps), VM: vmIdx, N: n, Origin: org, Func: true})
					}
				case strings.HasPrefix(k, "call:"):
					res["call:func:"+k[5:]] = true
				case strings.HasPrefix(k, "!call:"):
					res["call:func:"+k[6:]] = false
				}
			}
		}()
		return res
	}
	for _, op := range cfg.Ops {
		func() {
			defer func() {
				if r := recover(); r != nil {
					out.Errors = append(out.Errors, fmt.Sprintf("op %v panicked: %v", op, clip(fmt.Sprint(r), 200)))
				}
			}()
			vm := vmOf(op.VM)
			switch op.Op {
			case opDefSrc:
				s := src(op.Kind, op.N, op.VM, op.Lower && op.Kind == "class")
				file := fmt.Sprintf("/virtual/def_%d.php", seq)
				if t, ok := vm.(*runtime.TempVM); ok {
					p := t.PrepareParse(e.P)
					prog, acl := p.ParseString(s, file)
					if acl != nil {
						out.Errors = append(out.Errors, "def-src rejected: "+clip(acl.AsString(), 160))
					} else {
						prog.GetValue(t.CreateContext(p.GetVariables())) // function declarations register when executed
					}
				} else {
					p := e.P.Clone()
					// a duplicate on the base VM is rejected: the name stays defined
					if prog, acl := p.ParseString(s, file); acl == nil {
						prog.GetValue(base.CreateContext(p.GetVariables()))
					}
				}
			case opDefDirect:
				seq++
				f := fmt.Sprintf("/virtual/direct_%d.php", seq)
				from := node.NewTokenFrom(&f, 0, 1, 0, 0)
				switch op.Kind {
				case "class":
					vm.AddClass(node.NewClassStatement(from, tvName("class", op.N), "", nil, nil, map[string]data.Method{}))
				case "interface":
					vm.AddInterface(node.NewInterfaceStatement(from, tvName("interface", op.N), nil, nil))
				default:
					vm.AddFunc(node.NewFunctionStatement(from, tvName("func", op.N), nil, []data.GetValue{node.NewReturnStatement(nil, node.NewStringLiteral(nil, "direct"))}, nil, nil, false))
				}
			case opAutoload:
				s := fmt.Sprintf("<?php\n$o = new \\Auto\\Ac%d();\n", op.N)
				seq++
				file := fmt.Sprintf("/virtual/auto_%d.php", seq)
				if t, ok := vm.(*runtime.TempVM); ok {
					p := t.PrepareParse(e.P)
					if prog, acl := p.ParseString(s, file); acl != nil {
						out.Errors = append(out.Errors, "autoload script rejected: "+clip(acl.AsString(), 160))
					} else {
						prog.GetValue(t.CreateContext(p.GetVariables()))
					}
				} else {
					p := e.P.Clone()
					if prog, acl := p.ParseString(s, file); acl == nil {
						prog.GetValue(base.CreateContext(p.GetVariables()))
					}
				}
			case opLoadFile:
				if t, ok := vm.(*runtime.TempVM); ok {
					if _, acl := t.LoadAndRun(filepath.Join(autoDir, fmt.Sprintf("lib%d.php", op.N))); acl != nil {
						out.Errors = append(out.Errors, "load-file failed: "+clip(acl.AsString(), 160))
					}
				}
			case opDiscard:
				if op.VM >= 0 {
					temps[op.VM] = newTemp()
				}
			}
		}()
		row := observe()
		if op.Op == opScript {
			for k, v := range runScript(op.VM) {
				row[op.VM+1][k] = v
			}
		}
		out.Steps = append(out.Steps, row)
	}
	b, _ := json.Marshal(&out)
	return &sb.Rep{Outcome: sb.OK, Data: b}
}

type c12Case struct {
	Cfg tvCfg `json:"config"`
}

// c12Judge replays the model and compares every observation.
func c12Judge(pool *sb.Pool, rec *sb.Rec, cfg tvCfg) *failure {
	b, _ := json.Marshal(cfg)
	rep := pool.Exec(&sb.Req{Kind: "tempvm", Data: b, DeadlineMs: 30000})
	rec.Eval()
	cs := c12Case{Cfg: cfg}
	if rep.Outcome != sb.OK {
		if rep.Outcome == sb.Infra {
			rec.InfraProblem("%s", rep.Msg)
			return nil
		}
		return &failure{Key: "cell:process:" + rep.Outcome, Detail: fmt.Sprintf("%s at %s: %s", rep.Outcome, rep.Site, clip(rep.Msg, 200)), Case: cs}
	}
	var out tvOut
	json.Unmarshal(rep.Data, &out)
	for _, e := range out.Errors {
		if strings.Contains(e, "panicked") {
			return &failure{Key: "cell:panic", Detail: e, Case: cs}
		}
	}
	base := map[string]bool{}
	local := make([]map[string]bool, cfg.Temps)
	for i := range local {
		local[i] = map[string]bool{}
	}
	origin := map[string]int{} // name -> VM where it was first defined (for the key)
	// once a class was defined under another spelling, whether the pool spelling resolves depends on
	// case-folding rules the property does not state: only the origin rule below is asserted for it
	fuzzy := map[string]bool{}
	for s, op := range cfg.Ops {
		nm := op.Kind + ":" + fmt.Sprint(op.N)
		if op.Op == opDefSrc && op.Lower && op.Kind == "class" {
			fuzzy[nm] = true
			continue
		}
		if op.Op == opAutoload {
			nm = "auto:" + fmt.Sprint(op.N)
		}
		switch op.Op {
		case opLoadFile:
			if op.VM >= 0 {
				for _, k := range []string{"fclass", "finterface", "ffunc"} {
					local[op.VM][k+":"+fmt.Sprint(op.N)] = true
				}
			}
		case opDefSrc, opDefDirect, opAutoload:
			if op.VM < 0 {
				base[nm] = true
			} else {
				local[op.VM][nm] = true
			}
			if _, ok := origin[nm]; !ok {
				origin[nm] = op.VM
			}
		case opDiscard:
			if op.VM >= 0 {
				local[op.VM] = map[string]bool{}
			}
		}
		if s >= len(out.Steps) {
			break
		}
		for v := -1; v < cfg.Temps; v++ {
			obs := out.Steps[s][v+1]
			for k, got := range obs {
				parts := strings.SplitN(k, ":", 3) // api:kind:n
				nm := parts[1] + ":" + parts[2]
				want := base[nm] || (v >= 0 && local[v][nm])
				if got == want || fuzzy[nm] {
					continue
				}
				where := "base"
				if v >= 0 {
					where = "temp"
				}
				if got && !want {
					src := "other-temp"
					if v < 0 {
						src = "temp"
					}
					return &failure{Key: fmt.Sprintf("cell:leak:%s:%s:%s-sees-%s", parts[1], parts[0], where, src), Detail: fmt.Sprintf("after step %d (%v) %s on VM %d resolves %s %s, which was only defined on another temporary VM (model: not resolvable there)", s, op, parts[0], v, parts[1], parts[2]), Case: cs}
				}
				return &failure{Key: fmt.Sprintf("cell:missing:%s:%s:%s", parts[1], parts[0], where), Detail: fmt.Sprintf("after step %d (%v) %s on VM %d does not resolve %s %s although it is defined on %s", s, op, parts[0], v, parts[1], parts[2], map[bool]string{true: "the base VM", false: "this VM"}[base[nm]]), Case: cs}
			}
		}
	}
	// which definition runs: a VM may only ever run a definition made on the base VM or on itself
	for _, w := range out.Who {
		if w.Origin != -1 && w.Origin != w.VM {
			where := "base"
			if w.VM >= 0 {
				where = "temp"
			}
			sp := "exact"
			if w.Lower {
				sp = "lower-case"
			}
			if w.Func {
				return &failure{Key: fmt.Sprintf("cell:foreign-definition:func:%s-runs-other-temp", where), Detail: fmt.Sprintf("at step %d a script on VM %d called function %d through a wrapper defined on the base VM and ran the definition made on temporary VM %d", w.Step, w.VM, w.N, w.Origin), Case: cs}
			}
			return &failure{Key: fmt.Sprintf("cell:foreign-definition:class:%s-runs-other-temp", where), Detail: fmt.Sprintf("at step %d a script on VM %d instantiated class %d (%s spelling) and ran the definition made on temporary VM %d", w.Step, w.VM, w.N, sp, w.Origin), Case: cs}
		}
	}
	return nil
}

func c12NonTrivial(cfg tvCfg) bool {
	defined := map[string]int{}
	for _, op := range cfg.Ops {
		nm := op.Kind + ":" + fmt.Sprint(op.N)
		if (op.Op == opDefSrc || op.Op == opDefDirect || op.Op == opAutoload) && op.VM >= 0 {
			defined[nm] = op.VM + 1
		}
	}
	return len(defined) > 0 // every later step looks the name up on every other VM and on the base
}

func TestC12(t *testing.T) {
	cfg := sb.LoadConfig("C12")
	rec := sb.NewRec(cfg)
	defer rec.Flush()
	rec.R.Rule = "histories over 1 base VM + up to 4 temporary VMs and a pool of 8 names per kind: define class / interface / function on a VM by parsing source through that VM's parser or by Add*, run a probing script on a VM, discard a temporary VM; after every step every VM is asked for every name through GetClass / GetInterface / GetFunc / LoadPkg (and class_exists / function_exists / new / call for script steps) and compared with the set model. Complete enumeration of all sequences of length <= 3 (thorough: 4) over a reduced alphabet, rapid sequences up to 40 steps. Non-trivial = the history defines something on a temporary VM (every later step then looks it up on the other VMs and on the base); distinct by history."
	pool := &sb.Pool{}
	defer pool.Close()
	dl := time.Now().Add(budget(cfg, 50, 600))
	if cfg.Replay != "" {
		rf, err := sb.LoadReplay(cfg.Replay)
		if err != nil {
			rec.InfraProblem("replay: %v", err)
			return
		}
		var c c12Case
		json.Unmarshal(rf.Case, &c)
		rec.NonTrivial(fmt.Sprint(c))
		rec.NonTrivial(fmt.Sprint(c), "r")
		if f := c12Judge(pool, rec, c.Cfg); f != nil {
			rec.Fail(rf.Key, f.Detail, f.Case)
		}
		return
	}
	// reduced alphabet: 2 temps, names {0,1}
	var alpha []tvOp
	for _, kind := range []string{"class", "interface", "func"} {
		for _, vm := range []int{-1, 0, 1} {
			alpha = append(alpha, tvOp{Op: opDefSrc, VM: vm, Kind: kind, N: 0})
		}
		alpha = append(alpha, tvOp{Op: opDefDirect, VM: 0, Kind: kind, N: 1})
	}
	alpha = append(alpha, tvOp{Op: opDefSrc, VM: 0, Kind: "class", N: 0, Lower: true})
	alpha = append(alpha, tvOp{Op: opAutoload, VM: 0, Kind: "auto", N: 0}, tvOp{Op: opAutoload, VM: -1, Kind: "auto", N: 1})
	alpha = append(alpha, tvOp{Op: opLoadFile, VM: 0, Kind: "file", N: 0}, tvOp{Op: opLoadFile, VM: 1, Kind: "file", N: 0})
	alpha = append(alpha, tvOp{Op: opDiscard, VM: 0}, tvOp{Op: opScript, VM: 0}, tvOp{Op: opScript, VM: 1}, tvOp{Op: opScript, VM: -1})
	maxLen := 3
	if cfg.Thorough() {
		maxLen = 4
	}
	idx := 0
	complete := true
	var rec1 func(prefix []tvOp)
	rec1 = func(prefix []tvOp) {
		if len(prefix) > 0 {
			idx++
			if cfg.Mine(idx) {
				if time.Now().After(dl) {
					complete = false
					return
				}
				c := tvCfg{Temps: 2, Names: 2, Ops: append([]tvOp{}, prefix...)}
				id, _ := json.Marshal(c)
				if c12NonTrivial(c) {
					rec.NonTrivial(string(id))
				}
				rec.Label(fmt.Sprintf("enum.len%d", len(prefix)), string(id))
				if f := c12Judge(pool, rec, c); f != nil {
					rec.Fail(f.Key, f.Detail, f.Case)
				}
			}
		}
		if len(prefix) == maxLen {
			return
		}
		for _, a := range alpha {
			rec1(append(prefix, a))
		}
	}
	// only complete sequences of the maximal length need to be run (every prefix is checked step by step inside them);
	// shorter ones are enumerated too for the label counts of small histories
	rec1(nil)
	rec.R.Exhaustive = complete
	rec.Flush()
	total := 4000 / cfg.NShards
	if cfg.Thorough() {
		total = 160000 / cfg.NShards
	}
	rapidLoop(t, rec, "hist", total, 100, dl, func(rt *rapid.T) *failure {
		c := tvCfg{Temps: rapid.IntRange(1, 4).Draw(rt, "temps"), Names: 8}
		n := rapid.IntRange(1, 40).Draw(rt, "len")
		for i := 0; i < n; i++ {
			op := tvOp{VM: rapid.IntRange(-1, c.Temps-1).Draw(rt, "vm"), Kind: rapid.SampledFrom([]string{"class", "interface", "func"}).Draw(rt, "kind"), N: rapid.IntRange(0, 7).Draw(rt, "n")}
			switch rapid.IntRange(0, 11).Draw(rt, "op") {
			case 10, 11:
				// the same few files over and over, from whichever temporary VM
				op.Op, op.Kind, op.N = opLoadFile, "file", rapid.IntRange(0, 2).Draw(rt, "file")
				if op.VM < 0 {
					op.VM = 0
				}
			case 0, 1, 2, 3:
				op.Op = opDefSrc
				if op.Kind == "class" && rapid.IntRange(0, 2).Draw(rt, "lower") == 0 {
					op.Lower = true
				}
			case 4, 5:
				op.Op = opDefDirect
			case 6:
				op.Op = opDiscard
				if rapid.Bool().Draw(rt, "auto") {
					op.Op, op.Kind = opAutoload, "auto"
				}
			default:
				op.Op = opScript
			}
			c.Ops = append(c.Ops, op)
		}
		id, _ := json.Marshal(c)
		if c12NonTrivial(c) {
			rec.NonTrivial(string(id))
			rec.Label("hist.nontrivial", "")
		}
		return c12Judge(pool, rec, c)
	})
}
