package props

import (
	"encoding/hex"
	"encoding/json"
	"errors"
	"fmt"
	"sort"
	"strings"
	"testing"
	"time"

	opw "github.com/php-any/origami/std/protowire"
	pw "google.golang.org/protobuf/encoding/protowire"
	"pgregory.net/rapid"
	"verifharness/sb"
)

// ---- protobuf wire parsing (C14) ----

func init() { sb.Register("pw", pwHandler) }

type pwCfg struct {
	Data     string           `json:"data"` // hex
	Msg      []int32          `json:"msg"`
	Packed   []int32          `json:"packed"`
	ElemType map[string]int32 `json:"elem"`
	MaxDepth int              `json:"maxdepth"`
}

func (c *pwCfg) opts() *opw.ParseOptions {
	o := &opw.ParseOptions{MessageFields: map[int32]bool{}, PackedFields: map[int32]bool{}, PackedElementType: map[int32]int32{}, MaxDepth: c.MaxDepth}
	for _, m := range c.Msg {
		o.MessageFields[m] = true
	}
	for _, p := range c.Packed {
		o.PackedFields[p] = true
	}
	for k, v := range c.ElemType {
		var n int32
		fmt.Sscanf(k, "%d", &n)
		o.PackedElementType[n] = v
	}
	return o
}

func renderFields(fs []opw.Field) string {
	var sb strings.Builder
	sb.WriteString("{")
	for i, f := range fs {
		if i > 0 {
			sb.WriteString(",")
		}
		fmt.Fprintf(&sb, "%d/%d=", f.Number, f.WireType)
		switch v := f.Value.(type) {
		case uint64:
			fmt.Fprintf(&sb, "%d", v)
		case uint32:
			fmt.Fprintf(&sb, "%d", v)
		case []byte:
			sb.WriteString("x" + hex.EncodeToString(v))
		case []opw.Field:
			sb.WriteString(renderFields(v))
		case []uint64:
			fmt.Fprintf(&sb, "p%v", v)
		case []uint32:
			fmt.Fprintf(&sb, "p%v", v)
		case nil:
			sb.WriteString("nil")
		default:
			fmt.Fprintf(&sb, "?%T", v)
		}
	}
	sb.WriteString("}")
	return sb.String()
}

func pwHandler(req *sb.Req) *sb.Rep {
	var cfg pwCfg
	if err := json.Unmarshal(req.Data, &cfg); err != nil {
		return &sb.Rep{Outcome: sb.Infra, Msg: err.Error()}
	}
	data, _ := hex.DecodeString(cfg.Data)
	fs, err := opw.ParseRawFields(data, cfg.opts())
	out := map[string]any{}
	if err != nil {
		out["err"] = err.Error()
		out["maxdepth"] = errors.Is(err, opw.ErrMaxDepth)
	} else {
		out["tree"] = renderFields(fs)
	}
	b, _ := json.Marshal(out)
	return &sb.Rep{Outcome: sb.OK, Data: b}
}

// ---- independent reference on top of protowire.Consume* ----

var errRefDepth = errors.New("ref: max depth")

type refOpts struct {
	msg, packed map[int32]bool
	elem        map[int32]int32
	maxDepth    int
	// groupCheck: a group opened by a field at depth d is refused when d+groupCheck >= maxDepth.
	// 1 = a group costs a level like a message; 0 = the implementation's count (groups charge their level one step later).
	groupCheck int
}

// refParse parses the fields of one container whose fields sit at depth d (the
// container's own depth check is done by the caller). inGroup != 0: the container is a group.
func refParse(data []byte, o *refOpts, d int, inGroup pw.Number) (string, []byte, error) {
	var sb strings.Builder
	sb.WriteString("{")
	first := true
	for len(data) > 0 {
		num, wt, n := pw.ConsumeTag(data)
		if n <= 0 {
			return "", nil, fmt.Errorf("ref: bad tag")
		}
		data = data[n:]
		if wt == pw.EndGroupType {
			if inGroup == 0 {
				return "", nil, fmt.Errorf("ref: end group outside a group")
			}
			if num != inGroup {
				return "", nil, fmt.Errorf("ref: mismatched end group")
			}
			sb.WriteString("}")
			return sb.String(), data, nil
		}
		if !first {
			sb.WriteString(",")
		}
		first = false
		fmt.Fprintf(&sb, "%d/%d=", num, wt)
		switch wt {
		case pw.VarintType:
			v, n := pw.ConsumeVarint(data)
			if n <= 0 {
				return "", nil, fmt.Errorf("ref: bad varint")
			}
			fmt.Fprintf(&sb, "%d", v)
			data = data[n:]
		case pw.Fixed64Type:
			v, n := pw.ConsumeFixed64(data)
			if n <= 0 {
				return "", nil, fmt.Errorf("ref: bad fixed64")
			}
			fmt.Fprintf(&sb, "%d", v)
			data = data[n:]
		case pw.Fixed32Type:
			v, n := pw.ConsumeFixed32(data)
			if n <= 0 {
				return "", nil, fmt.Errorf("ref: bad fixed32")
			}
			fmt.Fprintf(&sb, "%d", v)
			data = data[n:]
		case pw.BytesType:
			payload, n := pw.ConsumeBytes(data)
			if n <= 0 {
				return "", nil, fmt.Errorf("ref: bad length")
			}
			data = data[n:]
			switch {
			case o.packed[int32(num)]:
				et, ok := o.elem[int32(num)]
				if !ok || (et != 0 && et != 1 && et != 5) {
					return "", nil, fmt.Errorf("ref: element type not configured or invalid")
				}
				var vals []string
				p := payload
				for len(p) > 0 {
					var k int
					switch et {
					case 0:
						var v uint64
						v, k = pw.ConsumeVarint(p)
						vals = append(vals, fmt.Sprint(v))
					case 5:
						var v uint32
						v, k = pw.ConsumeFixed32(p)
						vals = append(vals, fmt.Sprint(v))
					case 1:
						var v uint64
						v, k = pw.ConsumeFixed64(p)
						vals = append(vals, fmt.Sprint(v))
					default:
						return "", nil, fmt.Errorf("ref: bad element type")
					}
					if k <= 0 {
						return "", nil, fmt.Errorf("ref: bad packed element")
					}
					p = p[k:]
				}
				sb.WriteString("p[" + strings.Join(vals, " ") + "]")
			case o.msg[int32(num)]:
				if d+1 >= o.maxDepth {
					return "", nil, errRefDepth
				}
				inner, rest, err := refParse(payload, o, d+1, 0)
				if err != nil {
					return "", nil, err
				}
				if len(rest) != 0 {
					return "", nil, fmt.Errorf("ref: trailing bytes in message")
				}
				sb.WriteString(inner)
			default:
				sb.WriteString("x" + hex.EncodeToString(payload))
			}
		case pw.StartGroupType:
			if d+o.groupCheck >= o.maxDepth {
				return "", nil, errRefDepth
			}
			inner, rest, err := refParse(data, o, d+1, num)
			if err != nil {
				return "", nil, err
			}
			sb.WriteString(inner)
			data = rest
		default:
			return "", nil, fmt.Errorf("ref: wire type %d", wt)
		}
	}
	if inGroup != 0 {
		return "", nil, fmt.Errorf("ref: group not closed")
	}
	sb.WriteString("}")
	return sb.String(), nil, nil
}

// refDecideGroups runs the reference under both group-depth conventions; when they disagree
// about acceptance the input sits on a depth borderline that nothing documents and is not asserted.
func refDecideGroups(data []byte, c *pwCfg) (tree string, accept bool, depthErr bool, asserted bool) {
	md := c.MaxDepth
	if md <= 0 {
		md = 64
	}
	run := func(groupCheck int) (string, error) {
		o := &refOpts{msg: map[int32]bool{}, packed: map[int32]bool{}, elem: map[int32]int32{}, maxDepth: md, groupCheck: groupCheck}
		for _, m := range c.Msg {
			o.msg[m] = true
		}
		for _, p := range c.Packed {
			o.packed[p] = true
		}
		for k, v := range c.ElemType {
			var n int32
			fmt.Sscanf(k, "%d", &n)
			o.elem[n] = v
		}
		if 0 >= o.maxDepth {
			return "", errRefDepth
		}
		t, _, err := refParse(data, o, 0, 0)
		return t, err
	}
	tA, eA := run(1)
	tB, eB := run(0)
	if (eA == nil) != (eB == nil) {
		return "", false, false, false
	}
	if eA == nil {
		_ = tB
		return tA, true, false, true
	}
	return "", false, errors.Is(eA, errRefDepth) && errors.Is(eB, errRefDepth), true
}

// ---- generator ----

type pwGen struct {
	rt *rapid.T
}

// genMessage builds a message of the given nesting depth; returns bytes.
func (g *pwGen) genMessage(depth int, chain bool) []byte {
	var b []byte
	nf := rapid.IntRange(0, 4).Draw(g.rt, "nfields")
	if chain {
		nf = 1
	}
	for i := 0; i < nf; i++ {
		k := rapid.IntRange(0, 8).Draw(g.rt, "fk")
		if chain {
			k = 5 + rapid.IntRange(0, 1).Draw(g.rt, "chainkind")*3
		}
		switch k {
		case 0:
			b = pw.AppendTag(b, pw.Number(rapid.IntRange(1, 3).Draw(g.rt, "vn")), pw.VarintType)
			b = pw.AppendVarint(b, rapid.Uint64().Draw(g.rt, "vv"))
		case 1:
			b = pw.AppendTag(b, 4, pw.Fixed32Type)
			b = pw.AppendFixed32(b, rapid.Uint32().Draw(g.rt, "f32"))
		case 2:
			b = pw.AppendTag(b, 5, pw.Fixed64Type)
			b = pw.AppendFixed64(b, rapid.Uint64().Draw(g.rt, "f64"))
		case 3:
			b = pw.AppendTag(b, 6, pw.BytesType)
			b = pw.AppendBytes(b, rapid.SliceOfN(rapid.Byte(), 0, 6).Draw(g.rt, "raw"))
		case 4:
			et := rapid.IntRange(0, 2).Draw(g.rt, "pet")
			b = pw.AppendTag(b, pw.Number(9+et), pw.BytesType)
			var p []byte
			for n := rapid.IntRange(0, 4).Draw(g.rt, "pn"); n > 0; n-- {
				switch et {
				case 0:
					p = pw.AppendVarint(p, rapid.Uint64().Draw(g.rt, "pv"))
				case 1:
					p = pw.AppendFixed32(p, rapid.Uint32().Draw(g.rt, "p32"))
				default:
					p = pw.AppendFixed64(p, rapid.Uint64().Draw(g.rt, "p64"))
				}
			}
			b = pw.AppendBytes(b, p)
		case 5, 6:
			if depth <= 0 {
				b = pw.AppendTag(b, 1, pw.VarintType)
				b = pw.AppendVarint(b, 7)
				continue
			}
			b = pw.AppendTag(b, pw.Number(7+rapid.IntRange(0, 1).Draw(g.rt, "mn")), pw.BytesType)
			b = pw.AppendBytes(b, g.genMessage(depth-1, chain))
		default:
			if depth <= 0 {
				b = pw.AppendTag(b, 2, pw.VarintType)
				b = pw.AppendVarint(b, 9)
				continue
			}
			num := pw.Number(12 + rapid.IntRange(0, 1).Draw(g.rt, "gn"))
			b = pw.AppendTag(b, num, pw.StartGroupType)
			b = append(b, g.genMessage(depth-1, chain)...)
			b = pw.AppendTag(b, num, pw.EndGroupType)
		}
	}
	return b
}

func pwMutate(rt *rapid.T, b []byte) []byte {
	b = append([]byte{}, b...)
	switch rapid.IntRange(0, 6).Draw(rt, "pwmut") {
	case 0:
		if len(b) > 0 {
			b = b[:rapid.IntRange(0, len(b)-1).Draw(rt, "trunc")]
		}
	case 1:
		if len(b) > 0 {
			p := rapid.IntRange(0, len(b)-1).Draw(rt, "flipat")
			b[p] ^= byte(1 << uint(rapid.IntRange(0, 7).Draw(rt, "bit")))
		}
	case 2: // overlong varint
		p := rapid.IntRange(0, len(b)).Draw(rt, "ovat")
		over := []byte{0x08, 0x80, 0x80, 0x80, 0x80, 0x80, 0x80, 0x80, 0x80, 0x80, 0x80, 0x01}
		b = append(b[:p], append(over, b[p:]...)...)
	case 3: // stray end group
		p := rapid.IntRange(0, len(b)).Draw(rt, "egat")
		eg := pw.AppendTag(nil, pw.Number(rapid.IntRange(1, 13).Draw(rt, "egnum")), pw.EndGroupType)
		b = append(b[:p], append(eg, b[p:]...)...)
	case 4: // length overrun
		b = pw.AppendTag(b, 6, pw.BytesType)
		b = pw.AppendVarint(b, uint64(rapid.IntRange(1, 1<<20).Draw(rt, "overrun")))
	case 5: // unterminated group
		b = pw.AppendTag(b, 12, pw.StartGroupType)
		b = pw.AppendTag(b, 1, pw.VarintType)
		b = pw.AppendVarint(b, 1)
	default: // append garbage after a valid message
		b = append(b, rapid.SliceOfN(rapid.Byte(), 1, 4).Draw(rt, "garbage")...)
	}
	return b
}

type pwCase struct {
	Cfg  pwCfg  `json:"config"`
	Kind string `json:"kind"`
}

func c14JudgePW(pool *sb.Pool, rec *sb.Rec, cfg pwCfg, kind string) *failure {
	b, _ := json.Marshal(cfg)
	rep := pool.Exec(&sb.Req{Kind: "pw", Data: b, DeadlineMs: 10000})
	rec.Eval()
	cs := pwCase{Cfg: cfg, Kind: kind}
	if rep.Outcome != sb.OK {
		if rep.Outcome == sb.Infra {
			rec.InfraProblem("%s", rep.Msg)
			return nil
		}
		return &failure{Key: "cell:protowire:" + rep.Outcome + ":" + kind, Detail: fmt.Sprintf("ParseRawFields %s at %s: %s", rep.Outcome, rep.Site, clip(rep.Msg, 160)), Case: cs}
	}
	var got struct {
		Err      string `json:"err"`
		MaxDepth bool   `json:"maxdepth"`
		Tree     string `json:"tree"`
	}
	json.Unmarshal(rep.Data, &got)
	data, _ := hex.DecodeString(cfg.Data)
	tree, accept, depthErr, asserted := refDecideGroups(data, &cfg)
	if !asserted {
		rec.Label("pw.depth-borderline-not-asserted", "")
		return nil
	}
	gotAccept := got.Err == ""
	switch {
	case accept && !gotAccept:
		return &failure{Key: "cell:protowire:rejects-valid:" + kind, Detail: fmt.Sprintf("well-formed input rejected: %s  [data %s opts msg=%v packed=%v elem=%v maxdepth=%d]", got.Err, clip(cfg.Data, 120), cfg.Msg, cfg.Packed, cfg.ElemType, cfg.MaxDepth), Case: cs}
	case !accept && gotAccept:
		why := "malformed input accepted"
		if depthErr {
			why = "nesting beyond MaxDepth accepted"
		}
		return &failure{Key: "cell:protowire:accepts-malformed:" + kind, Detail: fmt.Sprintf("%s: parsed as %s  [data %s opts msg=%v packed=%v maxdepth=%d]", why, clip(got.Tree, 160), clip(cfg.Data, 120), cfg.Msg, cfg.Packed, cfg.MaxDepth), Case: cs}
	case accept && gotAccept:
		if normPW(got.Tree) != normPW(tree) {
			return &failure{Key: "cell:protowire:different-tree:" + kind, Detail: fmt.Sprintf("parsed tree differs: got %s want %s  [data %s]", clip(got.Tree, 200), clip(tree, 200), clip(cfg.Data, 120)), Case: cs}
		}
	case depthErr && !got.MaxDepth:
		rec.Label("pw.depth-error-other-kind", "")
	}
	return nil
}

// normPW makes the two renderings comparable (packed lists).
func normPW(s string) string {
	s = strings.ReplaceAll(s, "p[]", "p[]")
	return s
}

func c14Protowire(t *testing.T, cfg sb.Config, rec *sb.Rec, pool *sb.Pool, dl time.Time) {
	// fixed depth-limit family (message-only nesting: the pinned unit test fixes the convention)
	idx := 0
	for _, d := range []int{1, 2, 3, 10, 64, 70} {
		for _, n := range []int{0, 1, 2, 9, 10, 63, 64, 69, 70, 71} {
			idx++
			if !cfg.Mine(idx) {
				continue
			}
			var b []byte
			b = pw.AppendVarint(pw.AppendTag(nil, 1, pw.VarintType), 5)
			for i := 0; i < n; i++ {
				b = pw.AppendBytes(pw.AppendTag(nil, 7, pw.BytesType), b)
			}
			c := pwCfg{Data: hex.EncodeToString(b), Msg: []int32{7}, MaxDepth: d}
			rec.NonTrivial("pwdepth", fmt.Sprint(d, n))
			rec.Label("pw.depth-family", fmt.Sprintf("nesting=%d maxdepth=%d", n, d))
			if f := c14JudgePW(pool, rec, c, "depth-family"); f != nil {
				rec.Fail(f.Key, f.Detail, f.Case)
			}
		}
	}
	total := 15000 / cfg.NShards
	if cfg.Thorough() {
		total = 300000 / cfg.NShards
	}
	rapidLoop(t, rec, "protowire", total, 250, dl, func(rt *rapid.T) *failure {
		g := &pwGen{rt: rt}
		chain := rapid.IntRange(0, 5).Draw(rt, "chain") == 0
		depth := rapid.IntRange(0, 5).Draw(rt, "depth")
		if chain {
			depth = rapid.IntRange(5, 70).Draw(rt, "chaindepth")
		}
		data := g.genMessage(depth, chain)
		kind := "valid"
		if rapid.IntRange(0, 2).Draw(rt, "mutate") == 0 {
			data = pwMutate(rt, data)
			kind = "mutant"
		}
		c := pwCfg{Data: hex.EncodeToString(data), ElemType: map[string]int32{}}
		for _, m := range []int32{6, 7, 8} {
			if rapid.IntRange(0, 3).Draw(rt, "ismsg") > 0 && m != 6 || (m == 6 && rapid.IntRange(0, 5).Draw(rt, "rawasmsg") == 0) {
				c.Msg = append(c.Msg, m)
			}
		}
		for i, p := range []int32{9, 10, 11} {
			if rapid.IntRange(0, 3).Draw(rt, "ispacked") > 0 {
				c.Packed = append(c.Packed, p)
				et := []int32{0, 5, 1}[i]
				if rapid.IntRange(0, 7).Draw(rt, "wrongelem") == 0 {
					et = []int32{0, 5, 1, 2}[rapid.IntRange(0, 3).Draw(rt, "elem")]
				}
				if rapid.IntRange(0, 15).Draw(rt, "noelem") != 0 {
					c.ElemType[fmt.Sprint(p)] = et
				}
			}
		}
		c.MaxDepth = rapid.SampledFrom([]int{0, 1, 2, 3, 5, 10, 32, 64, 70}).Draw(rt, "maxdepth")
		sort.Slice(c.Msg, func(i, j int) bool { return c.Msg[i] < c.Msg[j] })
		if len(data) > 2 {
			rec.NonTrivial("pw", c.Data, fmt.Sprint(c.Msg, c.Packed, c.ElemType, c.MaxDepth))
		}
		rec.Label("pw."+kind, "")
		return c14JudgePW(pool, rec, c, kind)
	})
}

func c14ProtowireReplay(rf *sb.ReplayFile, rec *sb.Rec, pool *sb.Pool) {
	var c pwCase
	json.Unmarshal(rf.Case, &c)
	rec.NonTrivial(c.Cfg.Data)
	rec.NonTrivial(c.Cfg.Data, "r")
	if f := c14JudgePW(pool, rec, c.Cfg, c.Kind); f != nil {
		rec.Fail(rf.Key, f.Detail, f.Case)
	}
}
