package props

import (
	"encoding/hex"
	"encoding/json"
	"fmt"
	"math"
	"reflect"
	"sort"
	"strconv"
	"strings"
	"testing"
	"time"

	"github.com/php-any/origami/data"
	"github.com/php-any/origami/node"
	"github.com/php-any/origami/utils"
	"pgregory.net/rapid"
	"verifharness/sb"
)

// ---------------------------------------------------------------------------
// C17 — values cross the Go boundary unchanged in both directions.
// ---------------------------------------------------------------------------

func init() {
	sb.Register("goreg", goregHandler)
	sb.Assume("C17",
		"functions are manufactured at run time with reflect.MakeFunc(reflect.FuncOf(..)) for every signature, registered through vm.RegisterFunction and called from a script; the body records the arguments it receives (bit-exact) and returns a drawn value",
		"asserted domain: the script value's kind matches the parameter kind (int for int / int64 / sized integers when representable, float for float64 / float32 when exactly representable, string, bool): the Go side must receive exactly that value and the script exactly the returned one; a value that is not representable in a sized kind must raise a catchable Throwable; for mismatched kinds only 'value or catchable error, never a Go panic' is asserted",
		"the struct-method path uses a checked-in fixture type (reflect cannot add methods at run time); the generic converter utils.ConvertFromIndex[T] is instantiated for every kind through Go-implemented script functions",
	)
}

var goKinds = map[string]reflect.Type{
	"string": reflect.TypeOf(""), "bool": reflect.TypeOf(false), "int": reflect.TypeOf(int(0)), "int64": reflect.TypeOf(int64(0)), "float64": reflect.TypeOf(float64(0)),
	"int8": reflect.TypeOf(int8(0)), "int16": reflect.TypeOf(int16(0)), "int32": reflect.TypeOf(int32(0)),
	"uint": reflect.TypeOf(uint(0)), "uint8": reflect.TypeOf(uint8(0)), "uint16": reflect.TypeOf(uint16(0)), "uint32": reflect.TypeOf(uint32(0)), "uint64": reflect.TypeOf(uint64(0)),
	"float32": reflect.TypeOf(float32(0)),
}

// named types with the same underlying kinds: Go API authors declare `type Color string`,
// `type Level int`; conversion must go through the declared type, not just its kind
type (
	NString  string
	NBool    bool
	NInt     int
	NInt64   int64
	NFloat64 float64
	NInt8    int8
	NInt16   int16
	NInt32   int32
	NUint    uint
	NUint8   uint8
	NUint16  uint16
	NUint32  uint32
	NUint64  uint64
	NFloat32 float32
)

var goNamedKinds = map[string]reflect.Type{
	"string": reflect.TypeOf(NString("")), "bool": reflect.TypeOf(NBool(false)), "int": reflect.TypeOf(NInt(0)), "int64": reflect.TypeOf(NInt64(0)), "float64": reflect.TypeOf(NFloat64(0)),
	"int8": reflect.TypeOf(NInt8(0)), "int16": reflect.TypeOf(NInt16(0)), "int32": reflect.TypeOf(NInt32(0)),
	"uint": reflect.TypeOf(NUint(0)), "uint8": reflect.TypeOf(NUint8(0)), "uint16": reflect.TypeOf(NUint16(0)), "uint32": reflect.TypeOf(NUint32(0)), "uint64": reflect.TypeOf(NUint64(0)),
	"float32": reflect.TypeOf(NFloat32(0)),
}

func goTypeOf(kind string, named bool) reflect.Type {
	if named {
		return goNamedKinds[kind]
	}
	return goKinds[kind]
}

type goregCfg struct {
	Named  bool         `json:"named,omitempty"` // parameters and result use the named types above
	Mode   string       `json:"mode"`            // func | method | conv
	Params []string     `json:"params"`
	Result string       `json:"result"` // "" = none
	Args   []sb.ValDesc `json:"args"`
	Ret    sb.ValDesc   `json:"ret"`
	Method string       `json:"method,omitempty"`
}

type goregOut struct {
	Received []string `json:"received"`
	Called   bool     `json:"called"`
}

func renderGo(v reflect.Value) string {
	switch v.Kind() {
	case reflect.String:
		return "string:" + hex.EncodeToString([]byte(v.String()))
	case reflect.Bool:
		return fmt.Sprintf("bool:%v", v.Bool())
	case reflect.Int, reflect.Int8, reflect.Int16, reflect.Int32, reflect.Int64:
		return fmt.Sprintf("%s:%d", v.Kind(), v.Int())
	case reflect.Uint, reflect.Uint8, reflect.Uint16, reflect.Uint32, reflect.Uint64:
		return fmt.Sprintf("%s:%d", v.Kind(), v.Uint())
	case reflect.Float64:
		return fmt.Sprintf("float64:%016x", math.Float64bits(v.Float()))
	case reflect.Float32:
		return fmt.Sprintf("float32:%08x", math.Float32bits(float32(v.Float())))
	}
	return "?" + v.Kind().String()
}

func goValueOf(kind string, named bool, d sb.ValDesc) reflect.Value {
	t := goTypeOf(kind, named)
	v := reflect.New(t).Elem()
	switch t.Kind() {
	case reflect.String:
		b, _ := hex.DecodeString(d.H)
		v.SetString(string(b))
	case reflect.Bool:
		v.SetBool(d.B)
	case reflect.Int, reflect.Int8, reflect.Int16, reflect.Int32, reflect.Int64:
		v.SetInt(d.I)
	case reflect.Uint, reflect.Uint8, reflect.Uint16, reflect.Uint32, reflect.Uint64:
		v.SetUint(uint64(d.I))
	case reflect.Float64, reflect.Float32:
		v.SetFloat(d.F)
	}
	return v
}

// GoFix is the fixture for the struct-method path (RegisterReflectClass).
// The script-side 'new GoFix()' creates its own zero instance, so the methods record into a
// package-level log (one case at a time per worker).
type GoFix struct{}

var goFixLog *[]string

func (g *GoFix) rec(vs ...any) {
	if goFixLog == nil {
		return
	}
	for _, v := range vs {
		*goFixLog = append(*goFixLog, renderGo(reflect.ValueOf(v)))
	}
}
func (g *GoFix) EchoInt(a int) int             { g.rec(a); return a }
func (g *GoFix) EchoInt64(a int64) int64       { g.rec(a); return a }
func (g *GoFix) EchoFloat(a float64) float64   { g.rec(a); return a }
func (g *GoFix) EchoString(a string) string    { g.rec(a); return a }
func (g *GoFix) EchoBool(a bool) bool          { g.rec(a); return a }
func (g *GoFix) EchoInt32(a int32) int32       { g.rec(a); return a }
func (g *GoFix) EchoUint8(a uint8) uint8       { g.rec(a); return a }
func (g *GoFix) EchoFloat32(a float32) float32 { g.rec(a); return a }
func (g *GoFix) Mix(a int64, b string) string  { g.rec(a, b); return b }
func (g *GoFix) Mix2(a string, b float64) int  { g.rec(a, b); return 7 }
func (g *GoFix) Mix3(a bool, b int) float64    { g.rec(a, b); return 2.5 }
func (g *GoFix) NoArgs() int64                 { return -9 }

var goFixParams = map[string][]string{
	"EchoInt": {"int"}, "EchoInt64": {"int64"}, "EchoFloat": {"float64"}, "EchoString": {"string"}, "EchoBool": {"bool"},
	"EchoInt32": {"int32"}, "EchoUint8": {"uint8"}, "EchoFloat32": {"float32"}, "Mix": {"int64", "string"}, "Mix2": {"string", "float64"}, "Mix3": {"bool", "int"}, "NoArgs": {},
}
var goFixResult = map[string]string{
	"EchoInt": "int", "EchoInt64": "int64", "EchoFloat": "float64", "EchoString": "string", "EchoBool": "bool",
	"EchoInt32": "int32", "EchoUint8": "uint8", "EchoFloat32": "float32", "Mix": "string", "Mix2": "int", "Mix3": "float64", "NoArgs": "int64",
}

type convFunc struct {
	kind string
	log  *[]string
}

func (f *convFunc) Call(ctx data.Context) (data.GetValue, data.Control) {
	var v any
	var err error
	switch f.kind {
	case "string":
		v, err = utils.ConvertFromIndex[string](ctx, 0)
	case "bool":
		v, err = utils.ConvertFromIndex[bool](ctx, 0)
	case "int":
		v, err = utils.ConvertFromIndex[int](ctx, 0)
	case "int64":
		v, err = utils.ConvertFromIndex[int64](ctx, 0)
	case "float64":
		v, err = utils.ConvertFromIndex[float64](ctx, 0)
	case "int8":
		v, err = utils.ConvertFromIndex[int8](ctx, 0)
	case "int16":
		v, err = utils.ConvertFromIndex[int16](ctx, 0)
	case "int32":
		v, err = utils.ConvertFromIndex[int32](ctx, 0)
	case "uint":
		v, err = utils.ConvertFromIndex[uint](ctx, 0)
	case "uint8":
		v, err = utils.ConvertFromIndex[uint8](ctx, 0)
	case "uint16":
		v, err = utils.ConvertFromIndex[uint16](ctx, 0)
	case "uint32":
		v, err = utils.ConvertFromIndex[uint32](ctx, 0)
	case "uint64":
		v, err = utils.ConvertFromIndex[uint64](ctx, 0)
	case "float32":
		v, err = utils.ConvertFromIndex[float32](ctx, 0)
	}
	if err != nil {
		return nil, utils.NewThrow(err)
	}
	*f.log = append(*f.log, renderGo(reflect.ValueOf(v)))
	return data.NewBoolValue(true), nil
}
func (f *convFunc) GetName() string { return "__conv" }
func (f *convFunc) GetParams() []data.GetValue {
	return []data.GetValue{node.NewParameter(nil, "v", 0, nil, nil)}
}
func (f *convFunc) GetVariables() []data.Variable {
	return []data.Variable{node.NewVariable(nil, "v", 0, nil)}
}

func goregHandler(req *sb.Req) *sb.Rep {
	var cfg goregCfg
	if err := json.Unmarshal(req.Data, &cfg); err != nil {
		return &sb.Rep{Outcome: sb.Infra, Msg: err.Error()}
	}
	e := sb.NewScriptEnv("")
	defer func() { data.WriteOutput = data.DefaultOutputWriter }()
	out := goregOut{}
	var ins []data.Value
	for _, a := range cfg.Args {
		ins = append(ins, a.Build())
	}
	var argList []string
	for i := range cfg.Args {
		argList = append(argList, fmt.Sprintf("__in(%d)", i))
	}
	e.VM.AddFunc(sb.NewInFunc(ins))
	call := ""
	switch cfg.Mode {
	case "func":
		var in, outT []reflect.Type
		for _, p := range cfg.Params {
			in = append(in, goTypeOf(p, cfg.Named))
		}
		if cfg.Result != "" {
			outT = append(outT, goTypeOf(cfg.Result, cfg.Named))
		}
		fn := reflect.MakeFunc(reflect.FuncOf(in, outT, false), func(args []reflect.Value) []reflect.Value {
			out.Called = true
			for _, a := range args {
				out.Received = append(out.Received, renderGo(a))
			}
			if cfg.Result == "" {
				return nil
			}
			return []reflect.Value{goValueOf(cfg.Result, cfg.Named, cfg.Ret)}
		})
		if c := e.VM.RegisterFunction("gofn", fn.Interface()); c != nil {
			return &sb.Rep{Outcome: sb.OK, Msg: "register: " + c.AsString(), Obs: []string{"!reg=" + c.AsString()}}
		}
		call = "gofn(" + strings.Join(argList, ", ") + ")"
	case "method":
		fix := &GoFix{}
		goFixLog = &out.Received
		defer func() { goFixLog = nil }()
		if c := e.VM.RegisterReflectClass("GoFix", fix); c != nil {
			return &sb.Rep{Outcome: sb.OK, Obs: []string{"!reg=" + c.AsString()}}
		}
		call = "(new GoFix())->" + cfg.Method + "(" + strings.Join(argList, ", ") + ")"
	case "conv":
		e.VM.AddFunc(&convFunc{kind: cfg.Params[0], log: &out.Received})
		call = "__conv(" + strings.Join(argList, ", ") + ")"
	}
	src := "<?php\ntry { __obs(\"r\", " + call + "); } catch (Throwable $e) { __obs(\"!r\", $e->getMessage()); }\n"
	prog, acl := e.P.ParseString(src, "boundary.php")
	if acl != nil {
		return &sb.Rep{Outcome: sb.ParseError, Msg: acl.AsString()}
	}
	ctx := e.VM.CreateContext(e.P.GetVariables())
	prog.GetValue(ctx)
	b, _ := json.Marshal(&out)
	rep := &sb.Rep{Outcome: sb.OK, Obs: e.Obs, Data: b}
	if e.Thrown != nil {
		rep.Outcome = sb.Uncaught
		rep.Msg = e.Thrown.AsString()
	}
	return rep
}

// ---- expectations ----

type argVal struct {
	D     sb.ValDesc
	Kind  string // script kind: int float string bool
	Class string
}

func intFits(kind string, i int64) bool {
	switch kind {
	case "int", "int64":
		return true
	case "int8":
		return i >= math.MinInt8 && i <= math.MaxInt8
	case "int16":
		return i >= math.MinInt16 && i <= math.MaxInt16
	case "int32":
		return i >= math.MinInt32 && i <= math.MaxInt32
	case "uint8":
		return i >= 0 && i <= math.MaxUint8
	case "uint16":
		return i >= 0 && i <= math.MaxUint16
	case "uint32":
		return i >= 0 && i <= math.MaxUint32
	case "uint", "uint64":
		return i >= 0
	}
	return false
}

func isIntKind(k string) bool { return strings.HasPrefix(k, "int") || strings.HasPrefix(k, "uint") }

// expectArg: "" not asserted; "ERR" must be a catchable error; otherwise the rendering the Go side must see.
func expectArg(param string, a argVal) string {
	switch {
	case isIntKind(param) && a.Kind == "int":
		if !intFits(param, a.D.I) {
			return "ERR"
		}
		if strings.HasPrefix(param, "uint") {
			return fmt.Sprintf("%s:%d", param, uint64(a.D.I))
		}
		return fmt.Sprintf("%s:%d", param, a.D.I)
	case param == "float64" && a.Kind == "float":
		return fmt.Sprintf("float64:%016x", math.Float64bits(a.D.F))
	case param == "float32" && a.Kind == "float":
		if float64(float32(a.D.F)) != a.D.F {
			return "" // precision loss: not asserted either way
		}
		return fmt.Sprintf("float32:%08x", math.Float32bits(float32(a.D.F)))
	case param == "string" && a.Kind == "string":
		return "string:" + a.D.H
	case param == "bool" && a.Kind == "bool":
		return fmt.Sprintf("bool:%v", a.D.B)
	}
	return ""
}

func expectRet(kind string, d sb.ValDesc) string {
	switch {
	case kind == "":
		return "n"
	case isIntKind(kind):
		return "i:" + strconv.FormatInt(d.I, 10)
	case kind == "float64", kind == "float32":
		f := d.F
		if kind == "float32" {
			f = float64(float32(f))
		}
		return "f:" + strconv.FormatFloat(f, 'g', -1, 64)
	case kind == "string":
		b, _ := hex.DecodeString(d.H)
		return "s:" + strconv.Quote(string(b))
	case kind == "bool":
		if d.B {
			return "b:1"
		}
		return "b:0"
	}
	return ""
}

var c17Ints = []int64{0, 1, -1, 127, 128, -128, -129, 255, 256, 32767, 32768, 65535, 65536, math.MaxInt32, math.MaxInt32 + 1, math.MinInt32, math.MinInt32 - 1, math.MaxUint32, math.MaxUint32 + 1, math.MaxInt64, math.MinInt64}
var c17Floats = []float64{0, math.Copysign(0, -1), 1.5, -2.25, math.SmallestNonzeroFloat64, 4.9e-324 * 3, math.MaxFloat64, 1e-40, 16777217, 0.1, math.Inf(1), math.Inf(-1), math.MaxFloat32, -math.MaxFloat32}
var c17Strings = []string{"", "a", "héllo", "\x00\xff\xfe", strings.Repeat("x", 65536), "12", "1.5"}

func poolArg(kind string, i int) argVal {
	switch kind {
	case "int":
		v := c17Ints[i%len(c17Ints)]
		return argVal{D: sb.ValDesc{T: "int", I: v}, Kind: "int", Class: "int"}
	case "float":
		v := c17Floats[i%len(c17Floats)]
		return argVal{D: sb.ValDesc{T: "float", F: v}, Kind: "float", Class: "float"}
	case "string":
		return argVal{D: sb.Str(c17Strings[i%len(c17Strings)]), Kind: "string", Class: "string"}
	}
	return argVal{D: sb.ValDesc{T: "bool", B: i%2 == 0}, Kind: "bool", Class: "bool"}
}

func matchingScriptKind(param string) string {
	switch {
	case isIntKind(param):
		return "int"
	case strings.HasPrefix(param, "float"):
		return "float"
	}
	return param
}

func retFor(kind string, i int) sb.ValDesc {
	switch {
	case kind == "":
		return sb.ValDesc{T: "null"}
	case isIntKind(kind):
		cands := []int64{0, 1, 100, -1, -100, math.MaxInt64, math.MinInt64, 255, 70000}
		v := cands[i%len(cands)]
		for !intFits(kind, v) {
			i++
			v = cands[i%len(cands)]
		}
		return sb.ValDesc{T: "int", I: v}
	case strings.HasPrefix(kind, "float"):
		// incl. values that are not short decimals in float32 (0.1f is 0.10000000149011612): the script must get
		// the exact widening of what Go returned
		pool := []float64{0, 2.5, -0.125, 1e300, math.Copysign(0, -1), 0.1, 1.1, math.MaxFloat32, math.SmallestNonzeroFloat32, 1.0 / 3}
		return sb.ValDesc{T: "float", F: pool[i%len(pool)]}
	case kind == "string":
		return sb.Str([]string{"", "ret", "\x00\xff", "日本"}[i%4])
	}
	return sb.ValDesc{T: "bool", B: i%2 == 1}
}

type c17Case struct {
	Cfg  goregCfg `json:"config"`
	Cell string   `json:"cell"`
}

func c17Judge(pool *sb.Pool, rec *sb.Rec, c c17Case, args []argVal) []*failure {
	b, _ := json.Marshal(c.Cfg)
	rep := pool.Exec(&sb.Req{Kind: "goreg", Data: b, DeadlineMs: 20000})
	rec.Eval()
	var out []*failure
	mk := func(cl, d string) {
		out = append(out, &failure{Key: c.Cell + ":" + cl, Detail: fmt.Sprintf("%s %v -> %s: %s", c.Cfg.Mode+" "+c.Cfg.Method, c.Cfg.Params, c.Cfg.Result, d), Case: c})
	}
	switch rep.Outcome {
	case sb.Infra:
		rec.InfraProblem("%s", rep.Msg)
		return nil
	case sb.GoPanic, sb.Died, sb.Hang, sb.OOM:
		mk("crash", fmt.Sprintf("%s at %s: %s", rep.Outcome, rep.Site, clip(rep.Msg, 160)))
		return out
	case sb.ParseError:
		rec.InfraProblem("script rejected: %s", rep.Msg)
		return nil
	}
	o := parseObs(rep.Obs)
	if e, bad := o["!reg"]; bad {
		mk("register", "registration refused: "+clip(e, 160))
		return out
	}
	if e, bad := o["!r"]; bad && strings.Contains(e, sb.RecoveredPanicMarker) {
		mk("crash", "Go panic: "+clip(firstLine(e), 200))
		return out
	}
	var got goregOut
	json.Unmarshal(rep.Data, &got)
	anyErr, asserted := false, true
	var want []string
	for i, p := range c.Cfg.Params {
		w := expectArg(p, args[i])
		if w == "" {
			asserted = false
		}
		if w == "ERR" {
			anyErr = true
		}
		want = append(want, w)
	}
	_, raised := o["!r"]
	if !asserted {
		rec.Label("mismatched-kinds:no-crash-only", "")
		return out
	}
	if anyErr {
		if !raised {
			mk("unrepresentable-accepted", fmt.Sprintf("an argument that is not representable in the parameter kind went through: Go received %v, script got %s", got.Received, clip(o["r"], 80)))
		}
		return out
	}
	if raised {
		mk("refused", "a representable value of the matching kind was refused: "+clip(o["!r"], 160))
		return out
	}
	if strings.Join(got.Received, ",") != strings.Join(want, ",") {
		mk("argument", fmt.Sprintf("Go side received %v, the script passed %v", got.Received, want))
	}
	wantRet := expectRet(c.Cfg.Result, c.Cfg.Ret)
	if c.Cfg.Mode == "conv" {
		wantRet = "b:1"
	}
	if c.Cfg.Mode == "method" {
		// fixture methods echo their (first) argument or return a constant
		switch c.Cfg.Method {
		case "Mix":
			wantRet = expectRet("string", args[1].D)
		case "Mix2":
			wantRet = "i:7"
		case "Mix3":
			wantRet = "f:2.5"
		case "NoArgs":
			wantRet = "i:-9"
		default:
			wantRet = expectRet(c.Cfg.Result, args[0].D)
		}
	}
	if gotR := o["r"]; wantRet != "" && gotR != wantRet && !(wantRet == "n" && (gotR == "n" || gotR == "nil")) {
		mk("result", fmt.Sprintf("script received %s, Go returned %s", clip(gotR, 100), clip(wantRet, 100)))
	}
	return out
}

func TestC17(t *testing.T) {
	cfg := sb.LoadConfig("C17")
	rec := sb.NewRec(cfg)
	defer rec.Flush()
	rec.R.Rule = "complete enumeration of all signatures of arity 0..3 over parameter kinds {string, bool, int, int64, float64} x result kind {none, string, bool, int, int64, float64} (functions manufactured with reflect.MakeFunc and registered through RegisterFunction), sized kinds {int8 int16 int32 uint uint8 uint16 uint32 uint64 float32} at arity 1..2, named types (type NString string, type NInt int, ...) of every kind, a fixture struct through RegisterReflectClass, and utils.ConvertFromIndex[T] for every kind; argument values from boundary pools (min/max of each width, +-0.0, subnormals, empty / non-UTF-8 / 64 KiB strings) plus matching- and mismatching-kind values; rapid adds random values. Non-trivial = the signature contains a kind other than string, or a boundary value; distinct by (signature, values)."
	pool := &sb.Pool{}
	defer pool.Close()
	dl := time.Now().Add(budget(cfg, 60, 700))
	if cfg.Replay != "" {
		rf, err := sb.LoadReplay(cfg.Replay)
		if err != nil {
			rec.InfraProblem("replay: %v", err)
			return
		}
		var c c17Case
		json.Unmarshal(rf.Case, &c)
		rec.NonTrivial(fmt.Sprint(c))
		rec.NonTrivial(fmt.Sprint(c), "r")
		args := make([]argVal, len(c.Cfg.Args))
		for i, a := range c.Cfg.Args {
			k := a.T
			if k == "str" {
				k = "string"
			}
			args[i] = argVal{D: a, Kind: k}
		}
		for _, f := range c17Judge(pool, rec, c, args) {
			if f.Key == rf.Key {
				rec.Fail(f.Key, f.Detail, f.Case)
			}
		}
		return
	}
	base := []string{"string", "bool", "int", "int64", "float64"}
	results := append([]string{""}, base...)
	sized := []string{"int8", "int16", "int32", "uint", "uint8", "uint16", "uint32", "uint64", "float32"}
	idx := 0
	run := func(c c17Case, args []argVal) {
		idx++
		if !cfg.Mine(idx) {
			return
		}
		id, _ := json.Marshal(c.Cfg)
		nt := false
		for _, p := range c.Cfg.Params {
			if p != "string" {
				nt = true
			}
		}
		if nt || c.Cfg.Result != "" && c.Cfg.Result != "string" {
			rec.NonTrivial(string(id))
		}
		rec.Label("mode:"+c.Cfg.Mode, string(id)[:min(len(id), 400)])
		for _, f := range c17Judge(pool, rec, c, args) {
			rec.Fail(f.Key, f.Detail, f.Case)
		}
	}
	// keyed by the set of kinds involved, not by the full signature (one conversion routine per kind)
	cellOf := func(mode string, params []string, result string) string {
		set := map[string]bool{}
		for _, p := range params {
			set[p] = true
		}
		var ks []string
		for k := range set {
			ks = append(ks, k)
		}
		sort.Strings(ks)
		return fmt.Sprintf("cell:%s:{%s}->%s", mode, strings.Join(ks, ","), result)
	}
	var sigs [][]string
	var gen func(cur []string)
	gen = func(cur []string) {
		sigs = append(sigs, append([]string{}, cur...))
		if len(cur) == 3 {
			return
		}
		for _, k := range base {
			gen(append(cur, k))
		}
	}
	gen(nil)
	vi := 0
	for _, sig := range sigs {
		for _, res := range results {
			for rep := 0; rep < 2; rep++ {
				vi++
				var args []argVal
				c := c17Case{Cfg: goregCfg{Mode: "func", Params: sig, Result: res, Ret: retFor(res, vi)}, Cell: cellOf("func", sig, res)}
				for j, p := range sig {
					a := poolArg(matchingScriptKind(p), vi+j*7)
					args = append(args, a)
					c.Cfg.Args = append(c.Cfg.Args, a.D)
				}
				run(c, args)
			}
		}
	}
	// sized kinds, arity 1..2, every boundary value; plus mismatching kinds for the base kinds (no-crash only)
	for _, k := range append(append([]string{}, sized...), base...) {
		n := len(c17Ints)
		if strings.HasPrefix(k, "float") {
			n = len(c17Floats)
		} else if k == "string" {
			n = len(c17Strings)
		} else if k == "bool" {
			n = 2
		}
		for i := 0; i < n; i++ {
			a := poolArg(matchingScriptKind(k), i)
			for _, mode := range []string{"func", "conv"} {
				c := c17Case{Cfg: goregCfg{Mode: mode, Params: []string{k}, Result: k, Ret: retFor(k, i), Args: []sb.ValDesc{a.D}}, Cell: cellOf(mode, []string{k}, k)}
				run(c, []argVal{a})
			}
			cn := c17Case{Cfg: goregCfg{Mode: "func", Named: true, Params: []string{k}, Result: k, Ret: retFor(k, i), Args: []sb.ValDesc{a.D}}, Cell: cellOf("func-named", []string{k}, k)}
			run(cn, []argVal{a})
		}
		for _, other := range []string{"int", "float", "string", "bool"} {
			if other == matchingScriptKind(k) {
				continue
			}
			for i := 0; i < 3; i++ {
				a := poolArg(other, i+1)
				for _, mode := range []string{"func", "conv"} {
					c := c17Case{Cfg: goregCfg{Mode: mode, Params: []string{k}, Result: "", Ret: retFor("", 0), Args: []sb.ValDesc{a.D}}, Cell: cellOf(mode+"-mismatch", []string{k}, other)}
					run(c, []argVal{a})
				}
			}
		}
	}
	for _, k1 := range sized {
		for _, k2 := range []string{"int64", "string", "uint8"} {
			a1, a2 := poolArg(matchingScriptKind(k1), 1), poolArg(matchingScriptKind(k2), 2)
			c := c17Case{Cfg: goregCfg{Mode: "func", Params: []string{k1, k2}, Result: k1, Ret: retFor(k1, 1), Args: []sb.ValDesc{a1.D, a2.D}}, Cell: cellOf("func", []string{k1, k2}, k1)}
			run(c, []argVal{a1, a2})
		}
	}
	// struct methods
	for m, ps := range goFixParams {
		for i := 0; i < 6; i++ {
			var args []argVal
			c := c17Case{Cfg: goregCfg{Mode: "method", Method: m, Params: ps, Result: goFixResult[m]}, Cell: cellOf("method", ps, goFixResult[m])}
			ok := true
			for j, p := range ps {
				a := poolArg(matchingScriptKind(p), i+j)
				if isIntKind(p) && !intFits(p, a.D.I) {
					ok = ok && true
				}
				args = append(args, a)
				c.Cfg.Args = append(c.Cfg.Args, a.D)
			}
			if ok {
				run(c, args)
			}
		}
	}
	rec.R.Exhaustive = true
	rec.Flush()
	total := 6000 / cfg.NShards
	if cfg.Thorough() {
		total = 600000 / cfg.NShards
	}
	allKinds := append(append([]string{}, base...), sized...)
	rapidLoop(t, rec, "random", total, 100, dl, func(rt *rapid.T) *failure {
		n := rapid.IntRange(0, 3).Draw(rt, "arity")
		c := c17Case{Cfg: goregCfg{Mode: "func"}}
		var args []argVal
		for i := 0; i < n; i++ {
			k := rapid.SampledFrom(allKinds).Draw(rt, "kind")
			c.Cfg.Params = append(c.Cfg.Params, k)
			var a argVal
			switch matchingScriptKind(k) {
			case "int":
				a = argVal{D: sb.ValDesc{T: "int", I: rapid.Int64().Draw(rt, "i")}, Kind: "int"}
				if rapid.Bool().Draw(rt, "small") {
					a.D.I = int64(rapid.IntRange(-300, 70000).Draw(rt, "si"))
				}
			case "float":
				f := rapid.Float64().Draw(rt, "f")
				if math.IsNaN(f) {
					f = 1
				}
				a = argVal{D: sb.ValDesc{T: "float", F: f}, Kind: "float"}
			case "string":
				a = argVal{D: sb.Str(string(rapid.SliceOfN(rapid.Byte(), 0, 20).Draw(rt, "s"))), Kind: "string"}
			default:
				a = argVal{D: sb.ValDesc{T: "bool", B: rapid.Bool().Draw(rt, "b")}, Kind: "bool"}
			}
			args = append(args, a)
			c.Cfg.Args = append(c.Cfg.Args, a.D)
		}
		c.Cfg.Result = rapid.SampledFrom(append([]string{""}, allKinds...)).Draw(rt, "res")
		c.Cfg.Ret = retFor(c.Cfg.Result, rapid.IntRange(0, 20).Draw(rt, "ri"))
		c.Cell = cellOf("func", c.Cfg.Params, c.Cfg.Result)
		if rapid.IntRange(0, 3).Draw(rt, "named") == 0 {
			c.Cfg.Named = true
			c.Cell = cellOf("func-named", c.Cfg.Params, c.Cfg.Result)
			rec.Label("random.named", "")
		}
		id, _ := json.Marshal(c.Cfg)
		rec.NonTrivial(string(id))
		rec.Label("random", "")
		for _, f := range c17Judge(pool, rec, c, args) {
			if !rec.IsKnown(f.Key) {
				return f
			}
			rec.Fail(f.Key, f.Detail, f.Case)
		}
		return nil
	})
}
