package props

import (
	"fmt"
	"strings"

	"verifharness/sb"
)

// ---------------------------------------------------------------------------
// C01 (d): operand-omission matrix. Every value position of the language (context) is filled with
// every way an operand or clause can be missing or be something that has no value (filler): an operator
// without its left or right operand, two operators in a row, a statement keyword, a lone bracket or
// separator. The source either gets a diagnostic or, when the parser accepts it, is RUN: an accepted
// program must not end in a nil dereference / nil interface conversion (the run clause of C01).
// All loops in the contexts terminate by themselves, nothing exits the process or touches files.
// ---------------------------------------------------------------------------

var c01Contexts = []struct{ Name, Tmpl string }{
	{"stmt", "%s;"}, {"assign", "$x = %s;"}, {"echo", "echo %s;"}, {"echo2", "echo 1, %s;"}, {"ret", "function g() { return %s; }\ng();"},
	{"ret2", "function g() { return 1, %s; }\ng();"},
	{"arg", "f(%s);"}, {"arg2", "f(1, %s);"}, {"argv", "f($a, %s);"}, {"arr", "$x = [%s];"}, {"arr2", "$x = [1, %s];"}, {"arrv", "$x = [$a, %s];"},
	{"arrkv", "$x = [\"k\" => %s];"}, {"arrk", "$x = [%s => 1];"}, {"arrlong", "$x = array(%s);"},
	{"idx", "$x = $arr[%s];"}, {"idxset", "$arr[%s] = 1;"}, {"if", "if (%s) { echo 1; }"}, {"elseif", "if (0) { } elseif (%s) { echo 1; }"},
	{"while", "while (%s) { break; }"}, {"dowhile", "do { if ($i++ > 1) { break; } } while (%s);"},
	{"for1", "for (%s; $i < 1; $i++) { break; }"}, {"for2", "for ($i = 0; %s; $i++) { break; }"}, {"for3", "for ($i = 0; $i < 1; %s) { break; }"},
	{"foreach", "foreach (%s as $v) { }"}, {"foreachk", "foreach ($arr as %s => $v) { }"}, {"foreachv", "foreach ($arr as %s) { }"},
	{"switch", "switch (%s) { default: echo 1; }"}, {"case", "switch (1) { case %s: echo 1; }"},
	{"match", "echo match(%s) { default => 1 };"}, {"matcharm", "echo match(1) { %s => 1, default => 2 };"}, {"matchval", "echo match(1) { 1 => %s, default => 2 };"},
	{"throw", "try { throw %s; } catch (Throwable $e) { }"}, {"const", "const QQ = %s;"}, {"param", "function g($p = %s) { }\ng();"},
	{"prop", "class K { public $p = %s; }\nnew K();"}, {"sprop", "class K { public static $p = %s; }\necho K::$p;"},
	{"cconst", "class K { const C = %s; }\necho K::C;"}, {"iconst", "interface K { const C = %s; }\necho K::C;"},
	{"static", "function g() { static $s = %s; }\ng();"}, {"fn", "$g = fn() => %s;\n$g();"}, {"newarg", "new A(%s);"}, {"marg", "$o->m(%s);"}, {"sarg", "A::s(%s);"},
	{"interp", "$x = \"a{%s}b\";"}, {"print", "print %s;"}, {"clone", "$x = clone %s;"}, {"isset", "echo isset(%s);"}, {"empty", "echo empty(%s);"}, {"unset", "unset(%s);"}, {"list", "list(%s) = [1];"},
	{"tern1", "$x = %s ? 1 : 2;"}, {"tern2", "$x = 1 ? %s : 2;"}, {"tern3", "$x = 1 ? 2 : %s;"}, {"elvis", "$x = 0 ?: %s;"}, {"paren", "$x = (%s);"}, {"parensuffix", "$x = (%s)->p;"},
	{"cast", "$x = (int)%s;"}, {"not", "$x = !%s;"}, {"neg", "$x = -%s;"}, {"ref", "$x = &%s;"}, {"propof", "$x = %s->p;"}, {"nullsafe", "$x = %s?->p;"},
	{"instl", "$x = %s instanceof A;"}, {"instr", "$x = $a instanceof %s;"}, {"new", "$x = new %s;"}, {"newparen", "$x = new (%s);"}, {"dyncall", "$f(%s);"}, {"spread", "f(...%s);"},
	{"yield", "function g() { yield %s; }\nforeach (g() as $v) { }"}, {"yieldkv", "function g() { yield 1 => %s; }\nforeach (g() as $v) { }"}, {"yieldfrom", "function g() { yield from %s; }\nforeach (g() as $v) { }"},
	{"global", "global %s;"}, {"usec", "$g = function() use (%s) { };"}, {"closuredef", "$g = function($p = %s) { };\n$g();"},
	{"binl", "$x = %s + 1;"}, {"binr", "$x = 1 + %s;"}, {"coal", "$x = $u ?? %s;"}, {"andr", "$x = 1 && %s;"}, {"concat", "$x = \"a\" . %s;"}, {"range", "$x = 1..%s;"}, {"compound", "$x += %s;"}, {"named", "f(n: %s);"},
	{"attr", "#[A(%s)]\nfunction g() { }"}, {"enumcase", "enum E: int { case A = %s; }"}, {"enumconst", "enum E { const C = %s; }"}, {"catchty", "try { } catch (%s $e) { }"}, {"rettype", "function g(): %s { }"},
	{"heredoc", "$x = <<<EOT\n{%s}\nEOT;"}, {"arrowchain", "$o->m()->%s;"}, {"staticprop", "A::$%s;"}, {"varvar", "$$%s;"}, {"brace", "{ %s }"}, {"bare", "%s"}, {"declare", "declare(ticks=%s);"},
	{"html", "?><b>{%s}</b><?php "}, {"htmlattr", "?><b id={%s}></b><?php "}, {"shortecho", "?><?= %s ?><?php "},
}

var c01Operators = []string{"+", "-", "*", "/", "%", "**", ".", "<<", ">>", "<", "<=", ">", ">=", "<=>", "==", "!=", "===", "!==", "&", "^", "|", "&&", "||", "and", "or", "xor", "??", "?:", "?", "? 1 :", "=", "+=", "-=", "*=", "/=", ".=", "%=", "**=", "??=", "&=", "|=", "^=", "<<=", ">>=", "=>", "->", "?->", "::", "instanceof", "like", "..", "...", ",", ":", "!", "~", "@", "++", "--", "new", "clone", "(int)", "yield", "yield from", "await", "fn", "function", "static", "throw", "print", "include", "list", "isset", "empty", "array", "match", "as", "use", "insteadof", "extends", "implements"}

var c01StmtFillers = []string{"echo 1", "return", "return 1", "break", "continue", "global $g", "static $s", "unset($a)", "if (1) { }", "while (0) { }", "for (;;) { break; }", "foreach ($arr as $v) { }", "switch (1) { }", "function n() { }", "class Z { }", "interface Y { }", "trait X { }", "enum W { }", "namespace N", "use X", "const Q = 1", "throw $e", "try { } finally { }", "do { } while (0)", "goto l", "declare(strict_types=1)", "{ }", "<?php", "?>", "else", "case 1:", "default:", "endif", "public $p", "abstract", "final", "var $v"}

var c01MiscFillers = []string{")", "]", "}", "(", "[", "{", "()", "[]", "{}", "(,)", "[,]", "$", "$$", "\"", "'", "`", "#", "//", "/*", "1 2", "$a $b", "a b", "1.2.3", "0x", "1e", "\\", "::class", "$a->", "$a::", "A::", "$a[", "$a{", "$a[]", "fn", "fn()", "fn() =>", "function()", "function() use", "new class", "new class {", "static fn", "&$a", "&", "...$a", "...", "?int", "int $a", "$a,", "$a, $b", "$a, $b =", "$a, 1 = 2", "[$a, $b] =", "list($a) =", ", 1", "1,", ",,", "=> 1", "1 =>", "\"k\" =>", "...[1] =>", "$b -1", "$a, $b -1", "$b +1 * 2"}

const c01MatrixPrelude = "$a = 1; $b = 2; $arr = [1, 2]; $o = null; $f = \"strlen\"; $u = null; $i = 0;\n"

func c01Fillers() []string {
	seen := map[string]bool{}
	var out []string
	add := func(s string) {
		if !seen[s] {
			seen[s] = true
			out = append(out, s)
		}
	}
	add("")
	for _, o := range c01Operators {
		for _, s := range []string{o, o + " 1", "1 " + o, "$a " + o, o + " $a", "1 " + o + " " + o + " 2"} {
			add(s)
		}
	}
	for i, s := range c01StmtFillers {
		add(s)
		if i < 6 {
			add("$a = " + s)
		}
	}
	for _, s := range c01MiscFillers {
		add(s)
	}
	return out
}

func c01Matrix(cfg sb.Config, rec *sb.Rec, pool *sb.Pool) {
	fillers := c01Fillers()
	if cfg.Shard == 0 { // extras are summed over the shards
		rec.R.Extra["matrix_contexts"] = len(c01Contexts)
		rec.R.Extra["matrix_fillers"] = len(fillers)
	}
	idx := 0
	for _, c := range c01Contexts {
		for fi, f := range fillers {
			for _, tmpl := range []bool{true, false} {
				if !cfg.Thorough() && tmpl != ((fi+len(c.Name))%4 != 0) {
					// quick: one mode per cell (3 in 4 in template mode, which the CLI uses for .php)
					continue
				}
				if !tmpl && strings.Contains(c.Tmpl, "?>") {
					continue
				}
				idx++
				if idx%cfg.NShards != cfg.Shard {
					continue
				}
				src := c01MatrixPrelude + strings.Replace(c.Tmpl, "%s", f, 1) + "\n"
				if tmpl {
					src = "<?php\n" + src
				}
				rec.NonTrivial(fmt.Sprint(tmpl), src)
				rec.Label("matrix."+c.Name, fmt.Sprintf("%q", strings.Replace(c.Tmpl, "%s", f, 1)))
				cs := c01Case{Src: src, Tmpl: tmpl, Run: true, Why: fmt.Sprintf("operand-omission matrix: context %s, filler %q", c.Name, f)}
				if fl := c01Judge(pool, rec, cs); fl != nil {
					rec.Fail(fl.Key, fl.Detail, fl.Case)
				}
			}
		}
	}
}
