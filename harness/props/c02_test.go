package props

import (
	"encoding/json"
	"fmt"
	"sort"
	"strings"
	"testing"
	"time"

	"pgregory.net/rapid"
	"verifharness/pgen"
	"verifharness/sb"
)

// ---------------------------------------------------------------------------
// C02 — control flow and calls behave as the reference semantics prescribe.
// ---------------------------------------------------------------------------

func init() {
	sb.Assume("C02",
		"reference semantics = PHP's for the generated core (docs/control-structures.md and docs/functions.md agree on everything emitted); the oracle is pgen's own big-step interpreter, which shares no code with /repo",
		"not asserted: integer overflow (values are kept below 2^40), '/' (C03), by-reference parameters, a bare 'continue' directly inside a switch body",
		"all conditions are bool-typed and all operands same-typed, so truthiness and coercion defects (C03) cannot masquerade as control-flow defects",
		"a known finding 'feature:X' removes construct X from the main campaign after its own probe campaign (programs that use X and no other risky construct) confirmed that X still fails",
	)
}

// riskyFeatures are the constructs that can be switched off individually.
var riskyFeatures = []string{
	"neg", "ternary", "match", "interp", "default.param", "recursion", "static.local", "static.compound-assign", "static.assign",
	"prefix.incdec", "echo.multi", "elseif", "early.return",
	"loop.while", "loop.dowhile", "loop.foreach", "foreach.keyed", "foreach.var",
	"break.in.while", "break.in.dowhile", "break.in.for", "break.in.foreach", "break.in.switch", "break.level>=2",
	"continue.in.while", "continue.in.dowhile", "continue.in.for", "continue.in.foreach", "continue.level>=2", "switch.continue-level",
	"switch.default-middle", "switch.group", "switch.fallthrough",
	"dowhile.then-prefix-incdec", "collect", "counter.bump",
	"loop.fordown", "break.in.fordown", "continue.in.fordown",
	"loop.for-le", "counter.read-after-loop", "switch.duplicate-label", "static.nested-block",
}

var featurePrereq = map[string][]string{
	"static.compound-assign":     {"static.local"},
	"static.assign":              {"static.local"},
	"static.nested-block":        {"static.local"},
	"break.in.while":             {"loop.while"},
	"continue.in.while":          {"loop.while"},
	"break.in.dowhile":           {"loop.dowhile"},
	"continue.in.dowhile":        {"loop.dowhile"},
	"break.in.foreach":           {"loop.foreach"},
	"continue.in.foreach":        {"loop.foreach"},
	"foreach.keyed":              {"loop.foreach"},
	"foreach.var":                {"loop.foreach"},
	"dowhile.then-prefix-incdec": {"loop.dowhile", "prefix.incdec"},
}

type progCase struct {
	Src      string `json:"src"`
	Tmpl     bool   `json:"tmpl"`
	Expected string `json:"expected_stdout"`
	ExpUnc   bool   `json:"expected_uncaught"`
	ExpClass string `json:"expected_class,omitempty"`
	ExpMsg   string `json:"expected_message,omitempty"`
	Feats    string `json:"features"`
}

func featList(p *pgen.Program) string {
	var ks []string
	for k := range p.Feats {
		ks = append(ks, k)
	}
	sort.Strings(ks)
	return strings.Join(ks, ",")
}

// judgeProgram runs src and compares with the reference result. Returns a
// failure kind ("" = agrees) and detail.
func judgeProgram(pool *sb.Pool, c progCase) (string, string) {
	rep := pool.Exec(&sb.Req{Kind: "script", Src: c.Src, Tmpl: c.Tmpl, Run: true, DeadlineMs: 10000})
	switch rep.Outcome {
	case sb.Infra:
		return "infra", rep.Msg
	case sb.GoPanic:
		return "go_panic:" + rep.Site, fmt.Sprintf("Go panic %s at %s", clip(rep.Msg, 200), rep.Site)
	case sb.Hang, sb.OOM, sb.Died:
		return rep.Outcome, fmt.Sprintf("%s %s (reference run terminated)", rep.Outcome, clip(rep.Msg, 200))
	case sb.ParseError:
		return "parse_error", "generated program rejected: " + clip(rep.Msg, 300)
	}
	if rep.Stdout != c.Expected {
		return "output-mismatch", fmt.Sprintf("stdout differs: want %q got %q (outcome %s %s)", clip(c.Expected, 400), clip(rep.Stdout, 400), rep.Outcome, clip(rep.Msg, 150))
	}
	if c.ExpUnc != (rep.Outcome == sb.Uncaught) {
		return "outcome-mismatch", fmt.Sprintf("uncaught: want %v (%s) got outcome %s %s", c.ExpUnc, c.ExpClass, rep.Outcome, clip(rep.Msg, 200))
	}
	if c.ExpUnc && c.ExpClass != "" && rep.Class != "" && !strings.EqualFold(strings.TrimPrefix(rep.Class, "\\"), c.ExpClass) {
		return "outcome-mismatch", fmt.Sprintf("uncaught class: want %s got %s", c.ExpClass, rep.Class)
	}
	return "", ""
}

func mkCase(p *pgen.Program, res *pgen.Result, tmpl bool) progCase {
	src := p.Print(pgen.PrintOpts{NoHeader: !tmpl})
	return progCase{Src: src, Tmpl: tmpl, Expected: res.Out, ExpUnc: res.Uncaught, ExpClass: res.ExcClass, ExpMsg: res.ExcMsg, Feats: featList(p)}
}

// bindingCases enumerates function calls over (defaults) x (argument vectors): one program per default
// pair, one output line per call; the expected line is computed here.
func bindingCases() []progCase {
	type val struct{ Lit, Desc string }
	vals := []val{{"null", "null"}, {"0", "i0"}, {"5", "i5"}, {"''", "s()"}, {"'q'", "s(q)"}, {"false", "false"}, {"true", "true"}}
	defs := []val{{"2", "i2"}, {"'x'", "s(x)"}, {"null", "null"}, {"false", "false"}, {"0", "i0"}}
	const desc = "function dsc($v) { if ($v === null) { return 'null'; } if ($v === true) { return 'true'; } if ($v === false) { return 'false'; } if (is_int($v)) { return 'i' . $v; } if (is_string($v)) { return 's(' . $v . ')'; } return '?'; }\n"
	var out []progCase
	for d1 := range defs {
		for d2 := range defs {
			var src, exp strings.Builder
			src.WriteString("<?php\n" + desc)
			fmt.Fprintf(&src, "function fb($a, $b = %s, $c = %s) { return dsc($a) . ',' . dsc($b) . ',' . dsc($c); }\n", defs[d1].Lit, defs[d2].Lit)
			for _, a := range vals {
				// b and c omitted
				fmt.Fprintf(&src, "echo fb(%s), \"\\n\";\n", a.Lit)
				fmt.Fprintf(&exp, "%s,%s,%s\n", a.Desc, defs[d1].Desc, defs[d2].Desc)
				for _, b := range vals {
					fmt.Fprintf(&src, "echo fb(%s, %s), \"\\n\";\n", a.Lit, b.Lit)
					fmt.Fprintf(&exp, "%s,%s,%s\n", a.Desc, b.Desc, defs[d2].Desc)
					for _, c := range vals {
						if (d1+d2)%2 == 0 || c.Lit == "null" || b.Lit == "null" {
							fmt.Fprintf(&src, "echo fb(%s, %s, %s), \"\\n\";\n", a.Lit, b.Lit, c.Lit)
							fmt.Fprintf(&exp, "%s,%s,%s\n", a.Desc, b.Desc, c.Desc)
						}
					}
				}
			}
			// the same through variables and through another call's result
			fmt.Fprintf(&src, "$n = null; $z = 0;\nfunction nul() { return null; }\necho fb($z, $n), \"\\n\";\necho fb($n, nul(), $n), \"\\n\";\n")
			fmt.Fprintf(&exp, "i0,null,%s\nnull,null,null\n", defs[d2].Desc)
			out = append(out, progCase{Src: src.String(), Tmpl: true, Expected: exp.String(), Feats: "binding-matrix"})
		}
	}
	return out
}

// excludeAllBut builds the exclusion set that leaves only feature x (and its prerequisites) on.
func excludeAllBut(x string) map[string]bool {
	ex := map[string]bool{}
	for _, f := range riskyFeatures {
		ex[f] = true
	}
	delete(ex, x)
	for _, p := range featurePrereq[x] {
		delete(ex, p)
	}
	return ex
}

// probeFeatures runs the per-feature probe campaigns. Returns the set of failing features.
func probeFeatures(t *testing.T, rec *sb.Rec, pool *sb.Pool, prop string, base pgen.Cfg, per int, dl time.Time) map[string]bool {
	failing := map[string]bool{}
	feats := append([]string{"base"}, riskyFeatures...)
	for fi, x := range feats {
		if !rec.Cfg.Mine(fi) {
			continue
		}
		cfg := base
		cfg.Exclude = excludeAllBut(x)
		var firstFail *failure
		used := 0
		flagSeed := rec.Cfg.ShardSeed("probe:" + x)
		_ = flagSeed
		rapidLoopQuiet(t, rec, "probe-"+x, per, func(rt *rapid.T) *failure {
			p := pgen.Gen(rt, cfg)
			if x != "base" && p.Feats[x] == 0 {
				return nil
			}
			res, err := pgen.Run(p)
			if err != nil {
				rec.Label("budget-regenerated", "")
				return nil
			}
			used++
			c := mkCase(p, res, true)
			rec.Eval()
			rec.Label("probe:"+x, "")
			if res.BackEdges > 0 || res.Calls > 0 {
				rec.NonTrivial(c.Src)
			}
			kind, detail := judgeProgram(pool, c)
			if kind == "" {
				return nil
			}
			if kind == "infra" {
				rec.InfraProblem("%s", detail)
				return nil
			}
			f := &failure{Key: "feature:" + x, Detail: fmt.Sprintf("construct %s alone: %s\n%s", x, detail, c.Src), Case: c, Post: reducePost(pool, p, true, kind, "feature:"+x)}
			if firstFail == nil {
				firstFail = f
			}
			return f
		})
		if firstFail != nil {
			failing[x] = true
		}
		if used == 0 && x != "base" {
			rec.Note("probe %s: generator produced no program using it", x)
		}
		if time.Now().After(dl) {
			break
		}
	}
	return failing
}

// rapidLoopQuiet is rapidLoop with a single chunk and no budget handling.
func rapidLoopQuiet(t *testing.T, rec *sb.Rec, name string, n int, prop func(rt *rapid.T) *failure) {
	rapidLoop(t, rec, name, n, n, time.Now().Add(time.Hour), prop)
}

func TestC02(t *testing.T) {
	cfg := sb.LoadConfig("C02")
	rec := sb.NewRec(cfg)
	defer rec.Flush()
	rec.R.Rule = "programs drawn by the typed generator pgen (assignments, if/elseif/else, while, do-while, for, foreach, switch, match, break/continue with levels, functions with defaults, recursion, static locals, return), run by origami in a sandbox worker and by the reference interpreter on the same AST; stdout and uncaught outcome must agree. A call-binding matrix (25 default pairs x argument vectors over null, 0, 5, '', 'q', false, true, omitted) is enumerated completely. First a probe campaign per construct (only that construct enabled), then the main campaign over all constructs not excluded by an active known finding. Non-trivial = reference run takes >= 1 loop back-edge or >= 1 call; distinct by program text."
	pool := &sb.Pool{}
	defer pool.Close()
	dl := time.Now().Add(budget(cfg, 50, 700))
	if cfg.Replay != "" {
		progReplay(cfg, rec, pool)
		return
	}
	base := pgen.DefaultCfg()
	per := 250
	if cfg.Thorough() {
		per = 400
	}
	// every shard runs its share of the probes; the main campaign needs the union,
	// so each shard re-probes the known-finding features itself (cheap) to decide exclusions
	failing := probeFeatures(t, rec, pool, "C02", base, per, dl)
	exclude := map[string]bool{}
	for _, k := range rec.KnownKeys() {
		if strings.HasPrefix(k, "feature:") {
			exclude[strings.TrimPrefix(k, "feature:")] = true
		}
	}
	for f := range failing {
		exclude[f] = true
	}
	// Listed findings stay excluded from the main campaign even when this run's
	// probe of the construct happened to pass (a probe is a sample: 'neg' only
	// shows when the operand is 0). The construct is still searched on its own by
	// its probe campaign on every run; removing the finding line restores full depth.
	var exl []string
	for k := range exclude {
		exl = append(exl, k)
	}
	sort.Strings(exl)
	rec.R.Extra["excluded_features"] = strings.Join(exl, ",")
	// call-binding matrix: a parameter holds exactly the argument that was passed (null, 0, '' and false
	// included) and its default only when the argument is omitted
	for bi, c := range bindingCases() {
		if !cfg.Mine(bi) {
			continue
		}
		rec.Eval()
		rec.NonTrivial(c.Src, "binding")
		rec.Label("binding-matrix", c.Src)
		if kind, detail := judgeProgram(pool, c); kind != "" && kind != "infra" {
			rec.Fail("cell:binding:"+kind, detail+"\n"+clip(c.Src, 1500), c)
		}
	}
	total := 30000 / cfg.NShards
	if cfg.Thorough() {
		total = 600000 / cfg.NShards
	}
	mcfg := base
	mcfg.Exclude = exclude
	rapidLoop(t, rec, "main", total, 500, dl, func(rt *rapid.T) *failure {
		p := pgen.Gen(rt, mcfg)
		res, err := pgen.Run(p)
		if err != nil {
			rec.Label("budget-regenerated", "")
			return nil
		}
		tmpl := rapid.IntRange(0, 3).Draw(rt, "mode") > 0
		c := mkCase(p, res, tmpl)
		rec.Eval()
		for f := range p.Feats {
			rec.Label("feat:"+f, "")
		}
		for f := range res.Dyn {
			rec.Label(f, "")
		}
		if res.BackEdges > 0 || res.Calls > 0 {
			rec.NonTrivial(c.Src)
			rec.Label("nontrivial", c.Src)
		}
		kind, detail := judgeProgram(pool, c)
		if kind == "" {
			return nil
		}
		if kind == "infra" {
			rec.InfraProblem("%s", detail)
			return nil
		}
		return &failure{Key: kind, Detail: detail + "\n" + c.Src, Case: c, Post: reducePost(pool, p, tmpl, kind, "")}
	})
}

// reducePost returns an AST-level reducer for a failing program: statements are
// deleted while origami and the reference interpreter keep disagreeing in the same way.
func reducePost(pool *sb.Pool, p *pgen.Program, tmpl bool, kind, keyOverride string) func() *failure {
	return func() *failure {
		var lastDetail string
		var lastCase progCase
		pgen.Reduce(p, func(q *pgen.Program) bool {
			res, err := pgen.SafeRun(q)
			if err != nil {
				return false
			}
			c := mkCase(q, res, tmpl)
			k, d := judgeProgram(pool, c)
			if k != kind {
				return false
			}
			lastDetail, lastCase = d, c
			return true
		}, 3000)
		if lastCase.Src == "" {
			return nil
		}
		key := kind
		if keyOverride != "" {
			key = keyOverride
		}
		return &failure{Key: key, Detail: lastDetail + "\n" + lastCase.Src, Case: lastCase}
	}
}

func progReplay(cfg sb.Config, rec *sb.Rec, pool *sb.Pool) {
	rf, err := sb.LoadReplay(cfg.Replay)
	if err != nil {
		rec.InfraProblem("replay: %v", err)
		return
	}
	var c progCase
	if err := json.Unmarshal(unwrapCase(rf.Case), &c); err != nil {
		rec.InfraProblem("replay: %v", err)
		return
	}
	rec.Eval()
	rec.NonTrivial(c.Src)
	rec.NonTrivial(c.Src, "replay")
	if kind, detail := judgeProgram(pool, c); kind != "" {
		rec.Fail(rf.Key, detail, c)
	}
}
