package props

import (
	"encoding/json"
	"fmt"
	"sync"
	"sync/atomic"

	"github.com/php-any/origami/data"
	"github.com/php-any/origami/node"
	"verifharness/sb"
)

// C19, concurrent first use: AST nodes are shared by coroutines and by concurrently served requests. A
// `new Box<A>()` site that several executors reach for the first time at the same moment must give every one of
// them an instantiation bound to A. The handler builds fresh sites (the node the parser builds for the
// expression) and lets W goroutines evaluate each at once on one VM; every created object's member type is then
// asked whether it takes a value of A (must) and a value of another kind (must not).

func init() { sb.Register("gensite", gensiteHandler) }

type gensiteCfg struct {
	Sites, Workers int
	Args           []string // type argument per site (cycled)
}

type gensiteOut struct {
	Created, Failed, AcceptForeign, RejectOwn int64
	FirstBad                                  string
}

func gensiteHandler(req *sb.Req) *sb.Rep {
	var cfg gensiteCfg
	if err := json.Unmarshal(req.Data, &cfg); err != nil {
		return &sb.Rep{Outcome: sb.Infra, Msg: err.Error()}
	}
	e := sb.NewScriptEnv("")
	defer func() { data.WriteOutput = data.DefaultOutputWriter }()
	prog, acl := e.P.ParseString(gPrelude, "c19c.php")
	if acl != nil {
		return &sb.Rep{Outcome: sb.Infra, Msg: "prelude: " + acl.AsString()}
	}
	if _, acl := prog.GetValue(e.VM.CreateContext(e.P.GetVariables())); acl != nil {
		return &sb.Rep{Outcome: sb.Infra, Msg: "prelude run: " + acl.AsString()}
	}
	own := map[string]data.Value{"int": data.NewIntValue(1), "string": data.NewStringValue("s")}
	foreign := map[string]data.Value{"int": data.NewStringValue("s"), "string": data.NewIntValue(1)}
	var out gensiteOut
	var mu sync.Mutex
	for s := 0; s < cfg.Sites; s++ {
		arg := cfg.Args[s%len(cfg.Args)]
		site := &node.NewClassGenerated{NewExpression: node.NewNewExpression(nil, "Box", []data.GetValue{}), T: []string{arg}}
		start := make(chan struct{})
		var wg sync.WaitGroup
		for w := 0; w < cfg.Workers; w++ {
			wg.Add(1)
			go func() {
				defer wg.Done()
				defer func() {
					if r := recover(); r != nil {
						atomic.AddInt64(&out.Failed, 1)
					}
				}()
				ctx := e.VM.CreateContext(nil)
				<-start
				v, acl := site.GetValue(ctx)
				obj, ok := v.(*data.ClassValue)
				if acl != nil || !ok {
					atomic.AddInt64(&out.Failed, 1)
					return
				}
				atomic.AddInt64(&out.Created, 1)
				prop, ok := obj.GetPropertyStmt("v")
				bad := ""
				switch {
				case !ok || prop.GetType() == nil:
					atomic.AddInt64(&out.AcceptForeign, 1)
					bad = "member v has no concrete type"
				case prop.GetType().Is(foreign[arg]):
					atomic.AddInt64(&out.AcceptForeign, 1)
					bad = "member v takes a value of another kind"
				case !prop.GetType().Is(own[arg]):
					atomic.AddInt64(&out.RejectOwn, 1)
					bad = "member v refuses a value of its own type argument"
				}
				if bad != "" {
					mu.Lock()
					if out.FirstBad == "" {
						out.FirstBad = fmt.Sprintf("site %d Box<%s>: %s", s, arg, bad)
					}
					mu.Unlock()
				}
			}()
		}
		close(start)
		wg.Wait()
	}
	raw, _ := json.Marshal(out)
	return &sb.Rep{Outcome: sb.OK, Data: raw}
}

func c19Concurrent(cfg sb.Config, rec *sb.Rec, pool *sb.Pool) {
	sites := 600
	if cfg.Thorough() {
		sites = 20000
	}
	gc := gensiteCfg{Sites: sites, Workers: 8, Args: []string{"int", "string"}}
	raw, _ := json.Marshal(gc)
	rep := pool.Exec(&sb.Req{Kind: "gensite", Data: raw, DeadlineMs: 120000})
	rec.Eval()
	if rep.Outcome != sb.OK {
		if rep.Outcome == sb.Infra {
			rec.InfraProblem("gensite: %s", rep.Msg)
			return
		}
		rec.Fail("cell:concurrent-first-use:"+rep.Outcome, fmt.Sprintf("concurrent first use of new-sites: %s at %s: %s", rep.Outcome, rep.Site, clip(rep.Msg, 200)), gc)
		return
	}
	var out gensiteOut
	json.Unmarshal(rep.Data, &out)
	rec.NonTrivial("gensite", fmt.Sprint(cfg.Shard))
	rec.Label("concurrent-first-use", fmt.Sprintf("%d sites x %d goroutines, %d objects created", gc.Sites, gc.Workers, out.Created))
	rec.R.Extra["concurrent_first_use_objects"] = out.Created
	if out.Failed > 0 {
		rec.Fail("cell:concurrent-first-use:failed", fmt.Sprintf("%d of %d concurrent instantiations failed or panicked", out.Failed, int64(gc.Sites*gc.Workers)), gc)
	}
	if out.AcceptForeign > 0 {
		rec.Fail("cell:concurrent-first-use:accepted-foreign", fmt.Sprintf("%d of %d objects created by concurrent first executions of one new-site take values outside their type argument (%s)", out.AcceptForeign, out.Created, out.FirstBad), gc)
	}
	if out.RejectOwn > 0 {
		rec.Fail("cell:concurrent-first-use:rejected-own", fmt.Sprintf("%d of %d objects created by concurrent first executions of one new-site refuse values of their type argument (%s)", out.RejectOwn, out.Created, out.FirstBad), gc)
	}
}
