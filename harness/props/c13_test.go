package props

import (
	"bytes"
	"encoding/json"
	"fmt"
	"net/http"
	"net/http/httptest"
	"sort"
	"strings"
	"testing"
	"time"

	"github.com/php-any/origami/data"
	"github.com/php-any/origami/node"
	"pgregory.net/rapid"
	"verifharness/sb"
)

// ---------------------------------------------------------------------------
// C13 — HTTP response commits once; pre-commit status/headers reach the client.
// ---------------------------------------------------------------------------

func init() {
	sb.Register("resp", respHandler)
	sb.Assume("C13",
		"reference model of commit-once (about 30 lines): pending status = the last status()/terminal-op code before the commit (200 default), headers = the header map at the commit, body = concatenation of all body writes, at most one WriteHeader on the underlying writer, status/header calls after the commit do not change what was sent; a handler that only set a status is committed when it returns",
		"the body text and header each single operation contributes (JSON encoding, cookie syntax, default redirect / no-content codes) are calibrated from a handler that performs only that operation; the property is about ordering and commit, not about those encodings",
		"the underlying http.ResponseWriter is an instrumented writer that counts WriteHeader calls and snapshots the header map at the first commit (what a real connection would have sent)",
		"middleware oracle: stable sort by ascending priority, ties in registration order, outermost first, every 'before' marker precedes and every 'after' marker follows all later middlewares and the handler",
	)
}

type instrW struct {
	hdr     http.Header
	commits int
	status  int
	snap    http.Header
	body    bytes.Buffer
}

func (w *instrW) Header() http.Header { return w.hdr }
func (w *instrW) WriteHeader(c int) {
	w.commits++
	if w.commits == 1 {
		w.status = c
		w.snap = w.hdr.Clone()
	}
}
func (w *instrW) Write(p []byte) (int, error) {
	if w.commits == 0 {
		w.WriteHeader(200)
	}
	return w.body.Write(p)
}

type respCfg struct {
	Script string   `json:"script"`
	URLs   []string `json:"urls"`
}

type respObs struct {
	Status  int                 `json:"status"`
	Commits int                 `json:"commits"`
	Headers map[string][]string `json:"headers"`
	Body    string              `json:"body"`
	Panic   string              `json:"panic,omitempty"`
}

func respHandler(req *sb.Req) *sb.Rep {
	var cfg respCfg
	if err := json.Unmarshal(req.Data, &cfg); err != nil {
		return &sb.Rep{Outcome: sb.Infra, Msg: err.Error()}
	}
	defer func() { data.WriteOutput = data.DefaultOutputWriter }()
	mux, _, msg := buildMux(cfg.Script)
	if mux == nil {
		return &sb.Rep{Outcome: sb.Infra, Msg: msg}
	}
	out := make([]respObs, len(cfg.URLs))
	for i, u := range cfg.URLs {
		func() {
			w := &instrW{hdr: http.Header{}}
			defer func() {
				if r := recover(); r != nil {
					msg := fmt.Sprint(r)
					if c, ok := r.(data.Control); ok {
						msg = c.AsString()
					}
					out[i].Panic = clip(msg, 300)
				}
				st, hd := w.status, w.snap
				if w.commits == 0 {
					st, hd = 200, w.hdr
				}
				out[i].Status, out[i].Commits, out[i].Headers, out[i].Body = st, w.commits, hd, w.body.String()
			}()
			node.ResetSuperglobals()
			mux.ServeHTTP(w, httptest.NewRequest("GET", u, nil))
		}()
	}
	b, _ := json.Marshal(out)
	return &sb.Rep{Outcome: sb.OK, Data: b}
}

// ---- operations and model ----

var respOps = []struct{ Name, Src string }{
	{"status201", "$res->status(201);"},
	{"status404", "$res->status(404);"},
	{"headerA", "$res->header('X-A', '1');"},
	{"headerB", "$res->header('X-B', '2');"},
	{"cookie", "$res->cookie('ck', 'v', []);"},
	{"write", "$res->write('ab');"},
	{"json", "$res->json(['k' => 1]);"},
	{"html", "$res->html('<b>h</b>');"},
	{"redirect", "$res->redirect('/to');"},
	{"noContent", "$res->noContent();"},
	{"writeHeader", "$res->writeHeader(202);"},
}

type opEffect struct {
	Body    string
	Headers map[string][]string // headers the op sets (as seen when it runs alone)
	Status  int                 // status the op yields alone
	Commits int
}

func respScript(seqs [][]int) (string, []string) {
	var sb strings.Builder
	sb.WriteString("<?php\nuse Net\\Http\\Server;\n$server = new Server('127.0.0.1', 0);\n")
	var urls []string
	for i, seq := range seqs {
		fmt.Fprintf(&sb, "$server->get('/s%d', function ($req, $res) {", i)
		for _, op := range seq {
			sb.WriteString(" " + respOps[op].Src)
		}
		sb.WriteString(" });\n")
		urls = append(urls, fmt.Sprintf("/s%d", i))
	}
	return sb.String(), urls
}

// respModel computes the expected client view of a sequence.
func respModel(seq []int, eff []opEffect) respObs {
	committed := false
	pending, statusSet := 200, false
	live := http.Header{}
	var snap http.Header
	var body strings.Builder
	status := 200
	commit := func() {
		if !committed {
			committed = true
			status = pending
			snap = live.Clone()
		}
	}
	setHeaders := func(op int) {
		for k, vs := range eff[op].Headers {
			if k == "Set-Cookie" {
				for _, v := range vs {
					live.Add(k, v)
				}
			} else {
				live[k] = append([]string{}, vs...)
			}
		}
	}
	for _, op := range seq {
		switch respOps[op].Name {
		case "status201", "status404":
			if !committed {
				pending = eff[op].Status
				statusSet = true
			}
		case "headerA", "headerB", "cookie":
			setHeaders(op)
		case "write", "json", "html":
			setHeaders(op)
			commit()
			body.WriteString(eff[op].Body)
		case "redirect", "noContent", "writeHeader":
			setHeaders(op)
			if !committed {
				pending = eff[op].Status
				statusSet = true
			}
			commit()
			body.WriteString(eff[op].Body)
		}
	}
	commits := 0
	if !committed && statusSet {
		commit()
	}
	if committed {
		commits = 1
	}
	hd := snap
	if !committed {
		hd, status = live, 200
	}
	return respObs{Status: status, Commits: commits, Headers: hd, Body: body.String()}
}

func obsString(o respObs) string {
	var hs []string
	for k, v := range o.Headers {
		hs = append(hs, k+"="+strings.Join(v, "|"))
	}
	sort.Strings(hs)
	return fmt.Sprintf("status=%d commits=%d headers={%s} body=%q", o.Status, o.Commits, strings.Join(hs, "; "), o.Body)
}

type c13Case struct {
	Seq    []string `json:"sequence"`
	Ops    []int    `json:"ops"`
	Script string   `json:"script"`
	Kind   string   `json:"kind"`
	Want   string   `json:"want,omitempty"`
	Cuts   []int    `json:"cuts,omitempty"`
}

func seqNames(seq []int) []string {
	var n []string
	for _, o := range seq {
		n = append(n, respOps[o].Name)
	}
	return n
}

func c13Calibrate(pool *sb.Pool, rec *sb.Rec) []opEffect {
	var seqs [][]int
	for i := range respOps {
		seqs = append(seqs, []int{i})
	}
	script, urls := respScript(seqs)
	b, _ := json.Marshal(respCfg{Script: script, URLs: urls})
	rep := pool.Exec(&sb.Req{Kind: "resp", Data: b, DeadlineMs: 30000})
	if rep.Outcome != sb.OK {
		rec.InfraProblem("calibration: %s %s", rep.Outcome, clip(rep.Msg, 300))
		return nil
	}
	var out []respObs
	json.Unmarshal(rep.Data, &out)
	eff := make([]opEffect, len(respOps))
	for i, o := range out {
		if o.Panic != "" {
			rec.InfraProblem("calibration of %s panicked: %s", respOps[i].Name, o.Panic)
			return nil
		}
		eff[i] = opEffect{Body: o.Body, Headers: o.Headers, Status: o.Status, Commits: o.Commits}
	}
	return eff
}

// c13RunBatch serves a batch of sequences and compares each with the model.
func c13RunBatch(pool *sb.Pool, rec *sb.Rec, seqs [][]int, eff []opEffect) []*failure {
	script, urls := respScript(seqs)
	b, _ := json.Marshal(respCfg{Script: script, URLs: urls})
	rep := pool.Exec(&sb.Req{Kind: "resp", Data: b, DeadlineMs: 60000})
	rec.EvalN(len(seqs))
	if rep.Outcome != sb.OK {
		if rep.Outcome == sb.Infra {
			rec.InfraProblem("%s", clip(rep.Msg, 300))
			return nil
		}
		return []*failure{{Key: "cell:process:" + rep.Outcome, Detail: fmt.Sprintf("%s at %s serving a batch: %s", rep.Outcome, rep.Site, clip(rep.Msg, 200)), Case: c13Case{Script: script, Kind: "batch"}}}
	}
	var out []respObs
	json.Unmarshal(rep.Data, &out)
	var fs []*failure
	for i, o := range out {
		want := respModel(seqs[i], eff)
		cs := c13Case{Seq: seqNames(seqs[i]), Ops: seqs[i], Kind: "sequence"}
		if o.Panic != "" {
			fs = append(fs, &failure{Key: "cell:panic", Detail: fmt.Sprintf("handler %v panicked: %s", cs.Seq, o.Panic), Case: cs})
			continue
		}
		if o.Commits > 1 {
			fs = append(fs, &failure{Key: "cell:double-commit", Detail: fmt.Sprintf("sequence %v: the underlying writer saw %d WriteHeader calls", cs.Seq, o.Commits), Case: cs})
			continue
		}
		ws, gs := obsString(want), obsString(o)
		if ws != gs {
			what := "cell:status"
			switch {
			case want.Status != o.Status:
			case want.Body != o.Body:
				what = "cell:body"
			case want.Commits != o.Commits:
				what = "cell:commit-count"
			default:
				what = "cell:headers"
			}
			fs = append(fs, &failure{Key: what, Detail: fmt.Sprintf("sequence %v:\n  model:  %s\n  client: %s", cs.Seq, ws, gs), Case: cs})
		}
	}
	return fs
}

func seqNonTrivial(seq []int) bool {
	committedAt := -1
	terminals := 0
	for i, op := range seq {
		switch respOps[op].Name {
		case "write", "json", "html", "redirect", "noContent", "writeHeader":
			terminals++
			if committedAt < 0 {
				committedAt = i
			}
		default:
			if committedAt >= 0 {
				return true // a status/header op after the first body/terminal op
			}
		}
	}
	return terminals >= 2
}

// canonical: sequences identical up to swapping the two header names / the two status codes are visited once
func seqCanonical(seq []int) bool {
	firstStatus, firstHeader := -1, -1
	for _, op := range seq {
		switch respOps[op].Name {
		case "status201", "status404":
			if firstStatus < 0 {
				firstStatus = op
			}
		case "headerA", "headerB":
			if firstHeader < 0 {
				firstHeader = op
			}
		}
	}
	return (firstStatus < 0 || respOps[firstStatus].Name == "status201") && (firstHeader < 0 || respOps[firstHeader].Name == "headerA")
}

// ---- middleware ----

func mwScript(prios []int) string {
	var sb strings.Builder
	sb.WriteString("<?php\nuse Net\\Http\\Server;\n$server = new Server('127.0.0.1', 0);\n")
	for i, p := range prios {
		fmt.Fprintf(&sb, "$server->middleware(function ($r, $w, $next) { $w->write('<%d'); $next($r, $w); $w->write('%d>'); }, %d);\n", i, i, p)
	}
	sb.WriteString("$server->get('/m', function ($req, $res) { $res->write('H'); });\n")
	return sb.String()
}

func mwExpected(prios []int) string {
	idx := make([]int, len(prios))
	for i := range idx {
		idx[i] = i
	}
	sort.SliceStable(idx, func(a, b int) bool { return prios[idx[a]] < prios[idx[b]] })
	var pre, post string
	for _, i := range idx {
		pre += fmt.Sprintf("<%d", i)
		post = fmt.Sprintf("%d>", i) + post
	}
	return pre + "H" + post
}

func c13JudgeMW(pool *sb.Pool, rec *sb.Rec, prios []int) *failure {
	script := mwScript(prios)
	b, _ := json.Marshal(respCfg{Script: script, URLs: []string{"/m"}})
	rep := pool.Exec(&sb.Req{Kind: "resp", Data: b, DeadlineMs: 30000})
	rec.Eval()
	cs := c13Case{Script: script, Kind: "middleware", Want: mwExpected(prios)}
	if rep.Outcome != sb.OK {
		if rep.Outcome == sb.Infra {
			rec.InfraProblem("%s", clip(rep.Msg, 300))
			return nil
		}
		return &failure{Key: "cell:middleware:process:" + rep.Outcome, Detail: clip(rep.Msg, 200), Case: cs}
	}
	var out []respObs
	json.Unmarshal(rep.Data, &out)
	if len(out) != 1 {
		return nil
	}
	if out[0].Panic != "" {
		return &failure{Key: "cell:middleware:panic", Detail: fmt.Sprintf("priorities %v: %s", prios, out[0].Panic), Case: cs}
	}
	if out[0].Body != cs.Want {
		return &failure{Key: "cell:middleware:order", Detail: fmt.Sprintf("middlewares registered with priorities %v: want %q got %q", prios, cs.Want, out[0].Body), Case: cs}
	}
	return nil
}

// c13JudgeSplit: the same operation sequence, split over closure middlewares and the route handler
// (before-$next parts outermost first, then the handler, then the after-$next parts innermost first),
// must give the client exactly what the model gives for the whole sequence in one handler: commit
// state belongs to the request, not to the layer that happens to hold the response object.
func c13JudgeSplit(pool *sb.Pool, rec *sb.Rec, seq []int, cuts []int, eff []opEffect) *failure {
	// cuts: ascending positions; with k middlewares there are 2k cuts: before_1..before_k | handler | after_k..after_1
	k := len(cuts) / 2
	parts := make([][]int, 0, 2*k+1)
	prev := 0
	for _, c := range cuts {
		parts = append(parts, seq[prev:c])
		prev = c
	}
	parts = append(parts, seq[prev:])
	// when neither a middleware's before-part nor the handler commits, the server commits the pending
	// status when the handler returns; what a middleware's after-part can still change is then not
	// stated by the property: such splits are not judged
	committed, afterOps := false, 0
	for i, p := range parts {
		for _, op := range p {
			if i <= k && respOps[op].Name != "status201" && respOps[op].Name != "status404" && respOps[op].Name != "headerA" && respOps[op].Name != "headerB" && respOps[op].Name != "cookie" {
				committed = true
			}
			if i > k {
				afterOps++
			}
		}
	}
	if afterOps > 0 && !committed {
		rec.Label("split.not-judged(after-part without an earlier commit)", "")
		return nil
	}
	ops := func(p []int) string {
		var b strings.Builder
		for _, op := range p {
			b.WriteString(" " + respOps[op].Src)
		}
		return b.String()
	}
	var sbd strings.Builder
	sbd.WriteString("<?php\nuse Net\\Http\\Server;\n$server = new Server('127.0.0.1', 0);\n")
	for i := 0; i < k; i++ {
		fmt.Fprintf(&sbd, "$server->middleware(function ($req, $res, $next) {%s $next($req, $res);%s }, %d);\n", ops(parts[i]), ops(parts[2*k-i]), i)
	}
	fmt.Fprintf(&sbd, "$server->get('/m', function ($req, $res) {%s });\n", ops(parts[k]))
	script := sbd.String()
	b, _ := json.Marshal(respCfg{Script: script, URLs: []string{"/m"}})
	rep := pool.Exec(&sb.Req{Kind: "resp", Data: b, DeadlineMs: 30000})
	rec.Eval()
	cs := c13Case{Seq: seqNames(seq), Ops: seq, Script: script, Kind: "split", Cuts: cuts}
	if rep.Outcome != sb.OK {
		if rep.Outcome == sb.Infra {
			rec.InfraProblem("%s", clip(rep.Msg, 300))
			return nil
		}
		return &failure{Key: "cell:split:process:" + rep.Outcome, Detail: clip(rep.Msg, 200), Case: cs}
	}
	var out []respObs
	json.Unmarshal(rep.Data, &out)
	if len(out) != 1 {
		return nil
	}
	o := out[0]
	want := respModel(seq, eff)
	if o.Panic != "" {
		return &failure{Key: "cell:split:panic", Detail: fmt.Sprintf("%v split at %v panicked: %s", cs.Seq, cuts, o.Panic), Case: cs}
	}
	if o.Commits > 1 {
		return &failure{Key: "cell:split:double-commit", Detail: fmt.Sprintf("%v split at %v: the underlying writer saw %d WriteHeader calls\n%s", cs.Seq, cuts, o.Commits, script), Case: cs}
	}
	if ws, gs := obsString(want), obsString(o); ws != gs {
		what := "status"
		switch {
		case want.Status != o.Status:
		case want.Body != o.Body:
			what = "body"
		case want.Commits != o.Commits:
			what = "commit-count"
		default:
			what = "headers"
		}
		return &failure{Key: "cell:split:" + what, Detail: fmt.Sprintf("%v split over %d middleware(s) at %v:\n  model (one handler): %s\n  client:              %s\n%s", cs.Seq, k, cuts, ws, gs, script), Case: cs}
	}
	return nil
}

func TestC13(t *testing.T) {
	cfg := sb.LoadConfig("C13")
	rec := sb.NewRec(cfg)
	defer rec.Flush()
	rec.R.Rule = "complete enumeration of all operation sequences up to length 4 (thorough: 6, sequences identical up to renaming the two header names / two status codes visited once) over 11 response operations {status(201), status(404), header(X-A), header(X-B), cookie, write, json, html, redirect, noContent, writeHeader(202)}, each a route handler (500 routes per VM) served through an instrumented ResponseWriter; rapid sequences of length 7..12; all middleware stacks of <= 5 entries with priorities from {-1,0,0,1,5} in all registration orders and random stacks of 6..24 entries with priorities from {0,1,2}; every sequence of length 2..3 (and random ones up to 8) split over 1-2 closure middlewares (before $next / handler / after $next) and compared with the model of the unsplit sequence. Non-trivial = a status/header operation after the first body/terminal operation, or two terminal operations; distinct by sequence."
	pool := &sb.Pool{}
	defer pool.Close()
	dl := time.Now().Add(budget(cfg, 60, 800))
	eff := c13Calibrate(pool, rec)
	if eff == nil {
		return
	}
	if cfg.Replay != "" {
		rf, err := sb.LoadReplay(cfg.Replay)
		if err != nil {
			rec.InfraProblem("replay: %v", err)
			return
		}
		var c c13Case
		json.Unmarshal(rf.Case, &c)
		rec.NonTrivial(fmt.Sprint(c.Seq), c.Script)
		rec.NonTrivial(fmt.Sprint(c.Seq), c.Script, "r")
		if c.Kind == "split" {
			if f := c13JudgeSplit(pool, rec, c.Ops, c.Cuts, eff); f != nil {
				rec.Fail(rf.Key, f.Detail, f.Case)
			}
			return
		}
		if c.Kind == "middleware" {
			// priorities are embedded in the script; re-derive by serving it
			b, _ := json.Marshal(respCfg{Script: c.Script, URLs: []string{"/m"}})
			rep := pool.Exec(&sb.Req{Kind: "resp", Data: b})
			var out []respObs
			json.Unmarshal(rep.Data, &out)
			if len(out) == 1 && out[0].Body != c.Want {
				rec.Fail(rf.Key, fmt.Sprintf("want %q got %q", c.Want, out[0].Body), c)
			}
			return
		}
		for _, f := range c13RunBatch(pool, rec, [][]int{c.Ops}, eff) {
			rec.Fail(rf.Key, f.Detail, f.Case)
		}
		return
	}
	maxLen := 4
	if cfg.Thorough() {
		maxLen = 6
	}
	complete := true
	var batch [][]int
	batchNo := 0
	flush := func() {
		if len(batch) == 0 {
			return
		}
		batchNo++
		if cfg.Mine(batchNo) {
			if time.Now().After(dl) {
				complete = false
			} else {
				for _, s := range batch {
					id := fmt.Sprint(s)
					if seqNonTrivial(s) {
						rec.NonTrivial(id)
					}
				}
				rec.Label(fmt.Sprintf("batch.len<=%d", maxLen), fmt.Sprint(seqNames(batch[len(batch)/2])))
				for _, f := range c13RunBatch(pool, rec, batch, eff) {
					rec.Fail(f.Key, f.Detail, f.Case)
				}
			}
		}
		batch = nil
	}
	var gen func(prefix []int)
	gen = func(prefix []int) {
		if len(prefix) > 0 && seqCanonical(prefix) {
			batch = append(batch, append([]int{}, prefix...))
			if len(batch) == 500 {
				flush()
			}
		}
		if len(prefix) == maxLen {
			return
		}
		for op := range respOps {
			gen(append(prefix, op))
		}
	}
	gen(nil)
	flush()
	// middleware stacks
	prioPool := []int{-1, 0, 0, 1, 5}
	mwIdx := 0
	var perm func(used []bool, cur []int)
	perm = func(used []bool, cur []int) {
		if len(cur) > 0 {
			mwIdx++
			if cfg.Mine(mwIdx) {
				ps := make([]int, len(cur))
				for i, k := range cur {
					ps[i] = prioPool[k]
				}
				rec.NonTrivial("mw", fmt.Sprint(cur))
				rec.Label("middleware", fmt.Sprint(ps))
				if f := c13JudgeMW(pool, rec, ps); f != nil {
					rec.Fail(f.Key, f.Detail, f.Case)
				}
			}
		}
		for k := range prioPool {
			if !used[k] {
				used[k] = true
				perm(used, append(cur, k))
				used[k] = false
			}
		}
	}
	perm(make([]bool, len(prioPool)), nil)
	rec.R.Exhaustive = complete
	rec.Flush()
	total := 3000 / cfg.NShards
	if cfg.Thorough() {
		total = 200000 / cfg.NShards
	}
	// split sequences: every sequence of length <= 3 over every placement of one middleware's cuts (quick: a
	// rotating share), then random ones with 1-2 middlewares
	splitIdx := 0
	var gsplit func(prefix []int)
	gsplit = func(prefix []int) {
		if n := len(prefix); n >= 2 {
			for a := 0; a <= n; a++ {
				for b := a; b <= n; b++ {
					if a == 0 && b == n {
						continue // everything in the handler: the plain case
					}
					splitIdx++
					if !cfg.Mine(splitIdx) || (!cfg.Thorough() && (splitIdx/cfg.NShards)%4 != 0) || time.Now().After(dl) {
						continue
					}
					rec.NonTrivial("split", fmt.Sprint(prefix, a, b))
					rec.Label("split.1mw", "")
					if f := c13JudgeSplit(pool, rec, append([]int{}, prefix...), []int{a, b}, eff); f != nil {
						rec.Fail(f.Key, f.Detail, f.Case)
					}
				}
			}
		}
		if len(prefix) == 3 {
			return
		}
		for op := range respOps {
			gsplit(append(prefix, op))
		}
	}
	gsplit(nil)
	rec.Flush()
	rapidLoop(t, rec, "split", total/2+1, 50, dl, func(rt *rapid.T) *failure {
		seq := rapid.SliceOfN(rapid.IntRange(0, len(respOps)-1), 2, 8).Draw(rt, "seq")
		k := rapid.IntRange(1, 2).Draw(rt, "nmw")
		cuts := rapid.SliceOfN(rapid.IntRange(0, len(seq)), 2*k, 2*k).Draw(rt, "cuts")
		sort.Ints(cuts)
		rec.NonTrivial("split", fmt.Sprint(seq, cuts))
		rec.Label(fmt.Sprintf("split.%dmw", k), "")
		if f := c13JudgeSplit(pool, rec, seq, cuts, eff); f != nil {
			if !rec.IsKnown(f.Key) {
				return f
			}
			rec.Fail(f.Key, f.Detail, f.Case)
		}
		return nil
	})
	// large middleware stacks with many ties (an unstable sort only shows beyond a dozen entries)
	rapidLoop(t, rec, "bigstack", total/4+1, 25, dl, func(rt *rapid.T) *failure {
		ps := rapid.SliceOfN(rapid.IntRange(0, 2), 6, 24).Draw(rt, "prios")
		rec.NonTrivial("mwbig", fmt.Sprint(ps))
		rec.Label(fmt.Sprintf("middleware.big>=13:%v", len(ps) >= 13), "")
		if f := c13JudgeMW(pool, rec, ps); f != nil {
			if !rec.IsKnown(f.Key) {
				return f
			}
			rec.Fail(f.Key, f.Detail, f.Case)
		}
		return nil
	})
	rapidLoop(t, rec, "long", total, 100, dl, func(rt *rapid.T) *failure {
		seq := rapid.SliceOfN(rapid.IntRange(0, len(respOps)-1), 7, 12).Draw(rt, "seq")
		if seqNonTrivial(seq) {
			rec.NonTrivial(fmt.Sprint(seq))
		}
		rec.Label("long", "")
		for _, f := range c13RunBatch(pool, rec, [][]int{seq}, eff) {
			if !rec.IsKnown(f.Key) {
				return f
			}
			rec.Fail(f.Key, f.Detail, f.Case)
		}
		return nil
	})
}
