package props

import (
	"encoding/json"
	"flag"
	"fmt"
	"os"
	"strconv"
	"testing"
	"time"

	"pgregory.net/rapid"
	"verifharness/sb"
)

func TestMain(m *testing.M) {
	sb.MaybeWorker()
	sb.MaybeMerge()
	os.Exit(m.Run())
}

// budget returns the wall-clock budget of this shard's search in seconds.
func budget(cfg sb.Config, quick, thorough int) time.Duration {
	if s, err := strconv.Atoi(os.Getenv("VERIF_BUDGET_S")); err == nil && s > 0 {
		return time.Duration(s) * time.Second
	}
	if cfg.Thorough() {
		return time.Duration(thorough) * time.Second
	}
	return time.Duration(quick) * time.Second
}

// failure is what a property function reports for a failing case.
type failure struct {
	Key    string
	Detail string
	Case   any
	// Post, if set, is called once on the final (rapid-shrunk) failure to reduce it further.
	Post func() *failure
}

// rapidLoop runs prop for up to total cases in chunks, each chunk a
// rapid.Check with its own derived seed, until the budget is used. prop
// returns nil when the case passes. Known-finding keys never fail a case. After
// a violation is found (and shrunk) its key is excluded for the rest of the
// run so that the search continues behind it.
func rapidLoop(t *testing.T, rec *sb.Rec, name string, total, chunk int, deadline time.Time, prop func(rt *rapid.T) *failure) {
	flag.Set("rapid.nofailfile", "true")
	flag.Set("rapid.shrinktime", "20s")
	excluded := map[string]bool{}
	done := 0
	for ci := 0; done < total; ci++ {
		if time.Now().After(deadline) {
			rec.Note("%s: budget used after %d of %d cases", name, done, total)
			break
		}
		n := chunk
		if total-done < n {
			n = total - done
		}
		seed := rec.Cfg.ShardSeed(fmt.Sprintf("%s#%d", name, ci))
		flag.Set("rapid.checks", strconv.Itoa(n))
		flag.Set("rapid.seed", strconv.FormatUint(seed, 10))
		var last *failure
		firstKey := ""
		ran := 0
		ok := t.Run(fmt.Sprintf("%s/%d", name, ci), func(st *testing.T) {
			rapid.Check(st, func(rt *rapid.T) {
				f := prop(rt)
				ran++
				if f == nil {
					return
				}
				if rec.IsKnown(f.Key) {
					rec.Fail(f.Key, f.Detail, f.Case)
					return
				}
				if excluded[f.Key] {
					return
				}
				if firstKey == "" {
					firstKey = f.Key
				}
				if f.Key != firstKey {
					return // keep shrinking on the same failure
				}
				last = f
				rt.Fatalf("%s: %s", f.Key, f.Detail)
			})
		})
		done += n
		if !ok && last != nil {
			if last.Post != nil {
				if red := last.Post(); red != nil {
					// keep the rapid-shrunk case next to the AST-reduced one, so that a reduction that
					// drifted to a different cause can be told apart afterwards
					red.Case = map[string]any{"reduced": red.Case, "before_reduction": last.Case}
					last = red
				}
			}
			rec.Fail(last.Key, last.Detail, last.Case)
			excluded[last.Key] = true
			if len(excluded) >= 8 {
				rec.Note("%s: stopping after 8 distinct violations", name)
				break
			}
		} else if !ok {
			rec.InfraProblem("%s chunk %d failed without a recorded failure (generator problem?)", name, ci)
			break
		}
		rec.Flush()
	}
}

// unwrapCase returns the reduced case of a replay file written after an AST reduction
// ({"reduced": ..., "before_reduction": ...}), or the case itself.
func unwrapCase(raw json.RawMessage) json.RawMessage {
	var w struct {
		Reduced json.RawMessage `json:"reduced"`
	}
	if json.Unmarshal(raw, &w) == nil && len(w.Reduced) > 0 {
		return w.Reduced
	}
	return raw
}
