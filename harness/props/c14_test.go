package props

import (
	"bytes"
	"crypto/md5"
	"crypto/sha1"
	"crypto/sha256"
	"crypto/sha512"
	"encoding/base64"
	"encoding/hex"
	"encoding/json"
	"fmt"
	"hash/crc32"
	"math"
	"net/url"
	"regexp"
	"sort"
	"strconv"
	"strings"
	"testing"
	"time"
	"unicode/utf8"

	"pgregory.net/rapid"
	"verifharness/sb"
)

// ---------------------------------------------------------------------------
// C14 — encoders are faithful and decoders total (script-level codecs; protowire in c14_pw_test.go).
// ---------------------------------------------------------------------------

func init() {
	sb.Assume("C14",
		"reference implementations: Go encoding/json (UseNumber), encoding/base64, encoding/hex, net/url, crypto/md5|sha1|sha256|sha512, hash/crc32, google.golang.org/protobuf/encoding/protowire; an independent reader/writer of the PHP serialize grammar written for this check",
		"json_encode of a string that is not valid UTF-8 may be refused (false / error); if output is produced it must decode to the same bytes, so a silent U+FFFD substitution is a failure",
		"string-keyed maps are built as origami's object-like keyed values (what a [\"k\" => v] literal evaluates to); round trips are compared through the typed observation sink modulo integer keys",
		"decoders on arbitrary bytes must terminate inside the sandbox watchdog without a Go panic; json_decode and unserialize must reject exactly the inputs their reference parser rejects",
		"urlencode/rawurlencode output alphabet: unreserved characters and %HH (and '+' for space in urlencode), the documented contract of the PHP built-ins origami mirrors",
		"findings are keyed cell:<codec>:<clause>:<value class>",
	)
}

// ---- value trees ----

type cval struct {
	T     string
	I     int64
	F     float64
	S     string
	B     bool
	Keys  []string
	Items []*cval
}

func (v *cval) desc() sb.ValDesc {
	switch v.T {
	case "int":
		return sb.ValDesc{T: "int", I: v.I}
	case "float":
		return sb.ValDesc{T: "float", F: v.F}
	case "str":
		return sb.Str(v.S)
	case "bool":
		return sb.ValDesc{T: "bool", B: v.B}
	case "list":
		d := sb.ValDesc{T: "list"}
		for _, it := range v.Items {
			d.Items = append(d.Items, it.desc())
		}
		return d
	case "map":
		d := sb.ValDesc{T: "map"}
		for i, it := range v.Items {
			d.Keys = append(d.Keys, hex.EncodeToString([]byte(v.Keys[i])))
			d.Items = append(d.Items, it.desc())
		}
		return d
	}
	return sb.ValDesc{T: "null"}
}

func strClass(s string) string {
	switch {
	case !utf8.ValidString(s):
		return "invalid-utf8"
	case strings.IndexFunc(s, func(r rune) bool { return r < 0x20 || r == 0x7f }) >= 0:
		return "control"
	case strings.ContainsAny(s, "\"\\/"):
		return "quote-backslash"
	case strings.IndexFunc(s, func(r rune) bool { return r > 0x7f }) >= 0:
		return "multibyte"
	case s == "":
		return "empty"
	}
	return "ascii"
}

func (v *cval) class() string {
	switch v.T {
	case "int":
		if v.I > 1<<53 || v.I < -(1<<53) {
			return "int-big"
		}
		return "int"
	case "float":
		if v.F == math.Trunc(v.F) {
			return "float-integral"
		}
		return "float"
	case "str":
		return "str-" + strClass(v.S)
	case "list":
		if len(v.Items) == 0 {
			return "list-empty"
		}
		for _, it := range v.Items {
			if it.T == "list" || it.T == "map" {
				return "list-nested"
			}
		}
		return "list"
	case "map":
		if len(v.Items) == 0 {
			return "map-empty"
		}
		for _, it := range v.Items {
			if it.T == "list" || it.T == "map" {
				return "map-nested"
			}
		}
		return "map"
	}
	return v.T
}

var strBoundary = []string{"", "a", "hello world", "\"quoted\"", "back\\slash", "sl/ash", "tab\there", "nl\nhere", "\x00nul", "\x7f", "é", "世界", "😀", "a&b=c+d e", "%41", "\xff", "\xc0\x80", "\xed\xa0\x80", "0", "12", "1.5", "true", "null", "k"}

func genVal(rt *rapid.T, d int) *cval {
	k := rapid.IntRange(0, 11).Draw(rt, "vk")
	if d <= 0 && k >= 8 {
		k = k % 8
	}
	switch k {
	case 0:
		return &cval{T: "int", I: rapid.SampledFrom([]int64{0, 1, -1, 1 << 53, -(1 << 53), 1<<53 + 1, math.MaxInt64, math.MinInt64, 42}).Draw(rt, "ib")}
	case 1:
		return &cval{T: "int", I: rapid.Int64().Draw(rt, "i")}
	case 2:
		return &cval{T: "float", F: rapid.SampledFrom([]float64{0, math.Copysign(0, -1), 1.5, -2.25, 1e-7, 1e21, 0.1, 3.0, 1e308}).Draw(rt, "fb")}
	case 3:
		return &cval{T: "bool", B: rapid.Bool().Draw(rt, "b")}
	case 4:
		return &cval{T: "null"}
	case 5:
		return &cval{T: "str", S: rapid.SampledFrom(strBoundary).Draw(rt, "sb")}
	case 6:
		bs := rapid.SliceOfN(rapid.Byte(), 0, 12).Draw(rt, "bytes")
		return &cval{T: "str", S: string(bs)}
	case 7:
		return &cval{T: "str", S: rapid.StringN(0, 8, -1).Draw(rt, "ustr")}
	case 8, 9:
		v := &cval{T: "list"}
		for n := rapid.IntRange(0, 4).Draw(rt, "ln"); n > 0; n-- {
			v.Items = append(v.Items, genVal(rt, d-1))
		}
		return v
	default:
		v := &cval{T: "map"}
		used := map[string]bool{}
		for n := rapid.IntRange(0, 4).Draw(rt, "mn"); n > 0; n-- {
			key := rapid.SampledFrom([]string{"k", "key2", "a b", "é", "x\"y", "Z", "n0", "\x01", "t\tab", "nl\n", "\x7f", "\x1f", "b\\s", "s/l", "<&>", "\u2028", "\x0b", "\x00z"}).Draw(rt, "mk")
			if used[key] {
				continue
			}
			used[key] = true
			v.Keys = append(v.Keys, key)
			v.Items = append(v.Items, genVal(rt, d-1))
		}
		return v
	}
}

// ---- JSON reference comparison ----

func jsonEqualTree(v *cval, j any) (bool, string) {
	switch v.T {
	case "null":
		return j == nil, "null"
	case "bool":
		b, ok := j.(bool)
		return ok && b == v.B, "bool"
	case "int":
		n, ok := j.(json.Number)
		if !ok {
			return false, fmt.Sprintf("int %d encoded as %T", v.I, j)
		}
		return n.String() == strconv.FormatInt(v.I, 10), fmt.Sprintf("int %d encoded as %s", v.I, n)
	case "float":
		n, ok := j.(json.Number)
		if !ok {
			return false, fmt.Sprintf("float encoded as %T", j)
		}
		f, err := strconv.ParseFloat(n.String(), 64)
		return err == nil && f == v.F, fmt.Sprintf("float %v encoded as %s", v.F, n)
	case "str":
		s, ok := j.(string)
		return ok && s == v.S, fmt.Sprintf("string %q decoded as %q", v.S, s)
	case "list":
		l, ok := j.([]any)
		if !ok || len(l) != len(v.Items) {
			return false, fmt.Sprintf("list of %d encoded as %T", len(v.Items), j)
		}
		for i := range l {
			if ok, why := jsonEqualTree(v.Items[i], l[i]); !ok {
				return false, why
			}
		}
		return true, ""
	case "map":
		m, ok := j.(map[string]any)
		if !ok {
			if l, isL := j.([]any); isL && len(l) == 0 && len(v.Items) == 0 {
				return true, "" // an empty keyed value may be [] : not asserted
			}
			return false, fmt.Sprintf("map encoded as %T", j)
		}
		if len(m) != len(v.Items) {
			return false, fmt.Sprintf("map of %d keys encoded with %d keys", len(v.Items), len(m))
		}
		for i, k := range v.Keys {
			e, has := m[k]
			if !has {
				return false, fmt.Sprintf("key %q missing", k)
			}
			if ok, why := jsonEqualTree(v.Items[i], e); !ok {
				return false, why
			}
		}
		return true, ""
	}
	return false, "?"
}

func anyNode(v *cval, pred func(*cval) bool) bool {
	if pred(v) {
		return true
	}
	for _, it := range v.Items {
		if anyNode(it, pred) {
			return true
		}
	}
	return false
}

// rootClass names the most specific known-problematic ingredient of a value, so that a
// finding is keyed by its cause and not by the shape of the container it happened to sit in.
func rootClass(v *cval) string {
	switch {
	case hasInvalidUTF8(v):
		return "has-invalid-utf8"
	case anyNode(v, func(n *cval) bool { return n.T == "float" }):
		return "has-float"
	case anyNode(v, func(n *cval) bool { return n.T == "map" }):
		return "has-keyed-map"
	case anyNode(v, func(n *cval) bool { return n.T == "int" && (n.I > 1<<53 || n.I < -(1<<53)) }):
		return "has-int-beyond-2^53"
	case anyNode(v, func(n *cval) bool { return n.T == "int" && (n.I > 1<<31-1 || n.I < -(1<<31)) }):
		return "has-int-beyond-2^31"
	case anyNode(v, func(n *cval) bool { return n.T == "str" && strClass(n.S) != "ascii" && strClass(n.S) != "empty" }):
		return "has-non-ascii-string"
	}
	return v.class()
}

func hasInvalidUTF8(v *cval) bool {
	if v.T == "str" {
		return !utf8.ValidString(v.S)
	}
	for i, it := range v.Items {
		if hasInvalidUTF8(it) || (i < len(v.Keys) && !utf8.ValidString(v.Keys[i])) {
			return true
		}
	}
	return false
}

func parseJSON(s string) (any, error) {
	dec := json.NewDecoder(strings.NewReader(s))
	dec.UseNumber()
	var out any
	if err := dec.Decode(&out); err != nil {
		return nil, err
	}
	if dec.More() {
		return nil, fmt.Errorf("trailing data")
	}
	return out, nil
}

// ---- PHP serialize reference ----

func refSerialize(v *cval) (string, bool) {
	switch v.T {
	case "null":
		return "N;", true
	case "bool":
		if v.B {
			return "b:1;", true
		}
		return "b:0;", true
	case "int":
		return "i:" + strconv.FormatInt(v.I, 10) + ";", true
	case "str":
		return fmt.Sprintf("s:%d:\"%s\";", len(v.S), v.S), true
	case "list":
		var sb strings.Builder
		fmt.Fprintf(&sb, "a:%d:{", len(v.Items))
		for i, it := range v.Items {
			s, ok := refSerialize(it)
			if !ok {
				return "", false
			}
			fmt.Fprintf(&sb, "i:%d;%s", i, s)
		}
		sb.WriteString("}")
		return sb.String(), true
	}
	return "", false // floats (precision) and keyed values are judged by round trip only
}

// refUnserialize parses the PHP serialize grammar (N b i d s a). Returns consumed bytes or -1.
func refUnserialize(b []byte, depth int) int {
	if depth > 64 || len(b) < 2 {
		return -1
	}
	readInt := func(p int) (int64, int) {
		q := p
		if q < len(b) && (b[q] == '-' || b[q] == '+') {
			q++
		}
		st := q
		for q < len(b) && b[q] >= '0' && b[q] <= '9' {
			q++
		}
		if q == st {
			return 0, -1
		}
		n, err := strconv.ParseInt(string(b[p:q]), 10, 64)
		if err != nil {
			return 0, -1
		}
		return n, q
	}
	switch b[0] {
	case 'N':
		if b[1] == ';' {
			return 2
		}
		return -1
	case 'b':
		if len(b) >= 4 && b[1] == ':' && (b[2] == '0' || b[2] == '1') && b[3] == ';' {
			return 4
		}
		return -1
	case 'i':
		if b[1] != ':' {
			return -1
		}
		_, q := readInt(2)
		if q < 0 || q >= len(b) || b[q] != ';' {
			return -1
		}
		return q + 1
	case 'd':
		if b[1] != ':' {
			return -1
		}
		q := bytes.IndexByte(b, ';')
		if q < 3 {
			return -1
		}
		s := string(b[2:q])
		if s != "INF" && s != "-INF" && s != "NAN" {
			if _, err := strconv.ParseFloat(s, 64); err != nil {
				return -1
			}
		}
		return q + 1
	case 's':
		if b[1] != ':' {
			return -1
		}
		n, q := readInt(2)
		if q < 0 || n < 0 || b[2] == '-' || b[2] == '+' || q+1 >= len(b) || b[q] != ':' || b[q+1] != '"' {
			return -1
		}
		end := q + 2 + int(n)
		if end+1 >= len(b)+0 && end+2 > len(b) {
			return -1
		}
		if end+2 > len(b) || b[end] != '"' || b[end+1] != ';' {
			return -1
		}
		return end + 2
	case 'a':
		if b[1] != ':' {
			return -1
		}
		n, q := readInt(2)
		if q < 0 || n < 0 || b[2] == '-' || b[2] == '+' || q+1 >= len(b) || b[q] != ':' || b[q+1] != '{' {
			return -1
		}
		p := q + 2
		for i := int64(0); i < n; i++ {
			if p >= len(b) || (b[p] != 'i' && b[p] != 's') {
				return -1
			}
			k := refUnserialize(b[p:], depth+1)
			if k < 0 {
				return -1
			}
			p += k
			if p >= len(b) {
				return -1
			}
			k = refUnserialize(b[p:], depth+1)
			if k < 0 {
				return -1
			}
			p += k
		}
		if p >= len(b) || b[p] != '}' {
			return -1
		}
		return p + 1
	}
	return -1
}

// ---- judge ----

type c14Case struct {
	Kind  string     `json:"kind"`
	Val   sb.ValDesc `json:"value"`
	Src   string     `json:"src"`
	Extra string     `json:"extra,omitempty"`
}

const c14ValueScript = `<?php
$v = __in(0);
__obs("in", $v);
try { $j = json_encode($v); __obs("json", $j); if (is_string($j)) { __obs("json.rt", json_encode(json_decode($j, true))); __obs("json.rt.obj", json_encode(json_decode($j))); } } catch (Throwable $e) { __obs("!json", $e->getMessage()); }
try { $s = serialize($v); __obs("ser", $s); if (is_string($s)) { __obs("ser.rt", unserialize($s)); } } catch (Throwable $e) { __obs("!ser", $e->getMessage()); }
`

const c14StringScript = `<?php
$v = __in(0);
try { $b = base64_encode($v); __obs("b64", $b); __obs("b64.rt", base64_decode($b)); } catch (Throwable $e) { __obs("!b64", $e->getMessage()); }
try { $h = bin2hex($v); __obs("hex", $h); } catch (Throwable $e) { __obs("!hex", $e->getMessage()); }
try { $u = urlencode($v); __obs("url", $u); __obs("url.rt", urldecode($u)); } catch (Throwable $e) { __obs("!url", $e->getMessage()); }
try { $r = rawurlencode($v); __obs("raw", $r); __obs("raw.rt", rawurldecode($r)); } catch (Throwable $e) { __obs("!raw", $e->getMessage()); }
try { __obs("md5", md5($v)); } catch (Throwable $e) { __obs("!md5", $e->getMessage()); }
try { __obs("h.md5", hash("md5", $v)); } catch (Throwable $e) { __obs("!h.md5", $e->getMessage()); }
try { __obs("h.sha1", hash("sha1", $v)); } catch (Throwable $e) { __obs("!h.sha1", $e->getMessage()); }
try { __obs("h.sha256", hash("sha256", $v)); } catch (Throwable $e) { __obs("!h.sha256", $e->getMessage()); }
try { __obs("h.sha512", hash("sha512", $v)); } catch (Throwable $e) { __obs("!h.sha512", $e->getMessage()); }
try { __obs("h.crc32b", hash("crc32b", $v)); } catch (Throwable $e) { __obs("!h.crc32b", $e->getMessage()); }
try { __obs("h.unknown", hash("no-such-algo", $v)); } catch (Throwable $e) { __obs("!h.unknown", $e->getMessage()); }
`

const c14DecodeScript = `<?php
$d = __in(0);
try { __obs("jd", json_decode($d, true)); __obs("jd.enc", json_encode(json_decode($d, true))); } catch (Throwable $e) { __obs("!jd", $e->getMessage()); }
try { __obs("jdo.enc", json_encode(json_decode($d))); } catch (Throwable $e) { __obs("!jdo", $e->getMessage()); }
try { __obs("us", unserialize($d)); } catch (Throwable $e) { __obs("!us", $e->getMessage()); }
try { __obs("b64d", base64_decode($d)); } catch (Throwable $e) { __obs("!b64d", $e->getMessage()); }
try { __obs("urld", urldecode($d)); } catch (Throwable $e) { __obs("!urld", $e->getMessage()); }
try { __obs("rawd", rawurldecode($d)); } catch (Throwable $e) { __obs("!rawd", $e->getMessage()); }
`

func unq(s string) (string, bool) {
	if !strings.HasPrefix(s, "s:") {
		return "", false
	}
	u, err := strconv.Unquote(s[2:])
	return u, err == nil
}

var urlAlphabet = regexp.MustCompile(`^([A-Za-z0-9\-_.~]|%[0-9A-Fa-f]{2}|\+)*$`)
var rawAlphabet = regexp.MustCompile(`^([A-Za-z0-9\-_.~]|%[0-9A-Fa-f]{2})*$`)

func c14Exec(pool *sb.Pool, script string, in sb.ValDesc) (obsMap, *sb.Rep) {
	b, _ := json.Marshal([]sb.ValDesc{in})
	rep := pool.Exec(&sb.Req{Kind: "script", Src: script, Tmpl: true, Run: true, Data: b, DeadlineMs: 5000})
	return parseObs(rep.Obs), &rep
}

func crashFailure(rep *sb.Rep, o obsMap, kind string, in sb.ValDesc, script string, labels []string) *failure {
	cs := c14Case{Kind: kind, Val: in, Src: script}
	switch rep.Outcome {
	case sb.Hang, sb.OOM, sb.Died:
		// observations are lost when the worker is killed: attribute by the sampled site
		site := rep.Site
		if site == "" {
			site = "?"
		}
		return &failure{Key: fmt.Sprintf("cell:crash:killed:%s:%s", kind, site), Detail: fmt.Sprintf("%s (%s) at %s while running the %s script", rep.Outcome, clip(rep.Msg, 120), rep.Site, kind), Case: cs}
	}
	for k, v := range o {
		if strings.HasPrefix(k, "!") && strings.Contains(v, sb.RecoveredPanicMarker) {
			return &failure{Key: fmt.Sprintf("cell:%s:go-panic", strings.TrimPrefix(k, "!")), Detail: fmt.Sprintf("Go panic in %s at %s: %s", k[1:], sb.PanicSite(strings.ReplaceAll(v, `\n`, "\n")), clip(firstLine(v), 160)), Case: cs}
		}
	}
	if rep.Outcome == sb.GoPanic {
		return &failure{Key: "cell:script:go-panic:" + rep.Site, Detail: clip(rep.Msg, 200), Case: cs}
	}
	return nil
}

func c14JudgeValue(pool *sb.Pool, rec *sb.Rec, v *cval) []*failure {
	in := v.desc()
	o, rep := c14Exec(pool, c14ValueScript, in)
	rec.Eval()
	if rep.Outcome == sb.Infra {
		rec.InfraProblem("%s", rep.Msg)
		return nil
	}
	var out []*failure
	if f := crashFailure(rep, o, "value", in, c14ValueScript, []string{"json", "ser"}); f != nil {
		return []*failure{f}
	}
	cls := rootClass(v)
	mk := func(key, d string) {
		out = append(out, &failure{Key: key + ":" + cls, Detail: fmt.Sprintf("%s  [value %s]", d, clip(valString(v), 200)), Case: c14Case{Kind: "value", Val: in, Src: c14ValueScript}})
	}
	// json_encode
	if js, ok := unq(o["json"]); ok {
		tree, err := parseJSON(js)
		if err != nil {
			mk("cell:json_encode:unparseable", fmt.Sprintf("encoding/json rejects the output %q: %v", clip(js, 120), err))
		} else if eq, why := jsonEqualTree(v, tree); !eq {
			mk("cell:json_encode:different-value", fmt.Sprintf("output %q reads back differently: %s", clip(js, 120), why))
		} else {
			// decode -> encode round trips must give the same document value
			for _, lbl := range []string{"json.rt", "json.rt.obj"} {
				if rt, ok := unq(o[lbl]); ok {
					t2, err := parseJSON(rt)
					if err != nil {
						mk("cell:json_decode:"+lbl, fmt.Sprintf("json_encode(json_decode(..)) gave unparseable %q", clip(rt, 120)))
					} else if eq, why := jsonEqualTree(v, t2); !eq {
						if lbl == "json.rt.obj" {
							// one root cause for every value class: key without the class
							root := "scalar"
							switch {
							case strings.HasPrefix(js, "{"):
								root = "object"
							case strings.HasPrefix(js, "["):
								root = "array"
							}
							out = append(out, &failure{Key: "cell:json_decode:object-mode:root-" + root, Detail: fmt.Sprintf("json_encode(json_decode(%q)) = %q: %s", clip(js, 100), clip(rt, 100), why), Case: c14Case{Kind: "value", Val: in, Src: c14ValueScript}})
						} else {
							mk("cell:json_decode:"+lbl, fmt.Sprintf("json_encode(json_decode(%q, true)) = %q: %s", clip(js, 100), clip(rt, 100), why))
						}
					}
				} else if _, isErr := o["!json"]; !isErr {
					mk("cell:json_decode:"+lbl, fmt.Sprintf("round trip of %q did not produce a string: %s", clip(js, 100), clip(o[lbl], 80)))
				}
			}
		}
	} else if !hasInvalidUTF8(v) && !(v.T == "float" && (math.IsInf(v.F, 0) || math.IsNaN(v.F))) {
		mk("cell:json_encode:refused", fmt.Sprintf("no JSON produced for an encodable value: %s %s", clip(o["json"], 80), clip(o["!json"], 120)))
	}
	// serialize
	if ss, ok := unq(o["ser"]); ok {
		if want, has := refSerialize(v); has && ss != want {
			mk("cell:serialize:format", fmt.Sprintf("serialize gave %q, the format's writer gives %q", clip(ss, 120), clip(want, 120)))
		}
		if normSnap(o["ser.rt"]) != normSnap(o["in"]) {
			mk("cell:serialize:roundtrip", fmt.Sprintf("unserialize(serialize(v)) = %s, v = %s (serialized %q)", clip(o["ser.rt"], 120), clip(o["in"], 120), clip(ss, 120)))
		}
	} else {
		mk("cell:serialize:refused", fmt.Sprintf("serialize did not return a string: %s %s", clip(o["ser"], 80), clip(o["!ser"], 120)))
	}
	return out
}

func valString(v *cval) string {
	b, _ := json.Marshal(v.desc())
	return string(b)
}

func c14JudgeString(pool *sb.Pool, rec *sb.Rec, s string) []*failure {
	in := sb.Str(s)
	o, rep := c14Exec(pool, c14StringScript, in)
	rec.Eval()
	if rep.Outcome == sb.Infra {
		rec.InfraProblem("%s", rep.Msg)
		return nil
	}
	if f := crashFailure(rep, o, "string", in, c14StringScript, []string{"b64", "hex", "url", "raw", "md5", "h.md5", "h.sha1", "h.sha256", "h.sha512", "h.crc32b", "h.unknown"}); f != nil {
		return []*failure{f}
	}
	cls := "str-" + strClass(s)
	if strings.ContainsAny(s, "&=+ %") {
		cls = "str-url-reserved"
	}
	var out []*failure
	mk := func(key, d string) {
		out = append(out, &failure{Key: key + ":" + cls, Detail: fmt.Sprintf("%s  [input %q]", d, clip(s, 80)), Case: c14Case{Kind: "string", Val: in, Src: c14StringScript}})
	}
	mkNoClass := func(key, d string) {
		out = append(out, &failure{Key: key, Detail: fmt.Sprintf("%s  [input %q]", d, clip(s, 80)), Case: c14Case{Kind: "string", Val: in, Src: c14StringScript}})
	}
	if e, ok := unq(o["b64"]); ok {
		if d, err := base64.StdEncoding.DecodeString(e); err != nil || string(d) != s {
			mk("cell:base64_encode:different-value", fmt.Sprintf("base64_encode gave %q, which encoding/base64 reads as %q (%v)", clip(e, 80), clip(string(d), 80), err))
		}
		if rt, ok := unq(o["b64.rt"]); !ok || rt != s {
			mk("cell:base64_decode:roundtrip", fmt.Sprintf("base64_decode(base64_encode(s)) = %s", clip(o["b64.rt"], 80)))
		}
	} else {
		mk("cell:base64_encode:refused", clip(o["b64"]+o["!b64"], 120))
	}
	if e, ok := unq(o["hex"]); ok {
		if d, err := hex.DecodeString(e); err != nil || string(d) != s {
			mk("cell:bin2hex:different-value", fmt.Sprintf("bin2hex gave %q", clip(e, 80)))
		}
	} else {
		mk("cell:bin2hex:refused", clip(o["hex"]+o["!hex"], 120))
	}
	if e, ok := unq(o["url"]); ok {
		if d, err := url.QueryUnescape(e); err != nil || d != s {
			mk("cell:urlencode:different-value", fmt.Sprintf("urlencode gave %q, which net/url reads as %q (%v)", clip(e, 80), clip(d, 80), err))
		} else if !urlAlphabet.MatchString(e) {
			mkNoClass("cell:urlencode:alphabet", fmt.Sprintf("urlencode output %q contains characters outside [A-Za-z0-9-_.], %%HH and +", clip(e, 80)))
		}
		if rt, ok := unq(o["url.rt"]); !ok || rt != s {
			mk("cell:urldecode:roundtrip", fmt.Sprintf("urldecode(urlencode(s)) = %s", clip(o["url.rt"], 80)))
		}
	} else {
		mk("cell:urlencode:refused", clip(o["url"]+o["!url"], 120))
	}
	if e, ok := unq(o["raw"]); ok {
		if d, err := url.PathUnescape(e); err != nil || d != s {
			mk("cell:rawurlencode:different-value", fmt.Sprintf("rawurlencode gave %q, which net/url reads as %q (%v)", clip(e, 80), clip(d, 80), err))
		} else if !rawAlphabet.MatchString(e) {
			mkNoClass("cell:rawurlencode:alphabet", fmt.Sprintf("rawurlencode output %q contains characters outside the unreserved set and %%HH", clip(e, 80)))
		}
		if rt, ok := unq(o["raw.rt"]); !ok || rt != s {
			mk("cell:rawurldecode:roundtrip", fmt.Sprintf("rawurldecode(rawurlencode(s)) = %s", clip(o["raw.rt"], 80)))
		}
	} else {
		mk("cell:rawurlencode:refused", clip(o["raw"]+o["!raw"], 120))
	}
	m5 := md5.Sum([]byte(s))
	s1 := sha1.Sum([]byte(s))
	s256 := sha256.Sum256([]byte(s))
	s512 := sha512.Sum512([]byte(s))
	digests := map[string]string{
		"md5": hex.EncodeToString(m5[:]), "h.md5": hex.EncodeToString(m5[:]), "h.sha1": hex.EncodeToString(s1[:]),
		"h.sha256": hex.EncodeToString(s256[:]), "h.sha512": hex.EncodeToString(s512[:]), "h.crc32b": fmt.Sprintf("%08x", crc32.ChecksumIEEE([]byte(s))),
	}
	var ks []string
	for k := range digests {
		ks = append(ks, k)
	}
	sort.Strings(ks)
	for _, k := range ks {
		got, ok := unq(o[k])
		if !ok || got != digests[k] {
			out = append(out, &failure{Key: "cell:hash:" + strings.TrimPrefix(k, "h."), Detail: fmt.Sprintf("%s of %q: want %s got %s %s", k, clip(s, 40), digests[k], clip(o[k], 80), clip(o["!"+k], 80)), Case: c14Case{Kind: "string", Val: in, Src: c14StringScript}})
		}
	}
	if got, ok := unq(o["h.unknown"]); ok && got != "" {
		out = append(out, &failure{Key: "cell:hash:unknown-algo", Detail: fmt.Sprintf("hash('no-such-algo', ..) returned a digest %q instead of false / an error", clip(got, 80)), Case: c14Case{Kind: "string", Val: in, Src: c14StringScript}})
	}
	return out
}

func c14JudgeDecode(pool *sb.Pool, rec *sb.Rec, doc string, origin string) []*failure {
	in := sb.Str(doc)
	o, rep := c14Exec(pool, c14DecodeScript, in)
	rec.Eval()
	if rep.Outcome == sb.Infra {
		rec.InfraProblem("%s", rep.Msg)
		return nil
	}
	if f := crashFailure(rep, o, "decode", in, c14DecodeScript, []string{"jd", "jdo.enc", "us", "b64d", "urld", "rawd"}); f != nil {
		f.Detail += fmt.Sprintf("  [input %q]", clip(doc, 120))
		f.Case = c14Case{Kind: "decode", Val: in, Src: c14DecodeScript, Extra: origin}
		return []*failure{f}
	}
	var out []*failure
	mk := func(key, d string) {
		out = append(out, &failure{Key: key, Detail: fmt.Sprintf("%s  [input %q, %s]", d, clip(doc, 120), origin), Case: c14Case{Kind: "decode", Val: in, Src: c14DecodeScript, Extra: origin}})
	}
	// json_decode: accepts exactly the well-formed documents
	valid := json.Valid([]byte(doc)) && utf8.ValidString(doc)
	tree, _ := parseJSON(doc)
	if valid && hasOverflowingNumber(tree) {
		return out // 1e400: grammatically valid, value out of range; not asserted either way
	}
	isNullDoc := valid && tree == nil
	jd := o["jd"]
	if !isNullDoc {
		if valid && jd == "n" {
			mk("cell:json_decode:rejects-valid", "json_decode returned null for a well-formed document")
		}
		if !valid && jd != "n" && jd != "" && jd != "b:0" {
			mk("cell:json_decode:accepts-malformed", fmt.Sprintf("json_decode returned %s for a malformed document", clip(jd, 100)))
		}
		if valid && jd != "n" {
			for _, lbl := range []string{"jd.enc", "jdo.enc"} {
				enc, ok := unq(o[lbl])
				key := "cell:json_decode:reencode:assoc:no-object"
				if strings.Contains(doc, "{") {
					key = "cell:json_decode:reencode:assoc:has-object"
				}
				if lbl == "jdo.enc" {
					// by what the document is at its root (object mode of a document that is not an object is a
					// listed finding; it must not hide what happens inside objects)
					root := "scalar"
					switch tr := strings.TrimLeft(doc, " \t\r\n"); {
					case strings.HasPrefix(tr, "{"):
						root = "object"
					case strings.HasPrefix(tr, "["):
						root = "array"
					}
					key = "cell:json_decode:object-mode:root-" + root
					if root == "object" && hasIntBeyondInt64(tree) {
						key = "cell:json_decode:object-mode:int-beyond-int64"
					}
				}
				if !ok {
					mk(key, fmt.Sprintf("json_encode(json_decode(doc)) is %s %s", clip(o[lbl], 60), clip(o["!jd"]+o["!jdo"], 100)))
					continue
				}
				t2, err := parseJSON(enc)
				if err != nil || !jsonTreesEqual(tree, t2) {
					if lbl == "jdo.enc" {
						out = append(out, &failure{Key: key, Detail: fmt.Sprintf("decoding (object mode) and re-encoding changes the document: %q  [input %q]", clip(enc, 120), clip(doc, 120)), Case: c14Case{Kind: "decode", Val: in, Src: c14DecodeScript, Extra: origin}})
					} else {
						mk(key, fmt.Sprintf("decoding and re-encoding changes the document: %q", clip(enc, 120)))
					}
				}
			}
		}
	}
	// unserialize: accepts exactly what the grammar accepts, consuming all bytes
	n := refUnserialize([]byte(doc), 0)
	refOK := n == len(doc)
	us, hasUs := o["us"]
	accepted := hasUs && us != "b:0"
	if doc == "b:0;" {
		accepted = refOK
	}
	if refOK && !accepted {
		mk("cell:unserialize:rejects-valid:"+serClass(doc), fmt.Sprintf("unserialize gave %s %s for a well-formed value", clip(us, 60), clip(o["!us"], 100)))
	}
	if !refOK && accepted {
		mk("cell:unserialize:accepts-malformed", fmt.Sprintf("unserialize returned %s for input the grammar rejects (reference consumed %d of %d bytes)", clip(us, 100), n, len(doc)))
	}
	return out
}

// serClass classifies a well-formed serialized value by what it contains.
func serClass(doc string) string {
	switch {
	case strings.Contains(doc, "d:"):
		return "float"
	case strings.Contains(doc, "i:-9223372036854775808"):
		return "int-min"
	case strings.Contains(doc, "s:"):
		return "string"
	case strings.HasPrefix(doc, "a:"):
		return "array"
	}
	return "scalar"
}

func hasOverflowingNumber(t any) bool {
	switch x := t.(type) {
	case json.Number:
		_, err := strconv.ParseFloat(x.String(), 64)
		return err != nil
	case []any:
		for _, e := range x {
			if hasOverflowingNumber(e) {
				return true
			}
		}
	case map[string]any:
		for _, e := range x {
			if hasOverflowingNumber(e) {
				return true
			}
		}
	}
	return false
}

// hasIntBeyondInt64: an integer literal (no fraction, no exponent) that does not fit int64.
func hasIntBeyondInt64(t any) bool {
	switch x := t.(type) {
	case json.Number:
		if strings.ContainsAny(x.String(), ".eE") {
			return false
		}
		_, err := strconv.ParseInt(x.String(), 10, 64)
		return err != nil
	case []any:
		for _, e := range x {
			if hasIntBeyondInt64(e) {
				return true
			}
		}
	case map[string]any:
		for _, e := range x {
			if hasIntBeyondInt64(e) {
				return true
			}
		}
	}
	return false
}

func jsonTreesEqual(a, b any) bool {
	switch x := a.(type) {
	case nil:
		return b == nil
	case bool:
		y, ok := b.(bool)
		return ok && x == y
	case json.Number:
		y, ok := b.(json.Number)
		if !ok {
			return false
		}
		if x.String() == y.String() {
			return true
		}
		fx, e1 := strconv.ParseFloat(x.String(), 64)
		fy, e2 := strconv.ParseFloat(y.String(), 64)
		ix, xi := strconv.ParseInt(x.String(), 10, 64)
		iy, yi := strconv.ParseInt(y.String(), 10, 64)
		if xi == nil && yi == nil {
			return ix == iy // both exact ints: "-0" and "0" are the same value, other texts differ in value
		}
		return e1 == nil && e2 == nil && fx == fy
	case string:
		y, ok := b.(string)
		return ok && x == y
	case []any:
		y, ok := b.([]any)
		if !ok {
			if m, isM := b.(map[string]any); isM && len(m) == 0 && len(x) == 0 {
				return true
			}
			return false
		}
		if len(x) != len(y) {
			return false
		}
		for i := range x {
			if !jsonTreesEqual(x[i], y[i]) {
				return false
			}
		}
		return true
	case map[string]any:
		y, ok := b.(map[string]any)
		if !ok {
			if l, isL := b.([]any); isL && len(l) == 0 && len(x) == 0 {
				return true
			}
			return false
		}
		if len(x) != len(y) {
			return false
		}
		for k, v := range x {
			w, has := y[k]
			if !has || !jsonTreesEqual(v, w) {
				return false
			}
		}
		return true
	}
	return false
}

// goJSON renders a tree as a JSON document with Go's encoder (valid documents for the decoder tests).
func goJSON(v *cval) (string, bool) {
	var conv func(v *cval) (any, bool)
	conv = func(v *cval) (any, bool) {
		switch v.T {
		case "null":
			return nil, true
		case "bool":
			return v.B, true
		case "int":
			return v.I, true
		case "float":
			if math.IsInf(v.F, 0) || math.IsNaN(v.F) {
				return nil, false
			}
			return v.F, true
		case "str":
			if !utf8.ValidString(v.S) {
				return nil, false
			}
			return v.S, true
		case "list":
			l := []any{}
			for _, it := range v.Items {
				x, ok := conv(it)
				if !ok {
					return nil, false
				}
				l = append(l, x)
			}
			return l, true
		default:
			m := map[string]any{}
			for i, it := range v.Items {
				x, ok := conv(it)
				if !ok || !utf8.ValidString(v.Keys[i]) {
					return nil, false
				}
				m[v.Keys[i]] = x
			}
			return m, true
		}
	}
	x, ok := conv(v)
	if !ok {
		return "", false
	}
	b, err := json.Marshal(x)
	return string(b), err == nil
}

func mutateBytes(rt *rapid.T, s string) string {
	b := []byte(s)
	for n := rapid.IntRange(1, 3).Draw(rt, "nmut"); n > 0; n-- {
		switch rapid.IntRange(0, 5).Draw(rt, "mut") {
		case 0:
			if len(b) > 0 {
				b = b[:rapid.IntRange(0, len(b)-1).Draw(rt, "cut")]
			}
		case 1:
			if len(b) > 0 {
				p := rapid.IntRange(0, len(b)-1).Draw(rt, "flip")
				b[p] ^= byte(1 << uint(rapid.IntRange(0, 7).Draw(rt, "bit")))
			}
		case 2:
			p := rapid.IntRange(0, len(b)).Draw(rt, "insat")
			ins := rapid.SampledFrom([]string{"{", "}", "[", "]", "\"", "\\", ",", ":", ";", "a:99999999:{", "s:9999999:\"", "i:", "\\u12", "\\ud800", "1e999", "-", "\x00", "\xff", "N;", "9"}).Draw(rt, "ins")
			b = append(b[:p], append([]byte(ins), b[p:]...)...)
		case 3:
			if len(b) > 1 {
				p := rapid.IntRange(0, len(b)-2).Draw(rt, "del")
				b = append(b[:p], b[p+1:]...)
			}
		case 4:
			if len(b) > 2 {
				p := rapid.IntRange(0, len(b)-2).Draw(rt, "dupat")
				q := rapid.IntRange(p+1, min(len(b), p+6)).Draw(rt, "dupto")
				b = append(b[:q], append(append([]byte{}, b[p:q]...), b[q:]...)...)
			}
		default:
			// change a declared length / count
			for i := 0; i+2 < len(b); i++ {
				if (b[i] == 's' || b[i] == 'a') && b[i+1] == ':' && b[i+2] >= '0' && b[i+2] <= '9' {
					b[i+2] = byte('0' + rapid.IntRange(0, 9).Draw(rt, "len"))
					break
				}
			}
		}
	}
	return string(b)
}

var c14NumberForms = []string{"0", "-0", "7", "-7", "120", "0.5", "-0.5", "12.25", "1e2", "1E2", "1e+2", "1E+2", "1e-2", "1E-2", "-2E+3", "25E-1", "2.5e3", "2.5E3", "2.5E-3", "0e0", "0E0", "0.0", "1.0E1", "1e0", "100E-2", "9007199254740993", "-9223372036854775808", "1.7976931348623157e308", "5e-324",
	`"\u0041"`, `"\u00e9"`, `"\u00E9"`, `"\ud83d\ude00"`, `"\uD83D\uDE00"`, `"\/"`, `"\b\f\n\r\t"`, `"\\\""`, `"\u0000"`, `"\u001f"`, `"\u2028"`, "true", "false", "null", "[]", "{}", `""`}

// genJSONText draws a well-formed JSON text straight from the RFC 8259 grammar: number spellings with either
// exponent marker and sign, every string escape, white space around every token.
func genJSONText(rt *rapid.T, d int) string {
	ws := func() string {
		return rapid.SampledFrom([]string{"", "", "", " ", "\n", "\t", "\r\n", "  "}).Draw(rt, "ws")
	}
	num := func() string {
		var b strings.Builder
		if rapid.Bool().Draw(rt, "neg") {
			b.WriteByte('-')
		}
		b.WriteString(rapid.SampledFrom([]string{"0", "1", "7", "12", "305", "9007199254740993"}).Draw(rt, "int"))
		if rapid.IntRange(0, 2).Draw(rt, "frac") == 0 {
			b.WriteString("." + rapid.SampledFrom([]string{"0", "5", "25", "125", "000", "10"}).Draw(rt, "fd"))
		}
		if rapid.IntRange(0, 2).Draw(rt, "exp") == 0 {
			b.WriteString(rapid.SampledFrom([]string{"e", "E"}).Draw(rt, "e"))
			b.WriteString(rapid.SampledFrom([]string{"", "+", "-"}).Draw(rt, "es"))
			b.WriteString(rapid.SampledFrom([]string{"0", "1", "2", "02", "10"}).Draw(rt, "ed"))
		}
		return b.String()
	}
	str := func() string {
		n := rapid.IntRange(0, 4).Draw(rt, "slen")
		var b strings.Builder
		b.WriteByte('"')
		for i := 0; i < n; i++ {
			b.WriteString(rapid.SampledFrom([]string{"a", "k", "0", " ", "é", "世", "😀", `\"`, `\\`, `\/`, `\b`, `\f`, `\n`, `\r`, `\t`, `\u0041`, `\u00e9`, `\u00E9`, `\ud83d\ude00`, `\u001f`, "/", "'"}).Draw(rt, "ch"))
		}
		b.WriteByte('"')
		return b.String()
	}
	var val func(d int) string
	val = func(d int) string {
		k := rapid.IntRange(0, 7).Draw(rt, "vk")
		if d <= 0 && k >= 6 {
			k = k % 6
		}
		switch k {
		case 0, 1:
			return num()
		case 2:
			return str()
		case 3:
			return "true"
		case 4:
			return "false"
		case 5:
			return "null"
		case 6:
			n := rapid.IntRange(0, 3).Draw(rt, "an")
			var parts []string
			for i := 0; i < n; i++ {
				parts = append(parts, ws()+val(d-1)+ws())
			}
			return "[" + strings.Join(parts, ",") + ws() + "]"
		default:
			n := rapid.IntRange(0, 3).Draw(rt, "on")
			var parts []string
			for i := 0; i < n; i++ {
				parts = append(parts, ws()+fmt.Sprintf("\"k%d\"", i)+ws()+":"+ws()+val(d-1)+ws())
			}
			return "{" + strings.Join(parts, ",") + ws() + "}"
		}
	}
	return ws() + val(d) + ws()
}

func TestC14(t *testing.T) {
	cfg := sb.LoadConfig("C14")
	rec := sb.NewRec(cfg)
	defer rec.Flush()
	rec.R.Rule = "value trees (boundary and random ints/floats, strings over all byte values and multi-byte UTF-8, lists and string-keyed maps nested <= 4) through json_encode / json_decode (assoc and object) / serialize / unserialize; strings through base64, bin2hex, urlencode / rawurlencode and their decoders, md5 and hash(md5 sha1 sha256 sha512 crc32b, unknown); byte strings for the decoders from valid encodings with grammar-aware mutations (truncation, bit flips, broken escapes, huge declared counts, length changes), all single bytes and all byte pairs over a structural alphabet enumerated; protobuf wire parsing against an independent decoder built on protowire.Consume* under all option combinations (c14_pw). Non-trivial = the value contains a nested container or a byte outside [A-Za-z0-9]; a decoder input is non-trivial when it gets past the first token; distinct by value / input bytes."
	pool := &sb.Pool{}
	defer pool.Close()
	dl := time.Now().Add(budget(cfg, 60, 900))
	if cfg.Replay != "" {
		c14Replay(cfg, rec, pool)
		return
	}
	// enumerated part: boundary strings, all single bytes, byte pairs over a structural alphabet
	idx := 0
	for _, s := range strBoundary {
		idx++
		if cfg.Mine(idx) {
			rec.NonTrivial("string", s)
			rec.Label("enum.string", s)
			for _, f := range c14JudgeString(pool, rec, s) {
				rec.Fail(f.Key, f.Detail, f.Case)
			}
			for _, f := range c14JudgeValue(pool, rec, &cval{T: "str", S: s}) {
				rec.Fail(f.Key, f.Detail, f.Case)
			}
		}
	}
	for b := 0; b < 256; b++ {
		idx++
		if !cfg.Mine(idx) {
			continue
		}
		s := string([]byte{byte(b)})
		rec.NonTrivial("byte", s)
		rec.Label("enum.single-byte", "")
		for _, f := range c14JudgeString(pool, rec, s) {
			rec.Fail(f.Key, f.Detail, f.Case)
		}
		for _, f := range c14JudgeDecode(pool, rec, s, "single-byte") {
			rec.Fail(f.Key, f.Detail, f.Case)
		}
	}
	alpha := []byte("{}[]\":,;0-9aisdNbtfne\\ \x00\xff")
	for _, a := range alpha {
		for _, b := range alpha {
			idx++
			if !cfg.Mine(idx) {
				continue
			}
			s := string([]byte{a, b})
			rec.NonTrivial("pair", s)
			rec.Label("enum.byte-pair", "")
			for _, f := range c14JudgeDecode(pool, rec, s, "byte-pair") {
				rec.Fail(f.Key, f.Detail, f.Case)
			}
		}
	}
	// fixed decoder documents
	for _, d := range []string{`{"a":1,"b":[1,2,{"c":null}]}`, `[1,2.5,"x",true,null]`, `{"k":{"k":{"k":[]}}}`, `"\u00e9\ud83d\ude00"`, `9007199254740993`, `1e400`, `[1,2`, `{"a":}`, `{"a":1,}`, `'single'`, `a:1:{i:0;`, `a:2:{i:0;i:1;i:1;s:1:"x";}`, `s:5:"ab";`, `i:12`, `a:99999999:{`, `O:8:"stdClass":0:{}`, `d:0.5;`, `b:2;`} {
		idx++
		if cfg.Mine(idx) {
			rec.NonTrivial("doc", d)
			rec.Label("enum.document", d)
			for _, f := range c14JudgeDecode(pool, rec, d, "document") {
				rec.Fail(f.Key, f.Detail, f.Case)
			}
		}
	}
	// every spelling RFC 8259 allows for a number, an escape and insignificant white space (foreign encoders
	// use forms this project's own encoder never emits), alone and inside containers
	for _, n := range c14NumberForms {
		for _, wrap := range []string{"%s", "[%s]", "{\"k\":%s}", " [ 1 , %s\t,\n{ \"a\" : [ %s ] } ]\r\n"} {
			d := strings.ReplaceAll(wrap, "%s", n)
			idx++
			if cfg.Mine(idx) {
				rec.NonTrivial("doc", d)
				rec.Label("enum.rfc-form", d)
				for _, f := range c14JudgeDecode(pool, rec, d, "rfc-form") {
					rec.Fail(f.Key, f.Detail, f.Case)
				}
			}
		}
	}
	c14Protowire(t, cfg, rec, pool, dl)
	rec.Flush()
	total := 15000 / cfg.NShards
	if cfg.Thorough() {
		total = 400000 / cfg.NShards
	}
	rapidLoop(t, rec, "values", total, 250, dl, func(rt *rapid.T) *failure {
		v := genVal(rt, 4)
		cls := v.class()
		if strings.Contains(cls, "nested") || (v.T == "str" && strClass(v.S) != "ascii" && strClass(v.S) != "empty") || strings.HasPrefix(cls, "list") || strings.HasPrefix(cls, "map") {
			rec.NonTrivial("v", valString(v))
		}
		rec.Label("value:"+cls, "")
		var fs []*failure
		fs = append(fs, c14JudgeValue(pool, rec, v)...)
		if v.T == "str" {
			fs = append(fs, c14JudgeString(pool, rec, v.S)...)
		}
		// decoder inputs: valid encodings of the tree and mutants of them
		if doc, ok := goJSON(v); ok {
			fs = append(fs, c14JudgeDecode(pool, rec, doc, "valid-json")...)
			m := mutateBytes(rt, doc)
			rec.NonTrivial("d", m)
			fs = append(fs, c14JudgeDecode(pool, rec, m, "mutant-json")...)
		}
		if rapid.IntRange(0, 3).Draw(rt, "grammar") == 0 {
			doc := genJSONText(rt, 3)
			rec.NonTrivial("d", doc)
			rec.Label("decode:grammar-json", doc)
			fs = append(fs, c14JudgeDecode(pool, rec, doc, "grammar-json")...)
		}
		if ser, ok := refSerialize(v); ok {
			fs = append(fs, c14JudgeDecode(pool, rec, ser, "valid-serialize")...)
			m := mutateBytes(rt, ser)
			rec.NonTrivial("d", m)
			fs = append(fs, c14JudgeDecode(pool, rec, m, "mutant-serialize")...)
		}
		sort.Slice(fs, func(i, j int) bool { return fs[i].Key < fs[j].Key })
		for _, f := range fs {
			if !rec.IsKnown(f.Key) {
				return f
			}
			rec.Fail(f.Key, f.Detail, f.Case)
		}
		return nil
	})
}

func c14Replay(cfg sb.Config, rec *sb.Rec, pool *sb.Pool) {
	rf, err := sb.LoadReplay(cfg.Replay)
	if err != nil {
		rec.InfraProblem("replay: %v", err)
		return
	}
	if strings.HasPrefix(rf.Key, "cell:protowire") {
		c14ProtowireReplay(rf, rec, pool)
		return
	}
	var c c14Case
	json.Unmarshal(rf.Case, &c)
	rec.NonTrivial(string(rf.Case))
	rec.NonTrivial(string(rf.Case), "r")
	var fs []*failure
	raw, _ := hex.DecodeString(c.Val.H)
	switch c.Kind {
	case "string":
		fs = c14JudgeString(pool, rec, string(raw))
	case "decode":
		fs = c14JudgeDecode(pool, rec, string(raw), c.Extra)
	default:
		fs = c14JudgeValue(pool, rec, descToVal(c.Val))
	}
	for _, f := range fs {
		if f.Key == rf.Key {
			rec.Fail(f.Key, f.Detail, f.Case)
		}
	}
}

func descToVal(d sb.ValDesc) *cval {
	v := &cval{T: d.T, I: d.I, F: d.F, B: d.B}
	if d.T == "str" {
		b, _ := hex.DecodeString(d.H)
		v.S = string(b)
	}
	for i, it := range d.Items {
		v.Items = append(v.Items, descToVal(it))
		if i < len(d.Keys) {
			k, _ := hex.DecodeString(d.Keys[i])
			v.Keys = append(v.Keys, string(k))
		}
	}
	return v
}
