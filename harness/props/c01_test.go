package props

import (
	"encoding/json"
	"fmt"
	"os"
	"path/filepath"
	"sort"
	"strings"
	"testing"
	"time"

	"github.com/php-any/origami/lexer"
	"pgregory.net/rapid"
	"verifharness/sb"
)

// ---------------------------------------------------------------------------
// C01 — any source lexes/parses to a program or a diagnostic, never a crash.
// ---------------------------------------------------------------------------

func init() {
	sb.Register("tokens", tokensHandler)
	sb.Assume("C01",
		"a case is judged by the worker's reply only: ok / parse_error are fine, go_panic / died / hang / oom are failures; the deadline is 2 s + 1 ms per input byte (measured parse cost: 20-200 us), a miss is re-run alone with 5x the budget before it counts",
		"hang and panic findings are identified by phase and innermost /repo function, so a second defect in the same function is attributed to the listed finding",
		"run clause: only a nil-pointer dereference or a conversion of a nil interface while running an accepted mutant counts (the statement's 'internal crash caused by a missing operand or clause'); other run-time panics on complete operands are labelled and left to C03",
		"run-after-accept is only exercised on mutants of generated side-effect-free programs; a run that does not terminate or that recurses without bound is inconclusive (a mutant may legitimately loop), only a Go panic is a failure",
		"'positioned error' is recorded (label parse_error.pos / .nopos) but not asserted: the CLI falls back to the current token for controls without a location",
	)
}

type tokSpan struct {
	S, E int
}

// tokensHandler tokenises an intact corpus file in the worker and returns the
// token spans (cut points for the enumeration).
func tokensHandler(req *sb.Req) *sb.Rep {
	sb.SetPhase("lex")
	var toks []lexer.Token
	if req.Tmpl {
		toks = lexer.NewLexer().TokenizeTemplate(req.Src)
	} else {
		toks = lexer.NewLexer().Tokenize(req.Src)
	}
	spans := make([]tokSpan, 0, len(toks))
	for _, t := range toks {
		s, e := t.Start(), t.End()
		if s < 0 || e < s || e > len(req.Src) {
			continue
		}
		spans = append(spans, tokSpan{s, e})
	}
	b, _ := json.Marshal(spans)
	return &sb.Rep{Outcome: sb.OK, Data: b}
}

type c01Case struct {
	Src  string `json:"src"`
	Tmpl bool   `json:"tmpl"`
	Run  bool   `json:"run"`
	Why  string `json:"why"`
}

func corpusFiles() []string {
	var files []string
	for _, root := range []string{sb.Repo() + "/tests", sb.Repo() + "/examples"} {
		filepath.Walk(root, func(p string, info os.FileInfo, err error) error {
			if err == nil && !info.IsDir() && (strings.HasSuffix(p, ".php") || strings.HasSuffix(p, ".zy")) {
				files = append(files, p)
			}
			return nil
		})
	}
	sort.Strings(files)
	return files
}

// c01Judge runs one input and returns a failure (nil = property held).
func c01Judge(pool *sb.Pool, rec *sb.Rec, c c01Case) *failure {
	req := &sb.Req{Kind: "script", Src: c.Src, Tmpl: c.Tmpl, Run: c.Run}
	if c.Run {
		req.DeadlineMs = 1500 + len(c.Src)
	}
	rep := pool.Exec(req)
	rec.Eval()
	label := rep.Outcome
	if rep.Phase != "" {
		label = rep.Phase + "." + rep.Outcome
	}
	switch rep.Outcome {
	case sb.OK, sb.Uncaught:
		rec.Label(label, fmt.Sprintf("%q", clip(c.Src, 300)))
		return nil
	case sb.ParseError:
		if rep.Pos {
			rec.Label("parse_error.pos", fmt.Sprintf("%q -> %s", clip(c.Src, 300), clip(rep.Msg, 160)))
		} else {
			rec.Label("parse_error.nopos", fmt.Sprintf("%q -> %s", clip(c.Src, 300), clip(rep.Msg, 160)))
		}
		return nil
	case sb.Infra:
		rec.InfraProblem("%s", rep.Msg)
		return nil
	case sb.GoPanic:
		kind := sb.PanicKind(rep.Msg)
		if rep.Phase == "run" && !strings.Contains(rep.Msg, "nil pointer dereference") && !strings.Contains(rep.Msg, "interface is nil") {
			// the property's run clause is about crashes caused by a missing operand or clause (a nil
			// node or nil value); a panic on operands that are all present ("fu" << "c") is operator
			// semantics, decided by C03, not by this check
			rec.Label("run.go_panic.operands-present:"+rep.Site, clip(c.Src, 300))
			return nil
		}
		key := fmt.Sprintf("site:%s/%s/%s", rep.Phase, rep.Site, kind)
		rec.Label(label+":"+rep.Site, clip(c.Src, 300))
		return &failure{Key: key, Detail: fmt.Sprintf("%s: Go panic %q at %s on input %s", c.Why, clip(rep.Msg, 160), rep.Site, clip(fmt.Sprintf("%q", c.Src), 300)), Case: c}
	case sb.Hang, sb.OOM:
		if rep.Phase == "run" {
			rec.Inconclusive("run of accepted mutant did not finish (%s)", clip(fmt.Sprintf("%q", c.Src), 200))
			return nil
		}
		key := fmt.Sprintf("site:%s/%s/hang", rep.Phase, rep.Site)
		if !rec.IsKnown(key) && !rec.SeenViolation(key) {
			// confirm alone with 5x the budget
			req2 := *req
			req2.DeadlineMs = 5 * int(sb.Deadline(len(c.Src))/time.Millisecond)
			rep2 := pool.Exec(&req2)
			if rep2.Outcome != sb.Hang && rep2.Outcome != sb.OOM {
				rec.Inconclusive("slow: finished on the 5x re-run (%v ms): %s", rep2.Ms, clip(fmt.Sprintf("%q", c.Src), 200))
				return nil
			}
			if rep2.Site != "" {
				key = fmt.Sprintf("site:%s/%s/hang", rep2.Phase, rep2.Site)
			}
		}
		rec.Label("hang:"+rep.Site, clip(c.Src, 300))
		return &failure{Key: key, Detail: fmt.Sprintf("%s: no termination within the deadline (%s, %s) at %s on input %s", c.Why, rep.Outcome, rep.Msg, rep.Site, clip(fmt.Sprintf("%q", c.Src), 300)), Case: c}
	case sb.Died:
		kind := "died"
		if strings.Contains(rep.Stderr, "stack overflow") || strings.Contains(rep.Stderr, "stack exceeds") {
			kind = "stack"
		}
		if rep.Phase == "run" && kind == "stack" {
			rec.Inconclusive("run of accepted mutant exhausted the stack")
			return nil
		}
		key := fmt.Sprintf("site:%s/%s/%s", "proc", rep.Site, kind)
		if kind == "stack" {
			// one root cause: the recursive-descent parser has no nesting limit
			key = "site:proc/stack-overflow"
		}
		rec.Label("died:"+kind, clip(c.Src, 300))
		return &failure{Key: key, Detail: fmt.Sprintf("%s: worker process died (%s) on input %s", c.Why, clip(rep.Msg, 200), clip(fmt.Sprintf("%q", c.Src), 300)), Case: c}
	}
	rec.InfraProblem("unexpected outcome %q", rep.Outcome)
	return nil
}

func clip(s string, n int) string {
	if len(s) > n {
		return s[:n] + "…"
	}
	return s
}

func c01Pool(rec *sb.Rec) *sb.Pool {
	return &sb.Pool{KnownHangSite: func(phase, site string) bool {
		k := fmt.Sprintf("site:%s/%s/hang", phase, site)
		return rec.IsKnown(k) || rec.SeenViolation(k)
	}}
}

var hostileTokens = []string{"$", "$a", "$b", "{", "}", "(", ")", "[", "]", "\"", "'", "<<<", "<<<EOT\n", "?>", "<?php", "<?=", "?->", "->", "::", "=>", "...", "#", "/*", "*/", "//", "0x", "1e", "99999999999999999999", "-", "+", "!", "~", "=", "==", "&&", "??", "?", ":", ";", ",", ".", "1", "2.5", "\"s\"", "'t'", "\"a{$a}b\"", "\"{$a[\"", "foo", "if", "else", "elseif", "while", "for", "foreach", "as", "do", "switch", "case", "default", "match", "break", "continue", "return", "function", "fn", "class", "new", "try", "catch", "finally", "throw", "echo", "static", "use", "namespace", "instanceof", "like", "true", "null", "int", "\n", "\r\n", " ", "\t", "\x00", "\x80", "\xc0", "\xe3\x80", "\xe3\x80\x80", "\xef\xbb\xbf", "\xff"}

var seedPrograms = []string{
	"$a = 1;\n$b = $a + 2 * 3;\necho $b;\n",
	"function f($x, $y = 2) { return $x + $y; }\necho f(1);\n",
	"$a = [1, 2, \"k\" => 3];\nforeach ($a as $k => $v) { echo $k, $v; }\n",
	"if ($a > 1) { echo 1; } elseif ($a < 0) { echo 2; } else { echo 3; }\n",
	"for ($i = 0; $i < 3; $i++) { if ($i == 1) { continue; } echo $i; }\n",
	"while ($i < 3) { $i++; }\ndo { $i--; } while ($i > 0);\n",
	"switch ($a) { case 1: echo 1; break; default: echo 2; }\n",
	"$r = match($a) { 1 => \"a\", 2, 3 => \"b\", default => \"c\" };\n",
	"class A { public int $x = 1; function m() { return $this->x; } static function s() { return 2; } }\n$o = new A(); echo $o->m(), A::s();\n",
	"try { throw new Exception(\"e\"); } catch (Exception $e) { echo $e->getMessage(); } finally { echo 1; }\n",
	"$f = function($x) use ($a) { return $x + $a; };\n$g = fn($x) => $x * 2;\necho $f(1), $g(2);\n",
	"$s = \"a{$a}b $b c\";\n$t = 'x' . $s;\necho <<<EOT\nhello $a\nEOT;\n",
	"$x = $a ?? 1;\n$y = $a ? 1 : 2;\n$z = !$a && ($b || $c);\n$o?->p;\n$a[] = 1;\n$a[0][1] = 2;\n",
}

// constructSnippets: one small source per statement parser the corpus exercises rarely; enumerated
// completely (every token-boundary prefix, deletion and duplication, both modes) in both tiers.
var constructSnippets = []string{
	"trait T { public $p = 1; function foo() { return 1; } function bar() { return 2; } }\ntrait U { function foo() { return 3; } }\nclass A { use T, U { T::foo insteadof U; U::foo as ufoo; bar as protected pbar; } }\n$a = new A(); echo $a->foo(), $a->ufoo();\n",
	"interface I { const C = 1; function m(int $a, ?string $b = null): int; }\ninterface J extends I { }\nabstract class B implements J { abstract function n(); function m(int $a, ?string $b = null): int { return self::C; } }\nfinal class D extends B { function n() { return parent::m(1); } }\n",
	"enum Suit: string { case Hearts = 'H'; case Spades = 'S'; function label() { return $this->value; } }\necho Suit::Hearts->label();\n",
	"namespace App\\Models;\nuse Foo\\Bar as Baz;\nuse function Foo\\helper;\nconst LIMIT = 10;\nclass User { const A = 1; public static $count = 0; public function __construct(private int $id, protected ?string $name = null) { static::$count++; } }\n",
	"#[Attr(name: 'x', flags: 3)]\nclass Svc { #[Route('/a', methods: ['GET'])] public function act(#[Inject] $dep) { return $dep; } }\n",
	"function gen() { yield 1; yield 'k' => 2; yield from [3, 4]; return 5; }\nforeach (gen() as $k => $v) { echo $k, $v; }\n",
	"$x = new class(1) extends Exception implements Countable { function count(): int { return 0; } };\n$y = clone $x;\necho $y instanceof Exception;\n",
	"declare(strict_types=1);\nglobal $g;\nstatic $s = 0;\nunset($a[0], $b);\necho isset($a['k'], $c) ? 1 : 0;\necho empty($a);\nlist($p, $q) = [1, 2];\n[$r, [$t]] = [1, [2]];\n",
	"goto end;\necho 1;\nend:\necho 2;\ninclude 'a.php';\nrequire_once __DIR__ . '/b.php';\necho __LINE__, __FILE__, __FUNCTION__;\nprint 'x';\nexit(0);\n",
	"$s = <<<EOT\nline {$a['k']} and {$o->p->q} and ${v}\n  EOT;\n$n = <<<'RAW'\nraw $a\nRAW;\n$t = \"esc \\\" \\n \\x41 \\u{1F600} $a[0] $o->p\";\n",
	"$r = 1..5;\n$sl = $arr[1..3];\n$v = $a <=> $b;\n$w = $a ** 2 % 3;\n$u = (int)$a + (string)$b . (bool)$c;\n$q = $a?->b?->c ?? $d ?: $e;\n$a ??= 1; $b .= 'x'; $c <<= 2; $d **= 2;\n$i = $a instanceof A && !$b like C;\n",
	"$f = static fn(int ...$xs): int => array_sum($xs);\n$g = function &(array &$a, callable $c = null) use (&$f, $x): ?int { return $c ? $c(...$a) : null; };\necho $f(1, 2), strlen(...)('ab');\n",
	"for ($i = 0, $j = 9; $i < $j; $i++, $j--) { if ($i % 2) continue; echo $i; }\nfor ($v in $list) { echo $v; }\nforeach ($m as ['a' => $x, 'b' => $y]) { break 1; }\nwhile (true): break; endwhile;\nif ($a): echo 1; elseif ($b): echo 2; else: echo 3; endif;\n",
	"switch (true) { case $a > 1: case $a < -1: echo 'big'; break; default: echo 'small'; }\n$m = match(true) { $a > 1, $a < -1 => 'big', default => throw new Exception('none') };\ntry { f(); } catch (A | B $e) { } catch (Throwable) { } finally { }\n",
	"<div class=\"a\" id={$id}>\n  <span>{$name}</span>\n  <?php if ($a): ?><b>yes</b><?php else: ?><i>no</i><?php endif; ?>\n  <ul><li for=\"$x in $xs\">{$x}</li></ul>\n</div>\n<?= $a ?>\n",
	"class P { function __get($n) { return 1; } function __call($n, $a) { return 2; } static function __callStatic($n, $a) { return 3; } function __toString() { return 'p'; } function __invoke() { return 4; } }\n$p = new P; echo $p->x, $p->y(), P::z(), $p(), \"$p\", $p::class, $p->{'dyn'}, $p::{'st'}();\n",
}

func TestC01(t *testing.T) {
	cfg := sb.LoadConfig("C01")
	rec := sb.NewRec(cfg)
	defer rec.Flush()
	rec.R.Rule = "inputs: (a0) every token-boundary prefix, single-token deletion and duplication of 16 construct snippets (traits with adaptation blocks, enums, attributes, generators, anonymous classes, heredocs, ranges, alternative syntax, HTML templates, magic methods ...) in both modes, in both tiers; (a) token-boundary prefixes, single-token deletions and duplications and byte prefixes of the last 64 bytes of every corpus file (tests/**, examples/** .php in template mode, .zy in plain mode); (b) rapid-drawn token/byte mutations of seed programs and generated programs, both modes, accepted mutants of generated programs are also run; (c) nesting bombs. Non-trivial = input differs from the intact source, counted distinct by sha256 of (mode, bytes)."
	pool := c01Pool(rec)
	defer pool.Close()
	dl := time.Now().Add(budget(cfg, 55, 800))

	if cfg.Replay != "" {
		c01Replay(t, cfg, rec, pool)
		return
	}
	// known-finding repros first
	for _, k := range rec.KnownKeys() {
		f := rec.Finding(k)
		if f.Repro == "" {
			continue
		}
		rf, err := sb.LoadReplay(filepath.Join(cfg.Root, f.Repro))
		if err != nil {
			rec.InfraProblem("known-finding repro %s: %v", f.Repro, err)
			continue
		}
		var c c01Case
		json.Unmarshal(rf.Case, &c)
		if cfg.Shard == 0 {
			if fl := c01Judge(pool, rec, c); fl != nil {
				rec.Fail(fl.Key, fl.Detail, fl.Case)
			}
		}
	}

	// (c) nesting bombs
	c01Bombs(cfg, rec, pool)
	// (d) operand-omission matrix (accepted sources are run)
	c01Matrix(cfg, rec, pool)
	// (a) corpus enumeration
	c01Snippets(cfg, rec, pool)
	complete := c01Corpus(cfg, rec, pool, dl)
	// (b) rapid mutants
	total := 3000
	if cfg.Thorough() {
		total = 200000 / cfg.NShards
	}
	rapidLoop(t, rec, "mut", total, 500, dl, func(rt *rapid.T) *failure {
		c := c01DrawMutant(rt)
		rec.NonTrivial(fmt.Sprint(c.Tmpl), c.Src)
		return c01Judge(pool, rec, c)
	})
	rec.R.Exhaustive = complete && cfg.Thorough()
	rec.R.Extra["corpus_enumeration_complete"] = complete && cfg.Thorough()
}

func c01Replay(t *testing.T, cfg sb.Config, rec *sb.Rec, pool *sb.Pool) {
	rf, err := sb.LoadReplay(cfg.Replay)
	if err != nil {
		rec.InfraProblem("replay: %v", err)
		return
	}
	var c c01Case
	if err := json.Unmarshal(rf.Case, &c); err != nil {
		rec.InfraProblem("replay: %v", err)
		return
	}
	rec.NonTrivial(c.Src)
	rec.NonTrivial(c.Src, "replay")
	if f := c01Judge(pool, rec, c); f != nil {
		rec.Fail(f.Key, f.Detail, f.Case)
	}
}

func c01Bombs(cfg sb.Config, rec *sb.Rec, pool *sb.Pool) {
	type bomb struct{ open, mid, close string }
	bombs := []bomb{
		{"(", "1", ")"}, {"[", "1", "]"}, {"!", "1", ""}, {"-", "1", ""}, {"~", "1", ""},
		{"{", "", "}"}, {"if (1) {", "", "}"}, {"f(", "1", ")"}, {"$a[", "0", "]"}, {"1 + (", "1", ")"},
		{"\"{$a[", "0", "]}\""}, {"function() { return ", "1", "; }"}, {"[1 => ", "1", "]"}, {"$a ? ", "1", " : 2"},
		{"(", "", ""}, {"[", "", ""}, {"{", "", ""}, {"$a->b(", "", ""}, {"new A(", "", ""},
		// lists whose elements start with a plain variable: the multiple-assignment look-ahead after "<variable>,"
		{"[$a, ", "1", "]"}, {"f($a, ", "1", ")"}, {"$o->m($a, ", "1", ")"}, {"new A($a, ", "1", ")"}, {"[$a, $b, ", "1", "]"}, {"array($a, ", "1", ")"},
		// right-recursive chains that never pass a bracket
		{"$a = ", "1", ""}, {"++", "$a", ""}, {"$a ? 1 : ", "2", ""}, {"1 ?? ", "2", ""}, {"2 ** ", "2", ""}, {"@", "1", ""}, {"clone ", "$a", ""}, {"print ", "1", ""}, {"(int)", "1", ""}, {"fn() => ", "1", ""}, {"&", "$a", ""},
		{"if (1) ", "1;", ""}, {"while (0) ", "1;", ""}, {"else ", "", ""}, {"?", "int $a", ""},
	}
	// a million-fold chain of the operators whose recursion needs no closing token: a parser without a depth limit
	// for them overflows the Go stack only far beyond the depths above
	mega := map[string]bool{"!": true, "~": true, "++": true, "$a = ": true, "-": true, "@": true, "(int)": true}
	depths := []int{10, 100, 1000, 5000}
	if cfg.Thorough() {
		depths = append(depths, 20000, 100000)
	}
	i := 0
	for bi, b := range bombs {
		ds := depths
		if mega[b.open] {
			ds = append(append([]int{}, depths...), 1000000)
		}
		for _, d := range ds {
			if d >= 100000 && d < 1000000 && bi > 3 && b.open != "new A(" {
				continue // the deepest bombs only for the plain bracket kinds (others parse in quadratic time)
			}
			for _, tmpl := range []bool{false, true} {
				i++
				if !cfg.Mine(i) {
					continue
				}
				src := "$x = " + strings.Repeat(b.open, d) + b.mid + strings.Repeat(b.close, d) + ";\n"
				if strings.HasPrefix(b.open, "{") || strings.HasPrefix(b.open, "if") || strings.HasPrefix(b.open, "while") || strings.HasPrefix(b.open, "else") || b.open == "?" {
					src = strings.Repeat(b.open, d) + b.mid + strings.Repeat(b.close, d) + "\n"
				}
				if tmpl {
					src = "<?php\n" + src
				}
				c := c01Case{Src: src, Tmpl: tmpl, Why: fmt.Sprintf("nesting bomb %q x %d", b.open, d)}
				rec.NonTrivial(fmt.Sprint(tmpl), src)
				rec.Label(fmt.Sprintf("bomb.depth=%d", d), "")
				if f := c01Judge(pool, rec, c); f != nil {
					f.Case = c01Case{Src: clipBomb(src), Tmpl: tmpl, Why: c.Why + " (replay regenerates the full input from the description)"}
					// keep the full input when it is small enough
					if len(src) <= 1<<16 {
						f.Case = c
					}
					rec.Fail(f.Key, f.Detail, f.Case)
				}
			}
		}
	}
}

func clipBomb(s string) string { return s }

// c01Corpus enumerates the corpus-derived inputs. Returns true when the whole
// enumeration of this shard was visited.
// c01Snippets enumerates the construct snippets completely (no sampling in the quick tier).
func c01Snippets(cfg sb.Config, rec *sb.Rec, pool *sb.Pool) {
	idx := 0
	for si, src0 := range constructSnippets {
		for _, tmpl := range []bool{false, true} {
			src := src0
			if tmpl {
				src = "<?php\n" + src0
			}
			rep := pool.Exec(&sb.Req{Kind: "tokens", Src: src, Tmpl: tmpl})
			var spans []tokSpan
			if rep.Outcome == sb.OK {
				json.Unmarshal(rep.Data, &spans)
			}
			try := func(kind, s string) {
				idx++
				if idx%cfg.NShards != cfg.Shard {
					return
				}
				rec.NonTrivial(fmt.Sprint(tmpl), s)
				rec.Label("snippet."+kind, fmt.Sprintf("%q", clip(s, 300)))
				c := c01Case{Src: s, Tmpl: tmpl, Why: fmt.Sprintf("%s of construct snippet %d", kind, si)}
				if fl := c01Judge(pool, rec, c); fl != nil {
					rec.Fail(fl.Key, fl.Detail, fl.Case)
				}
			}
			try("intact", src)
			for _, sp := range spans {
				try("prefix", src[:sp.S])
				if sp.E > sp.S {
					try("delete", src[:sp.S]+src[sp.E:])
					try("duplic", src[:sp.E]+src[sp.S:sp.E]+src[sp.E:])
				}
			}
		}
	}
}

func c01Corpus(cfg sb.Config, rec *sb.Rec, pool *sb.Pool, dl time.Time) bool {
	files := corpusFiles()
	rec.R.Extra["corpus_files"] = len(files)
	stride := 1
	if !cfg.Thorough() {
		stride = 16
	}
	idx := 0
	// leave a fifth of the budget to the mutation campaign
	stop := dl.Add(-time.Until(dl) / 5)
	for fi, f := range files {
		b, err := os.ReadFile(f)
		if err != nil {
			continue
		}
		src := string(b)
		tmpl := strings.HasSuffix(f, ".php")
		rep := pool.Exec(&sb.Req{Kind: "tokens", Src: src, Tmpl: tmpl})
		var spans []tokSpan
		if rep.Outcome == sb.OK {
			json.Unmarshal(rep.Data, &spans)
		} else {
			// the intact file cannot be tokenised: that is a C01 failure of its own
			c := c01Case{Src: src, Tmpl: tmpl, Why: "intact corpus file " + f}
			if fl := c01Judge(pool, rec, c); fl != nil {
				rec.Fail(fl.Key, fl.Detail, fl.Case)
			}
		}
		rel := strings.TrimPrefix(f, sb.Repo()+"/")
		try := func(kind string, s string) {
			idx++
			if idx%cfg.NShards != cfg.Shard {
				return
			}
			if stride > 1 && sb.Hash64(fmt.Sprint(cfg.Seed), rel, kind, fmt.Sprint(idx))%uint64(stride) != 0 {
				return // quick tier: a seeded 1/stride sample of the enumeration
			}
			if s == src {
				return
			}
			rec.NonTrivial(fmt.Sprint(tmpl), s)
			rec.Label("corpus."+kind, fmt.Sprintf("%s: %q", rel, clip(s[max(0, len(s)-200):], 200)))
			c := c01Case{Src: s, Tmpl: tmpl, Why: fmt.Sprintf("%s of %s", kind, rel)}
			if fl := c01Judge(pool, rec, c); fl != nil {
				rec.Fail(fl.Key, fl.Detail, fl.Case)
			}
		}
		for ti, sp := range spans {
			if time.Now().After(stop) {
				rec.Note("corpus enumeration stopped by budget at file %d/%d", fi, len(files))
				return false
			}
			_ = ti
			try("prefix", src[:sp.S])
			if sp.E > sp.S {
				try("delete", src[:sp.S]+src[sp.E:])
				try("duplic", src[:sp.E]+src[sp.S:sp.E]+src[sp.E:])
			}
		}
		for k := 1; k <= 64 && k <= len(src); k++ {
			try("bytepfx", src[:len(src)-k])
		}
	}
	return true
}

// c01DrawMutant draws a mutated program.
func c01DrawMutant(rt *rapid.T) c01Case {
	tmpl := rapid.Bool().Draw(rt, "tmpl")
	var base string
	run := false
	switch rapid.IntRange(0, 2).Draw(rt, "base") {
	case 0:
		base = rapid.SampledFrom(seedPrograms).Draw(rt, "seedprog")
	case 1:
		n := rapid.IntRange(1, 14).Draw(rt, "n")
		var sbd strings.Builder
		for i := 0; i < n; i++ {
			sbd.WriteString(rapid.SampledFrom(hostileTokens).Draw(rt, "tok"))
			if rapid.IntRange(0, 2).Draw(rt, "sp") > 0 {
				sbd.WriteString(" ")
			}
		}
		base = sbd.String()
	default:
		base = genProgramForMutation(rt)
		run = true
	}
	// token-level mutation on whitespace-separated pieces
	nm := rapid.IntRange(0, 3).Draw(rt, "nmut")
	for m := 0; m < nm; m++ {
		switch rapid.IntRange(0, 4).Draw(rt, "mut") {
		case 0: // truncate
			if len(base) > 0 {
				base = base[:rapid.IntRange(0, len(base)-1).Draw(rt, "cut")]
			}
		case 1: // insert hostile token
			p := rapid.IntRange(0, len(base)).Draw(rt, "at")
			base = base[:p] + rapid.SampledFrom(hostileTokens).Draw(rt, "ins") + base[p:]
		case 2: // delete a span
			if len(base) > 1 {
				p := rapid.IntRange(0, len(base)-1).Draw(rt, "from")
				q := rapid.IntRange(p, min(len(base), p+8)).Draw(rt, "to")
				base = base[:p] + base[q:]
			}
		case 3: // duplicate a span
			if len(base) > 1 {
				p := rapid.IntRange(0, len(base)-1).Draw(rt, "from")
				q := rapid.IntRange(p, min(len(base), p+12)).Draw(rt, "to")
				base = base[:q] + base[p:q] + base[q:]
			}
		case 4: // replace one byte
			if len(base) > 0 {
				p := rapid.IntRange(0, len(base)-1).Draw(rt, "at")
				base = base[:p] + string([]byte{rapid.Byte().Draw(rt, "byte")}) + base[p+1:]
			}
		}
	}
	if tmpl {
		base = "<?php\n" + base
	}
	return c01Case{Src: base, Tmpl: tmpl, Run: run, Why: "mutant"}
}
