package props

import (
	"encoding/json"
	"fmt"
	"math"
	"math/big"
	"strconv"
	"strings"
	"testing"
	"time"

	"pgregory.net/rapid"
	"verifharness/sb"
)

// ---------------------------------------------------------------------------
// C03 — scalar operators give reference results; truthiness is context-independent.
// ---------------------------------------------------------------------------

func init() {
	sb.Assume("C03",
		"exact value+type is asserted only on the documented domain: int/int, float/float and int/float for + - * / % ** & | ^ << >> and comparisons; string/string for '.' and '+' (concatenation, docs/php-differences.md #2) and for == === != !== < <=> on non-numeric strings; bool/null for && || ! === !==",
		"reference = Go arithmetic with the rules of the statement: '/' always float, '%' and '/' by zero raise a catchable error, shifts by >= 64 give 0 / sign fill; not asserted: overflow of + - * ** (no document decides wrap vs float), '%' with float operands, '**' with float or negative exponent, negative shift counts (only 'value or catchable error')",
		"coherence laws and the no-crash clause are asserted on every operand pair including arrays and objects; truthiness only requires the eight contexts to agree with each other",
		"a Go panic recovered by node/try.go inside the per-operator try{} is recognised by its message marker and counts as a crash",
		"findings are keyed cell:<clause>:<op>:<kindA>,<kindB>; a second defect in the same cell is attributed to the listed finding",
	)
}

type operand struct {
	Lit  string // PHP source
	Kind string // int float string bool null array object
	I    int64
	F    float64
	S    string
	B    bool
}

func opInt(i int64) operand {
	lit := strconv.FormatInt(i, 10)
	if i == math.MinInt64 {
		lit = "(-9223372036854775807 - 1)"
	} else if i < 0 {
		lit = "(" + lit + ")"
	}
	return operand{Lit: lit, Kind: "int", I: i}
}
func opFloat(f float64) operand {
	lit := strconv.FormatFloat(f, 'g', -1, 64)
	if !strings.ContainsAny(lit, ".e") {
		lit += ".0"
	}
	if strings.Contains(lit, "e+") {
		lit = strings.Replace(lit, "e+", "e", 1)
	}
	if f < 0 || (f == 0 && math.Signbit(f)) {
		lit = "(" + lit + ")"
	}
	return operand{Lit: lit, Kind: "float", F: f}
}
func opStr(s string) operand {
	return operand{Lit: strconv.Quote(s), Kind: "string", S: s}
}

var c03Pool = func() []operand {
	var p []operand
	for _, i := range []int64{0, 1, -1, 2, -4, 7, 30, 63, 64, math.MaxInt64, math.MinInt64, 1 << 53, 1<<53 + 1} {
		p = append(p, opInt(i))
	}
	for _, f := range []float64{0.0, math.Copysign(0, -1), 0.5, -1.5, 2.0, 8.5e-05, -0.9, 2.5e97, 1e308} {
		p = append(p, opFloat(f))
	}
	for _, s := range []string{"", "0", "a", "ab", "A", "10", " 1"} {
		p = append(p, opStr(s))
	}
	p = append(p, operand{Lit: "true", Kind: "bool", B: true}, operand{Lit: "false", Kind: "bool", B: false}, operand{Lit: "null", Kind: "null"})
	p = append(p, operand{Lit: "[]", Kind: "array"}, operand{Lit: "[0]", Kind: "array"}, operand{Lit: "new stdClass()", Kind: "object"})
	return p
}()

var c03Ops = []string{"+", "-", "*", "/", "%", "**", "&", "|", "^", "<<", ">>", ".", "==", "!=", "===", "!==", "<", "<=", ">", ">=", "<=>", "&&", "||"}

func opLabel(i int) string { return fmt.Sprintf("o%d", i) }

// pairScript builds the script evaluating every operator on one operand pair.
func pairScript(a, b operand) string {
	var sb strings.Builder
	sb.WriteString("<?php\n$a = " + a.Lit + ";\n$b = " + b.Lit + ";\n")
	for i, op := range c03Ops {
		fmt.Fprintf(&sb, "try { __obs(\"%s\", $a %s $b); } catch (Throwable $e) { __obs(\"!%s\", $e->getMessage()); }\n", opLabel(i), op, opLabel(i))
	}
	sb.WriteString("try { __obs(\"nota\", !$a); } catch (Throwable $e) { __obs(\"!nota\", $e->getMessage()); }\n")
	sb.WriteString("try { __obs(\"nega\", -$a); } catch (Throwable $e) { __obs(\"!nega\", $e->getMessage()); }\n")
	sb.WriteString("try { __obs(\"bnota\", ~$a); } catch (Throwable $e) { __obs(\"!bnota\", $e->getMessage()); }\n")
	return sb.String()
}

type obsMap map[string]string

func parseObs(obs []string) obsMap {
	m := obsMap{}
	for _, o := range obs {
		k, v, _ := strings.Cut(o, "=")
		if _, dup := m[k]; !dup {
			m[k] = v
		}
	}
	return m
}

// expectExact returns the expected snapshot of a op b on the documented
// domain, "ERR" for a catchable error, or "" when the case is not asserted.
func expectExact(op string, a, b operand) string {
	num := func(o operand) bool { return o.Kind == "int" || o.Kind == "float" }
	fl := func(o operand) float64 {
		if o.Kind == "int" {
			return float64(o.I)
		}
		return o.F
	}
	snapI := func(v int64) string { return "i:" + strconv.FormatInt(v, 10) }
	snapF := func(v float64) string { return "f:" + strconv.FormatFloat(v, 'g', -1, 64) }
	snapB := func(v bool) string {
		if v {
			return "b:1"
		}
		return "b:0"
	}
	bothInt := a.Kind == "int" && b.Kind == "int"
	if num(a) && num(b) {
		switch op {
		case "+", "-", "*":
			if bothInt {
				x, y := big.NewInt(a.I), big.NewInt(b.I)
				r := new(big.Int)
				switch op {
				case "+":
					r.Add(x, y)
				case "-":
					r.Sub(x, y)
				default:
					r.Mul(x, y)
				}
				if !r.IsInt64() {
					return "" // overflow: not asserted
				}
				return snapI(r.Int64())
			}
			switch op {
			case "+":
				return snapF(fl(a) + fl(b))
			case "-":
				return snapF(fl(a) - fl(b))
			default:
				return snapF(fl(a) * fl(b))
			}
		case "/":
			if fl(b) == 0 {
				return "ERR"
			}
			if bothInt && a.I == math.MinInt64 && b.I == -1 {
				return ""
			}
			return snapF(fl(a) / fl(b))
		case "%":
			if !bothInt {
				return ""
			}
			if b.I == 0 {
				return "ERR"
			}
			if b.I == -1 {
				return snapI(0)
			}
			return snapI(a.I % b.I)
		case "**":
			if !bothInt || b.I < 0 || b.I > 64 {
				return ""
			}
			r := new(big.Int).Exp(big.NewInt(a.I), big.NewInt(b.I), nil)
			if !r.IsInt64() {
				// beyond the integer range the result is a float near the exact value (the operator itself
				// switches to float there); an integer that wrapped around is not
				f, _ := new(big.Float).SetInt(r).Float64()
				return "F~" + strconv.FormatFloat(f, 'g', -1, 64)
			}
			return snapI(r.Int64())
		case "&", "|", "^":
			if !bothInt {
				return ""
			}
			switch op {
			case "&":
				return snapI(a.I & b.I)
			case "|":
				return snapI(a.I | b.I)
			default:
				return snapI(a.I ^ b.I)
			}
		case "<<", ">>":
			if !bothInt || b.I < 0 {
				return ""
			}
			if op == "<<" {
				if b.I >= 64 {
					return snapI(0)
				}
				return snapI(a.I << uint(b.I))
			}
			if b.I >= 64 {
				if a.I < 0 {
					return snapI(-1)
				}
				return snapI(0)
			}
			return snapI(a.I >> uint(b.I))
		case "==", "!=", "<", "<=", ">", ">=", "<=>":
			var cmp int
			if bothInt {
				switch {
				case a.I < b.I:
					cmp = -1
				case a.I > b.I:
					cmp = 1
				}
			} else {
				// int/float comparison is exact in PHP 8 only within 2^53; keep to that domain
				if (a.Kind == "int" && (a.I > 1<<53 || a.I < -(1<<53))) || (b.Kind == "int" && (b.I > 1<<53 || b.I < -(1<<53))) {
					return ""
				}
				switch {
				case fl(a) < fl(b):
					cmp = -1
				case fl(a) > fl(b):
					cmp = 1
				}
			}
			switch op {
			case "==":
				return snapB(cmp == 0)
			case "!=":
				return snapB(cmp != 0)
			case "<":
				return snapB(cmp < 0)
			case "<=":
				return snapB(cmp <= 0)
			case ">":
				return snapB(cmp > 0)
			case ">=":
				return snapB(cmp >= 0)
			default:
				return snapI(int64(cmp))
			}
		case "===":
			if a.Kind != b.Kind {
				return snapB(false)
			}
			if bothInt {
				return snapB(a.I == b.I)
			}
			return snapB(a.F == b.F)
		case "!==":
			if a.Kind != b.Kind {
				return snapB(true)
			}
			if bothInt {
				return snapB(a.I != b.I)
			}
			return snapB(a.F != b.F)
		}
		return ""
	}
	if a.Kind == "string" && b.Kind == "string" {
		numeric := func(s string) bool {
			t := strings.TrimSpace(s)
			if t == "" {
				return false
			}
			_, err := strconv.ParseFloat(t, 64)
			return err == nil
		}
		switch op {
		case ".", "+":
			if op == "+" && (numeric(a.S) || numeric(b.S)) {
				return ""
			}
			return "s:" + strconv.Quote(a.S+b.S)
		case "===":
			return snapB(a.S == b.S)
		case "!==":
			return snapB(a.S != b.S)
		case "==", "!=", "<", "<=>":
			if numeric(a.S) && numeric(b.S) {
				return "" // numeric strings compare numerically in PHP; not documented here
			}
			cmp := strings.Compare(a.S, b.S)
			switch op {
			case "==":
				return snapB(cmp == 0)
			case "!=":
				return snapB(cmp != 0)
			case "<":
				return snapB(cmp < 0)
			default:
				return snapI(int64(cmp))
			}
		}
		return ""
	}
	if (a.Kind == "bool" || a.Kind == "null") && (b.Kind == "bool" || b.Kind == "null") {
		tv := func(o operand) bool { return o.Kind == "bool" && o.B }
		switch op {
		case "&&":
			return snapB(tv(a) && tv(b))
		case "||":
			return snapB(tv(a) || tv(b))
		case "===":
			return snapB(a.Kind == b.Kind && a.B == b.B)
		case "!==":
			return snapB(!(a.Kind == b.Kind && a.B == b.B))
		}
	}
	return ""
}

type c03Case struct {
	A, B  operand
	Src   string `json:"src"`
	Which string `json:"which"`
}

func boolOf(s string) (bool, bool) {
	switch s {
	case "b:1":
		return true, true
	case "b:0":
		return false, true
	}
	return false, false
}

// c03JudgePair evaluates all clauses for one operand pair and returns the failures.
func c03JudgePair(pool *sb.Pool, rec *sb.Rec, a, b operand) []*failure {
	src := pairScript(a, b)
	rep := pool.Exec(&sb.Req{Kind: "script", Src: src, Tmpl: true, Run: true})
	rec.Eval()
	var out []*failure
	kinds := a.Kind + "," + b.Kind
	mk := func(key, detail string) {
		out = append(out, &failure{Key: key, Detail: fmt.Sprintf("%s  [$a = %s; $b = %s]", detail, a.Lit, b.Lit), Case: c03Case{A: a, B: b, Src: src, Which: key}})
	}
	switch rep.Outcome {
	case sb.Infra:
		rec.InfraProblem("%s", rep.Msg)
		return nil
	case sb.Hang, sb.OOM, sb.Died, sb.ParseError:
		mk("cell:crash:script:"+kinds, fmt.Sprintf("script did not run to the end: %s %s", rep.Outcome, clip(rep.Msg, 200)))
		return out
	}
	m := parseObs(rep.Obs)
	get := func(label string) (val string, isErr bool, ok bool) {
		if v, ok := m[label]; ok {
			return v, false, true
		}
		if v, ok := m["!"+label]; ok {
			return v, true, true
		}
		return "", false, false
	}
	if rep.Outcome == sb.GoPanic && !strings.Contains(strings.Join(rep.Obs, "\n"), sb.RecoveredPanicMarker) {
		mk("cell:crash:script:"+kinds, fmt.Sprintf("Go panic outside try at %s: %s", rep.Site, clip(rep.Msg, 200)))
	}
	if rep.Outcome == sb.Uncaught {
		mk("cell:crash:script:"+kinds, "uncaught at top level despite try/catch: "+clip(rep.Msg, 200))
	}
	ops := append([]string{}, c03Ops...)
	labels := make([]string, len(ops))
	for i := range ops {
		labels[i] = opLabel(i)
	}
	ops = append(ops, "!", "neg", "~")
	labels = append(labels, "nota", "nega", "bnota")
	res := map[string]string{}
	for i, op := range ops {
		v, isErr, ok := get(labels[i])
		if !ok {
			mk("cell:crash:"+op+":"+kinds, "no result and no catchable error observed for "+op)
			continue
		}
		if isErr {
			if strings.Contains(v, sb.RecoveredPanicMarker) {
				mk("cell:crash:"+op+":"+sb.PanicKind(firstLine(v)), fmt.Sprintf("Go panic in operator %s at %s: %s", op, sb.PanicSite(strings.ReplaceAll(v, `\n`, "\n")), clip(firstLine(v), 160)))
				res[op] = "PANIC"
				continue
			}
			res[op] = "ERR"
		} else {
			res[op] = v
		}
		if i < len(c03Ops) {
			if want := expectExact(op, a, b); strings.HasPrefix(want, "F~") {
				wf, _ := strconv.ParseFloat(want[2:], 64)
				gf, err := strconv.ParseFloat(strings.TrimPrefix(res[op], "f:"), 64)
				if !strings.HasPrefix(res[op], "f:") || err != nil || math.Abs(gf-wf) > 1e-9*math.Abs(wf) {
					mk("cell:exact:"+op+":"+kinds+":beyond-int-range", fmt.Sprintf("$a %s $b: want a float near %s got %s", op, want[2:], clip(res[op], 120)))
				}
			} else if want != "" && res[op] != want {
				mk("cell:exact:"+op+":"+kinds, fmt.Sprintf("$a %s $b: want %s got %s", op, want, clip(res[op], 120)))
			}
		}
	}
	// unary on documented domain
	if a.Kind == "int" && a.I != math.MinInt64 {
		if res["neg"] != "" && res["neg"] != "PANIC" && res["neg"] != "i:"+strconv.FormatInt(-a.I, 10) {
			mk("cell:exact:neg:int", fmt.Sprintf("-$a: want i:%d got %s", -a.I, res["neg"]))
		}
		if res["~"] != "" && res["~"] != "PANIC" && res["~"] != "i:"+strconv.FormatInt(^a.I, 10) {
			mk("cell:exact:~:int", fmt.Sprintf("~$a: want i:%d got %s", ^a.I, res["~"]))
		}
	}
	// coherence laws (only where both sides produced plain bools / ints)
	eq, okEq := boolOf(res["=="])
	ne, okNe := boolOf(res["!="])
	if okEq && okNe && eq == ne {
		mk("cell:law:ne-complement:"+kinds, fmt.Sprintf("($a != $b) = %v is not the complement of ($a == $b) = %v", ne, eq))
	}
	se, okSe := boolOf(res["==="])
	sne, okSne := boolOf(res["!=="])
	if okSe && okSne && se == sne {
		mk("cell:law:nes-complement:"+kinds, fmt.Sprintf("($a !== $b) = %v is not the complement of ($a === $b) = %v", sne, se))
	}
	if okSe && okEq && se && !eq {
		mk("cell:law:strict-implies-loose:"+kinds, "$a === $b holds but $a == $b does not")
	}
	lt, okLt := boolOf(res["<"])
	gt, okGt := boolOf(res[">"])
	if sp, ok := res["<=>"]; ok && strings.HasPrefix(sp, "i:") && okLt && okGt {
		want := "i:0"
		if lt && !gt {
			want = "i:-1"
		} else if gt && !lt {
			want = "i:1"
		}
		if lt && gt {
			mk("cell:law:lt-gt-exclusive:"+kinds, "$a < $b and $a > $b both hold")
		} else if sp != want {
			mk("cell:law:spaceship:"+sortedKinds(a.Kind, b.Kind), fmt.Sprintf("$a <=> $b = %s but ($a < $b) = %v and ($a > $b) = %v", sp, lt, gt))
		}
	} else if ok && !strings.HasPrefix(sp, "i:") && sp != "ERR" && sp != "PANIC" {
		mk("cell:law:spaceship-type:"+kinds, "$a <=> $b is not an int: "+clip(sp, 80))
	}
	return out
}

func firstLine(s string) string {
	s = strings.ReplaceAll(s, `\n`, "\n")
	if i := strings.Index(s, "\n"); i > 0 {
		return s[:i]
	}
	return s
}

// symmetry needs both orders; evaluated by the caller from two pair results.
func eqResult(pool *sb.Pool, a, b operand) (string, bool) {
	src := "<?php\n$a = " + a.Lit + ";\n$b = " + b.Lit + ";\ntry { __obs(\"eq\", $a == $b); } catch (Throwable $e) { __obs(\"!eq\", $e->getMessage()); }\n"
	rep := pool.Exec(&sb.Req{Kind: "script", Src: src, Tmpl: true, Run: true})
	m := parseObs(rep.Obs)
	v, ok := m["eq"]
	return v, ok
}

func truthScript(v operand) string {
	return "<?php\n$v = " + v.Lit + ";\n" +
		"try { if ($v) { __obs(\"if\", true); } else { __obs(\"if\", false); } } catch (Throwable $e) { __obs(\"!if\", $e->getMessage()); }\n" +
		"try { $n = false; while ($v) { $n = true; break; } __obs(\"while\", $n); } catch (Throwable $e) { __obs(\"!while\", $e->getMessage()); }\n" +
		"try { $n = false; for (; $v; ) { $n = true; break; } __obs(\"for\", $n); } catch (Throwable $e) { __obs(\"!for\", $e->getMessage()); }\n" +
		"try { __obs(\"ternary\", $v ? true : false); } catch (Throwable $e) { __obs(\"!ternary\", $e->getMessage()); }\n" +
		"try { __obs(\"not\", !$v); } catch (Throwable $e) { __obs(\"!not\", $e->getMessage()); }\n" +
		"try { __obs(\"and\", $v && true); } catch (Throwable $e) { __obs(\"!and\", $e->getMessage()); }\n" +
		"try { __obs(\"or\", $v || false); } catch (Throwable $e) { __obs(\"!or\", $e->getMessage()); }\n" +
		"try { __obs(\"cast\", (bool)$v); } catch (Throwable $e) { __obs(\"!cast\", $e->getMessage()); }\n"
}

// ---- a comparison gives the same answer wherever it is written ----

var cmpCtxOps = []string{"<", "<=", ">", ">=", "==", "!="}
var cmpCtxLits = []string{"0", "1", "3", "-1", "10"}

func cmpCtxScript(v operand, lit string) string {
	var b strings.Builder
	b.WriteString("<?php\n$v = " + v.Lit + ";\n")
	for i, op := range cmpCtxOps {
		e := "$v " + op + " " + lit
		fmt.Fprintf(&b, "try { __obs(\"e%d\", %s); } catch (Throwable $e) { __obs(\"!e%d\", 1); }\n", i, e, i)
		fmt.Fprintf(&b, "try { if (%s) { __obs(\"i%d\", true); } else { __obs(\"i%d\", false); } } catch (Throwable $e) { __obs(\"!i%d\", 1); }\n", e, i, i, i)
		fmt.Fprintf(&b, "try { $n = false; while (%s) { $n = true; break; } __obs(\"w%d\", $n); } catch (Throwable $e) { __obs(\"!w%d\", 1); }\n", e, i, i)
		fmt.Fprintf(&b, "try { $n = false; for (; %s; ) { $n = true; break; } __obs(\"f%d\", $n); } catch (Throwable $e) { __obs(\"!f%d\", 1); }\n", e, i, i)
		fmt.Fprintf(&b, "try { $n = false; for ($q = $v; $q %s %s; ) { $n = true; break; } __obs(\"g%d\", $n); } catch (Throwable $e) { __obs(\"!g%d\", 1); }\n", op, lit, i, i)
		fmt.Fprintf(&b, "try { __obs(\"t%d\", %s ? true : false); } catch (Throwable $e) { __obs(\"!t%d\", 1); }\n", i, e, i)
	}
	return b.String()
}

// c03JudgeCmpCtx: for one value and one int literal, each comparison operator must give one answer in
// expression, if, while, for (with the value in a plain variable and in the loop variable) and ?:.
func c03JudgeCmpCtx(pool *sb.Pool, rec *sb.Rec, v operand, lit string) *failure {
	src := cmpCtxScript(v, lit)
	rep := pool.Exec(&sb.Req{Kind: "script", Src: src, Tmpl: true, Run: true})
	rec.Eval()
	if rep.Outcome == sb.Infra {
		rec.InfraProblem("%s", rep.Msg)
		return nil
	}
	if rep.Outcome != sb.OK {
		return &failure{Key: "cell:crash:cmp-context:" + v.Kind, Detail: fmt.Sprintf("%s comparing %s with %s in several contexts: %s", rep.Outcome, v.Lit, lit, clip(rep.Msg, 160)), Case: c03Case{A: v, Src: src, Which: "cmpctx:" + lit}}
	}
	m := parseObs(rep.Obs)
	for i, op := range cmpCtxOps {
		var got []string
		seen := map[string]bool{}
		for _, c := range []string{"e", "i", "w", "f", "g", "t"} {
			k := fmt.Sprintf("%s%d", c, i)
			val := "error"
			if s, ok := m[k]; ok {
				if b, isb := boolOf(s); isb {
					val = fmt.Sprint(b)
				} else {
					val = s
				}
			}
			seen[val] = true
			got = append(got, map[string]string{"e": "expr", "i": "if", "w": "while", "f": "for", "g": "for-loopvar", "t": "ternary"}[c]+"="+val)
		}
		if len(seen) > 1 {
			return &failure{Key: "cell:cmp-context:" + op + ":" + v.Kind, Detail: fmt.Sprintf("%s %s %s depends on where it is written: %s", v.Lit, op, lit, strings.Join(got, " ")), Case: c03Case{A: v, Src: src, Which: "cmpctx:" + lit}}
		}
	}
	return nil
}

func c03JudgeTruth(pool *sb.Pool, rec *sb.Rec, v operand) *failure {
	src := truthScript(v)
	rep := pool.Exec(&sb.Req{Kind: "script", Src: src, Tmpl: true, Run: true})
	rec.Eval()
	if rep.Outcome == sb.Infra {
		rec.InfraProblem("%s", rep.Msg)
		return nil
	}
	m := parseObs(rep.Obs)
	ctxs := []string{"if", "while", "for", "ternary", "not", "and", "or", "cast"}
	var got []string
	votes := map[bool][]string{}
	for _, c := range ctxs {
		s, ok := m[c]
		if !ok {
			if e, ok := m["!"+c]; ok && strings.Contains(e, sb.RecoveredPanicMarker) {
				return &failure{Key: "cell:crash:truthy:" + v.Kind, Detail: fmt.Sprintf("Go panic evaluating %s in context %s", v.Lit, c), Case: c03Case{A: v, Src: src, Which: "truthy"}}
			}
			got = append(got, c+"=?")
			continue
		}
		b, isb := boolOf(s)
		if !isb {
			got = append(got, c+"="+s)
			continue
		}
		if c == "not" {
			b = !b
		}
		votes[b] = append(votes[b], c)
		got = append(got, fmt.Sprintf("%s=%v", c, b))
	}
	if len(votes[true]) > 0 && len(votes[false]) > 0 {
		return &failure{Key: "cell:truthy:" + v.Kind + ":" + truthClass(v), Detail: fmt.Sprintf("truthiness of %s depends on the context: %s", v.Lit, strings.Join(got, " ")), Case: c03Case{A: v, Src: src, Which: "truthy"}}
	}
	return nil
}

func truthClass(v operand) string {
	switch v.Kind {
	case "int":
		switch {
		case v.I < 0:
			return "negative"
		case v.I == 0:
			return "zero"
		}
		return "positive"
	case "float":
		switch {
		case v.F < 0:
			return "negative"
		case v.F == 0:
			return "zero"
		}
		return "positive"
	case "string":
		if v.S == "" || v.S == "0" {
			return "empty-or-0"
		}
		return "nonempty"
	}
	return v.Lit
}

func TestC03(t *testing.T) {
	cfg := sb.LoadConfig("C03")
	rec := sb.NewRec(cfg)
	defer rec.Flush()
	rec.R.Rule = fmt.Sprintf("complete enumeration of all ordered pairs over a pool of %d boundary operands (ints incl. min/max/2^53+1, floats incl. -0.0 and 1e308, strings, bools, null, arrays, object) x %d binary operators + unary ! - ~, one script per pair with each operator in its own try/catch, results read through the typed observation sink; plus the eight truthiness contexts per pool value; plus every pool value compared with 5 int literals by 6 comparison operators in 6 contexts (expression, if, while, for with a plain and with the loop variable, ?:), which must agree; plus rapid-drawn random int/float/string operands. Clauses: exact value and type on the documented domain, coherence laws and no-crash on every pair. Non-trivial = operand kinds differ or an operand is a boundary value (non-small int, float, non-alphabetic string); distinct by (lhs, rhs).", len(c03Pool), len(c03Ops))
	pool := &sb.Pool{}
	defer pool.Close()
	dl := time.Now().Add(budget(cfg, 50, 600))
	if cfg.Replay != "" {
		rf, err := sb.LoadReplay(cfg.Replay)
		if err != nil {
			rec.InfraProblem("replay: %v", err)
			return
		}
		var c c03Case
		json.Unmarshal(rf.Case, &c)
		rec.NonTrivial(c.A.Lit, c.B.Lit)
		rec.NonTrivial(c.A.Lit, c.B.Lit, "replay")
		var fs []*failure
		if strings.HasPrefix(c.Which, "cmpctx:") {
			if f := c03JudgeCmpCtx(pool, rec, c.A, strings.TrimPrefix(c.Which, "cmpctx:")); f != nil {
				rec.Fail(rf.Key, f.Detail, f.Case)
			}
			return
		}
		if c.Which == "truthy" {
			if f := c03JudgeTruth(pool, rec, c.A); f != nil {
				fs = append(fs, f)
			}
		} else {
			fs = c03JudgePair(pool, rec, c.A, c.B)
		}
		for _, f := range fs {
			if f.Key == rf.Key {
				rec.Fail(f.Key, f.Detail, f.Case)
			}
		}
		return
	}
	idx := 0
	for _, a := range c03Pool {
		for _, b := range c03Pool {
			idx++
			if !cfg.Mine(idx) {
				continue
			}
			rec.NonTrivial(a.Lit, b.Lit)
			rec.Label("pair:"+a.Kind+","+b.Kind, "$a = "+a.Lit+"; $b = "+b.Lit)
			for _, f := range c03JudgePair(pool, rec, a, b) {
				rec.Fail(f.Key, f.Detail, f.Case)
			}
			// symmetry of ==
			if ab, ok := eqResult(pool, a, b); ok {
				if ba, ok := eqResult(pool, b, a); ok && ab != ba {
					rec.Fail("cell:law:eq-symmetric:"+sortedKinds(a.Kind, b.Kind), fmt.Sprintf("(%s == %s) = %s but (%s == %s) = %s", a.Lit, b.Lit, ab, b.Lit, a.Lit, ba), c03Case{A: a, B: b, Which: "eq-symmetric"})
				}
			}
		}
	}
	for i, v := range c03Pool {
		if !cfg.Mine(i) {
			continue
		}
		rec.Label("truthy:"+v.Kind, v.Lit)
		rec.NonTrivial("truthy", v.Lit)
		if f := c03JudgeTruth(pool, rec, v); f != nil {
			rec.Fail(f.Key, f.Detail, f.Case)
		}
	}
	ci := 0
	for _, v := range c03Pool {
		for _, lit := range cmpCtxLits {
			ci++
			if !cfg.Mine(ci) {
				continue
			}
			rec.Label("cmp-context:"+v.Kind, v.Lit+" vs "+lit)
			rec.NonTrivial("cmpctx", v.Lit, lit)
			if f := c03JudgeCmpCtx(pool, rec, v, lit); f != nil {
				rec.Fail(f.Key, f.Detail, f.Case)
			}
		}
	}
	rec.R.Exhaustive = true
	rec.Flush()
	// random operands
	total := 20000 / cfg.NShards
	if cfg.Thorough() {
		total = 200000 / cfg.NShards
	}
	drawOperand := func(rt *rapid.T, label string) operand {
		switch rapid.IntRange(0, 5).Draw(rt, label+"k") {
		case 0, 1:
			return opInt(rapid.Int64().Draw(rt, label+"i"))
		case 2:
			return opInt(int64(rapid.IntRange(-70, 70).Draw(rt, label+"si")))
		case 3:
			f := rapid.Float64().Draw(rt, label+"f")
			if math.IsNaN(f) || math.IsInf(f, 0) {
				f = 0.25
			}
			return opFloat(f)
		case 4:
			return opStr(rapid.StringMatching(`[a-zA-Z ]{0,5}`).Draw(rt, label+"s"))
		default:
			return c03Pool[rapid.IntRange(0, len(c03Pool)-1).Draw(rt, label+"p")]
		}
	}
	rapidLoop(t, rec, "random", total, 250, dl, func(rt *rapid.T) *failure {
		a, b := drawOperand(rt, "a"), drawOperand(rt, "b")
		rec.NonTrivial(a.Lit, b.Lit)
		rec.Label("random:"+a.Kind+","+b.Kind, "")
		fs := c03JudgePair(pool, rec, a, b)
		for _, f := range fs {
			if !rec.IsKnown(f.Key) {
				return f
			}
			rec.Fail(f.Key, f.Detail, f.Case)
		}
		return nil
	})
}

func sortedKinds(a, b string) string {
	if a > b {
		a, b = b, a
	}
	return a + "," + b
}
