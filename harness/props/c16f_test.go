package props

import "fmt"

// c16FeaturePrograms: hand-written programs, one per language area the program generators do not reach (float
// literals, the global statement, references, statics, closures, literals in other bases, string escapes,
// destructuring, constants, generators ...). Each has its own kind, so a disagreement is keyed by the area.
var c16FeatureSources = []struct{ Kind, Src string }{
	{"float-literals", `<?php
$a = 3.14159265358979; $b = 1.6180339887; $c = 0.00000001; $d = 1.00000001; $e = 2.5; $f = 1500000.0; $g = 1.5e-7; $h = 6.02214076e23;
echo $a, "|", $b, "|", $c, "|", $d, "|", $e, "|", $f, "|", $g, "|", $h, "\n";
echo $a * 2, "|", $d - 1, "|", $c * 100000000, "\n";
if ($d > 1.0) { echo "gt\n"; } else { echo "eq\n"; }
if ($c > 0.0) { echo "pos\n"; } else { echo "zero\n"; }
echo 0.1 + 0.2, "|", 1.0, "|", -0.5, "|", 100.25, "\n";
`},
	{"global-statement", `<?php
$counter = 5; $name = "top";
function bump() { global $counter; $counter = $counter + 1; return $counter; }
function who() { global $name; return $name; }
function setName($n) { global $name; $name = $n; }
echo bump(), "|", bump(), "|", $counter, "\n";
echo who(), "|"; setName("changed"); echo $name, "|", who(), "\n";
class G { function read() { global $counter; return $counter; } static function write($v) { global $counter; $counter = $v; } }
$g = new G(); echo $g->read(), "|"; G::write(40); echo $counter, "|", $g->read(), "\n";
$cl = function() { global $counter; $counter++; return $counter; };
echo $cl(), "|", $counter, "\n";
`},
	{"static-locals", `<?php
function next_id() { static $id = 0; $id++; return $id; }
function acc($x) { static $sum = 10; $sum += $x; return $sum; }
echo next_id(), next_id(), next_id(), "|", acc(1), "|", acc(5), "\n";
class S { function hit() { static $n = 0; $n++; return $n; } }
$a = new S(); $b = new S(); echo $a->hit(), $a->hit(), $b->hit(), "\n";
`},
	{"references", `<?php
$a = 1; $b = &$a; $b = 7; echo $a, "|";
function inc(&$x) { $x++; } inc($a); echo $a, "|", $b, "\n";
$arr = [1, 2, 3]; foreach ($arr as $k => $v) { $arr[$k] = $v * 2; } echo implode(",", $arr), "\n";
function addItem(array &$list, $item) { $list[] = $item; } $l = [1]; addItem($l, 2); addItem($l, 3); echo implode(",", $l), "\n";
`},
	{"closures", `<?php
$base = 10;
$add = function($x) use ($base) { return $x + $base; };
$base = 20;
echo $add(1), "|";
$mul = fn($x) => $x * $base; echo $mul(2), "|";
$n = 0; $count = function() use (&$n) { $n++; return $n; }; $count(); $count(); echo $n, "|";
function make($k) { return function($v) use ($k) { return $k . ":" . $v; }; }
$f = make("a"); $g = make("b"); echo $f(1), $g(2), "\n";
echo implode(",", array_map(fn($v) => $v * $v, [1, 2, 3])), "\n";
`},
	{"number-bases", `<?php
echo 0x1F, "|", 0b101, "|", 017, "|", 1_000_000, "|", 9223372036854775807, "|", -9223372036854775807, "\n";
echo 7 % 3, "|", -7 % 3, "|", 2 ** 10, "|", 7 / 2, "|", intdiv(7, 2), "|", 6 / 3, "\n";
echo 1 <=> 2, "|", "a" <=> "a", "|", 5 & 3, "|", 5 | 3, "|", 5 ^ 3, "|", ~5, "|", 1 << 4, "|", 256 >> 2, "\n";
`},
	{"string-escapes", `<?php
$n = "N"; $arr = ["k" => "V", 3 => "three"]; $o = new stdClass(); $o->p = "P";
echo "tab\there\\n|\x41\u{1F600}|\$n=$n|{$arr['k']}|$arr[3]|{$o->p}|$o->p|\101", "\n";
echo 'single $n \n \' quote', "\n";
echo <<<EOT
heredoc $n {$arr['k']}
  indented \$x
EOT;
echo "\n", <<<'RAW'
raw $n {$x} \n
RAW;
echo "\n";
`},
	{"destructuring", `<?php
[$a, $b] = [1, 2]; [$a, $b] = [$b, $a]; echo $a, $b, "|";
list($x, list($y, $z)) = [1, [2, 3]]; echo $x, $y, $z, "|";
["k" => $k, "m" => $m] = ["k" => "K", "m" => "M"]; echo $k, $m, "|";
foreach ([[1, 2], [3, 4]] as [$p, $q]) { echo $p + $q, ","; }
echo "\n";
function pair() { return [10, 20]; } [$u, $v] = pair(); echo $u + $v, "\n";
`},
	{"constants", `<?php
const LIMIT = 10; define("NAME", "n");
class C { const A = 1; const B = self::A + 1; public static $count = 0; static function inc() { static::$count++; return self::$count; } }
echo LIMIT, "|", NAME, "|", C::A, "|", C::B, "|", C::inc(), C::inc(), "|", C::$count, "\n";
echo PHP_EOL === "\n" ? "eol" : "other", "|", PHP_INT_MAX, "|", M_PI > 3 ? "pi" : "no", "\n";
`},
	{"generators", `<?php
function gen() { yield 1; yield "k" => 2; yield from [3, 4]; return 5; }
foreach (gen() as $k => $v) { echo $k, "=", $v, ","; }
echo "\n";
function countTo($n) { for ($i = 1; $i <= $n; $i++) { yield $i; } }
$s = 0; foreach (countTo(4) as $v) { $s += $v; } echo $s, "\n";
`},
	{"null-handling", `<?php
$u = null; $a = ["k" => null, "z" => 0];
echo $u ?? "d", "|", $a["k"] ?? "dk", "|", $a["missing"] ?? "dm", "|", $a["z"] ?? "dz", "|";
$u ??= 5; echo $u, "|"; $u ??= 9; echo $u, "|";
echo isset($a["k"]) ? "set" : "unset", "|", isset($a["z"]) ? "set" : "unset", "|", empty($a["z"]) ? "empty" : "full", "|";
$o = null; echo $o?->p ?? "nullsafe", "|", 0 ?: "elvis", "|", "" ?: "e2", "|", "x" ?: "e3", "\n";
`},
	{"spread-named-default", `<?php
function sum(...$xs) { return array_sum($xs); }
function tag($name, $sep = ":", $val = "v") { return $name . $sep . $val; }
function typed(int $a, ?string $b = null, int ...$rest) { return $a . ($b ?? "-") . count($rest); }
echo sum(1, 2, 3), "|", sum(...[4, 5]), "|", sum(), "|", tag("n"), "|", tag("n", "="), "|", tag(val: "x", name: "m"), "|", typed(1), typed(2, "b", 3, 4), "\n";
`},
	{"magic-methods", `<?php
class M { private $d = []; function __get($n) { return $this->d[$n] ?? "none"; } function __set($n, $v) { $this->d[$n] = $v; } function __isset($n) { return isset($this->d[$n]); }
  function __call($n, $a) { return $n . count($a); } static function __callStatic($n, $a) { return "s" . $n; } function __toString() { return "M!"; } function __invoke($x) { return $x * 2; } }
$m = new M(); echo $m->a, "|"; $m->a = 5; echo $m->a, "|", isset($m->a) ? "y" : "n", isset($m->b) ? "y" : "n", "|", $m->foo(1, 2), "|", M::bar(), "|", $m, "|", "$m", "|", $m(4), "\n";
`},
	{"array-functions", `<?php
$a = [3, 1, 2]; sort($a); echo implode(",", $a), "|"; rsort($a); echo implode(",", $a), "|";
$k = ["b" => 2, "a" => 1]; ksort($k); echo implode(",", array_keys($k)), "|", implode(",", array_values($k)), "|";
echo count($a), "|", in_array(2, $a) ? "in" : "out", "|", array_search(1, $a), "|", implode(",", array_slice([1, 2, 3, 4], 1, 2)), "|", implode(",", array_merge([1], [2, 3])), "|", implode(",", array_reverse([1, 2, 3])), "|", implode(",", array_unique([1, 1, 2])), "\n";
echo implode(",", array_filter([1, 2, 3, 4], fn($v) => $v % 2 == 0)), "|", array_reduce([1, 2, 3], fn($c, $v) => $c + $v, 0), "|", json_encode(array_combine(["x", "y"], [1, 2])), "|", json_encode(array_flip(["a", "b"])), "\n";
`},
	{"string-functions", `<?php
$s = "Hello, World";
echo strlen($s), "|", strtoupper($s), "|", strtolower($s), "|", substr($s, 7), "|", substr($s, -5, 3), "|", strpos($s, "World"), "|", str_replace("World", "PHP", $s), "|", ucfirst("abc"), "|", trim("  x  "), "|", str_repeat("ab", 3), "|", implode("-", explode(", ", $s)), "|", sprintf("%05d|%.2f|%s|%x", 42, 3.14159, "s", 255), "|", str_pad("7", 3, "0", STR_PAD_LEFT), "|", strrev("abc"), "|", number_format(1234567.891, 2), "\n";
`},
	{"control-flow-misc", `<?php
$i = 0; while (true) { $i++; if ($i < 3) { continue; } if ($i > 5) { break; } echo $i; } echo "|";
for ($i = 0, $j = 10; $i < $j; $i += 3, $j -= 3) { echo $i, $j, ","; } echo "|";
$x = 3; switch (true) { case $x > 5: echo "big"; break; case $x > 1: echo "mid"; break; default: echo "small"; } echo "|";
echo match(true) { $x < 2 => "lt2", $x < 4 => "lt4", default => "ge4" }, "|";
$r = $x > 2 ? ($x > 10 ? "huge" : "some") : "few"; echo $r, "|";
do { echo "once"; } while (false); echo "|";
$k = 0; a: $k++; if ($k < 3) { goto a; } echo $k, "\n";
`},
	{"exceptions-misc", `<?php
class AppEx extends Exception { function __construct($m, private $extra = "x") { parent::__construct($m, 7); } function extra() { return $this->extra; } }
function thrower($n) { if ($n > 1) { throw new AppEx("deep", "E"); } return thrower($n + 1); }
try { thrower(0); } catch (AppEx $e) { echo get_class($e), "|", $e->getMessage(), "|", $e->getCode(), "|", $e->extra(), "|"; } finally { echo "fin|"; }
try { try { throw new RuntimeException("inner"); } catch (LogicException $e) { echo "wrong"; } finally { echo "f1|"; } } catch (Exception $e) { echo get_class($e), ":", $e->getMessage(), "|"; }
function f() { try { return "try"; } finally { echo "cleanup|"; } } echo f(), "\n";
`},
	{"interfaces-traits-abstract", `<?php
interface Shape { const SIDES = 0; function area(); }
abstract class Base implements Shape { abstract function name(); function describe() { return $this->name() . ":" . $this->area() . ":" . static::SIDES; } }
trait Loud { function shout() { return strtoupper($this->name()); } }
class Sq extends Base { use Loud; const SIDES = 4; function __construct(private $s) {} function area() { return $this->s * $this->s; } function name() { return "sq"; } }
$s = new Sq(3); echo $s->describe(), "|", $s->shout(), "|", $s instanceof Shape ? "shape" : "no", "|", $s instanceof Base ? "base" : "no", "|", Sq::SIDES, Shape::SIDES, "\n";
`},
	{"enum", `<?php
enum Suit: string { case Hearts = "H"; case Spades = "S"; function label() { return ucfirst(strtolower($this->name)); } static function fromChar($c) { return self::from($c); } }
echo Suit::Hearts->value, "|", Suit::Spades->name, "|", Suit::Hearts->label(), "|", Suit::fromChar("S")->name, "|", Suit::Hearts === Suit::Hearts ? "same" : "diff", "|", count(Suit::cases()), "\n";
`},
	{"type-juggling", `<?php
echo "5" + 3, "|", "5" . 3, "|", 5 . "", "|", (int)"12abc", "|", (float)"1.5", "|", (string)1.0, "|", (bool)"0" ? "t" : "f", "|", (bool)"" ? "t" : "f", "|", (int)3.9, "|", intval("0x1A", 16), "|", 10 / 4, "|", 10 % 4, "|", "abc" == "ABC" ? "eq" : "ne", "|", 0 == "" ? "eq" : "ne", "|", null ?? "n", "|", 1 + 1.0, "|", var_export(1 === 1.0, true), "|", var_export("1" == 1, true), "\n";
var_dump(1.0, 0.5, 100, "s", true, null, [1, "k" => 2.5]);
`},
}

func c16FeaturePrograms() []c16Prog {
	var out []c16Prog
	for i, f := range c16FeatureSources {
		out = append(out, c16Prog{Name: fmt.Sprintf("ft%02d", i), Src: f.Src, Kind: "feature:" + f.Kind})
	}
	return out
}
