package props

import (
	"bytes"
	"encoding/json"
	"fmt"
	"os"
	"path/filepath"
	"runtime"
	"sort"
	"strconv"
	"strings"
	"sync"
	"testing"
	"time"

	"github.com/php-any/origami/data"
	"github.com/php-any/origami/std/channel"
	"pgregory.net/rapid"
	"verifharness/sb"
)

// ---------------------------------------------------------------------------
// C09 — Channel delivers each value exactly once, in sender order, under any schedule.
// ---------------------------------------------------------------------------

func init() {
	sb.Register("chan", chanHandler)
	sb.Assume("C09",
		"the controlled scheduler owns the decision points: goroutines park before every operation and at the verif-tag hook points between the state snapshot / closed test and the chan operation in Send, Receive and Close; exactly one parked goroutine is released per step",
		"quiescence after each release is read from the runtime: every scenario goroutine is parked at a gate, finished, or in a blocked state (chan / select / mutex wait) according to runtime.Stack, and no park event is in flight; no timing assumption. A missing quiescence within 10 s is an infrastructure result. Verdicts are history invariants checked at quiescence",
		"at the end of a schedule the harness closes the channel (if the scenario did not), drains it and joins every goroutine; a goroutine that cannot be joined is reported as stuck",
		"ordering is judged per consumer (always sound) and across steps of the controlled schedule",
		"the script-level stress engine (spawn producers/consumers in a -race build, GOMAXPROCS varied) only reports process death, data races naming std/channel, or a wrong multiset",
	)
}

type chanCfg struct {
	Cap       int   `json:"cap"`
	Prod      []int `json:"prod"`    // sends per producer
	Cons      []int `json:"cons"`    // receives per consumer
	Closers   int   `json:"closers"` // goroutines that call Close once
	Sched     []int `json:"sched"`   // choice index among parked goroutines at each step
	TimeoutUs int   `json:"timeout_us"`
}

type chanEvent struct {
	G    int    `json:"g"`
	Kind string `json:"kind"` // send recv close panic park
	Val  int    `json:"val"`
	Ok   bool   `json:"ok"`
	Step int    `json:"step"` // step at completion
	From int    `json:"from"` // step at which the operation started
	Msg  string `json:"msg,omitempty"`
}

type chanOut struct {
	Events    []chanEvent `json:"events"`
	Enabled   []int       `json:"enabled"` // number of parked goroutines at each step
	Chosen    []string    `json:"chosen"`  // "g@point" released at each step
	Divergent bool        `json:"divergent"`
	Stuck     []int       `json:"stuck"`
	Drained   []int       `json:"drained"`
	// DrainedLate: values found by the second drain, i.e. delivered after the first drain had already
	// seen the channel closed and empty
	DrainedLate   []int `json:"drained_late"`
	HarnessClosed bool  `json:"harness_closed"`
}

type lg struct {
	id   int
	gate chan struct{}
}

type chanSched struct {
	mu     sync.Mutex
	byGoid map[int64]*lg
	events chan schedEv
	out    chanOut
	step   int
	evMu   sync.Mutex
}

type schedEv struct {
	g     int
	point string // "" = finished
}

func goid() int64 {
	var buf [64]byte
	n := runtime.Stack(buf[:], false)
	f := bytes.Fields(buf[:n])
	if len(f) < 2 {
		return -1
	}
	id, _ := strconv.ParseInt(string(f[1]), 10, 64)
	return id
}

func (s *chanSched) park(g *lg, point string) {
	s.events <- schedEv{g.id, point}
	<-g.gate
}

func (s *chanSched) record(e chanEvent) {
	s.evMu.Lock()
	e.Step = s.step
	s.out.Events = append(s.out.Events, e)
	s.evMu.Unlock()
}

func chanHandler(req *sb.Req) *sb.Rep {
	var cfg chanCfg
	if err := json.Unmarshal(req.Data, &cfg); err != nil {
		return &sb.Rep{Outcome: sb.Infra, Msg: err.Error()}
	}
	T := time.Duration(cfg.TimeoutUs) * time.Microsecond
	if T <= 0 {
		T = 400 * time.Microsecond
	}
	s := &chanSched{byGoid: map[int64]*lg{}, events: make(chan schedEv, 64)}
	ch := channel.NewChannel()
	ch.Construct(nil, data.NewIntValue(cfg.Cap))
	channel.VerifYield = func(point string) {
		s.mu.Lock()
		g := s.byGoid[goid()]
		s.mu.Unlock()
		if g != nil {
			s.park(g, point)
		}
	}
	defer func() { channel.VerifYield = nil }()
	var wg sync.WaitGroup
	nP, nC := len(cfg.Prod), len(cfg.Cons)
	total := nP + nC + cfg.Closers
	start := func(id int, body func(g *lg)) {
		g := &lg{id: id, gate: make(chan struct{})}
		wg.Add(1)
		go func() {
			s.mu.Lock()
			s.byGoid[goid()] = g
			s.mu.Unlock()
			defer func() {
				if r := recover(); r != nil {
					s.record(chanEvent{G: id, Kind: "panic", Msg: fmt.Sprint(r)})
				}
				s.mu.Lock()
				delete(s.byGoid, goid())
				s.mu.Unlock()
				s.events <- schedEv{id, ""}
				wg.Done()
			}()
			body(g)
		}()
	}
	for p := 0; p < nP; p++ {
		p := p
		start(p, func(g *lg) {
			for k := 0; k < cfg.Prod[p]; k++ {
				s.park(g, "send")
				from := s.curStep()
				ok := ch.Send(data.NewIntValue(p*100 + k))
				s.record(chanEvent{G: p, Kind: "send", Val: p*100 + k, Ok: ok, From: from})
			}
		})
	}
	for c := 0; c < nC; c++ {
		c := c
		start(nP+c, func(g *lg) {
			for k := 0; k < cfg.Cons[c]; k++ {
				s.park(g, "recv")
				from := s.curStep()
				v, ok := ch.Receive()
				val := -1
				if iv, isInt := v.(*data.IntValue); ok && isInt {
					val = iv.Value
				}
				s.record(chanEvent{G: nP + c, Kind: "recv", Val: val, Ok: ok, From: from})
			}
		})
	}
	for k := 0; k < cfg.Closers; k++ {
		id := nP + nC + k
		start(id, func(g *lg) {
			s.park(g, "close")
			from := s.curStep()
			ch.Close()
			s.record(chanEvent{G: id, Kind: "close", Ok: true, From: from})
		})
	}
	parked := map[int]string{}
	finished := map[int]bool{}
	infra := ""
	// settle waits for quiescence: every goroutine of the scenario is parked at one of our gates,
	// finished, or blocked inside the channel implementation (goroutine state read from the runtime,
	// no timing assumption), and no park/finish event is in flight.
	settle := func() {
		guard := time.Now().Add(10 * time.Second)
		for {
			drained := false
			for !drained {
				select {
				case ev := <-s.events:
					if ev.point == "" {
						finished[ev.g] = true
						delete(parked, ev.g)
					} else {
						parked[ev.g] = ev.point
					}
				default:
					drained = true
				}
			}
			if len(parked)+len(finished) == total {
				return
			}
			s.mu.Lock()
			registered := len(s.byGoid)
			busy := false
			if registered+len(finished) < total {
				busy = true // somebody has not even started yet
			} else {
				st := goroutineStates()
				for gid, g := range s.byGoid {
					if _, isParked := parked[g.id]; isParked || finished[g.id] {
						continue
					}
					if state, ok := st[gid]; !ok || !blockedState(state) {
						busy = true
						break
					}
				}
			}
			s.mu.Unlock()
			if !busy && len(s.events) == 0 {
				return
			}
			if time.Now().After(guard) {
				infra = "scheduler: no quiescence within 10s"
				return
			}
			runtime.Gosched()
			if T > 0 {
				time.Sleep(T / 8)
			}
		}
	}
	gates := map[int]*lg{}
	settleStart := func() {
		// collect the gate handles
		s.mu.Lock()
		for _, g := range s.byGoid {
			gates[g.id] = g
		}
		s.mu.Unlock()
	}
	settle()
	settleStart()
	for i := 0; i < 200; i++ {
		if len(parked) == 0 {
			break
		}
		var ids []int
		for id := range parked {
			ids = append(ids, id)
		}
		sort.Ints(ids)
		choice := 0
		if i < len(cfg.Sched) {
			choice = cfg.Sched[i]
		}
		if choice >= len(ids) {
			s.out.Divergent = true
			choice = 0
		}
		id := ids[choice]
		s.out.Enabled = append(s.out.Enabled, len(ids))
		s.out.Chosen = append(s.out.Chosen, fmt.Sprintf("%d@%s", id, parked[id]))
		s.evMu.Lock()
		s.step = i + 1
		s.evMu.Unlock()
		delete(parked, id)
		s.mu.Lock()
		for _, g := range s.byGoid {
			gates[g.id] = g
		}
		s.mu.Unlock()
		gates[id].gate <- struct{}{}
		settle()
		if infra != "" {
			break
		}
	}
	if infra != "" {
		return &sb.Rep{Outcome: sb.Infra, Msg: infra}
	}
	// finalisation: close (if needed), drain, join
	s.evMu.Lock()
	s.step = 1000
	s.evMu.Unlock()
	func() {
		defer func() {
			if r := recover(); r != nil {
				s.record(chanEvent{G: -1, Kind: "panic", Msg: "harness close/drain: " + fmt.Sprint(r)})
			}
		}()
		if !ch.IsClosed() {
			s.out.HarnessClosed = true
			ch.Close()
		}
		for {
			v, ok := ch.Receive()
			if !ok {
				break
			}
			if iv, isInt := v.(*data.IntValue); isInt {
				s.out.Drained = append(s.out.Drained, iv.Value)
			}
		}
	}()
	done := make(chan struct{})
	go func() { wg.Wait(); close(done) }()
	// goroutines still parked at a hook point must be released to finish
	deadline := time.After(10 * time.Second)
joining:
	for {
		select {
		case ev := <-s.events:
			if ev.point == "" {
				finished[ev.g] = true
			} else {
				s.mu.Lock()
				for _, g := range s.byGoid {
					gates[g.id] = g
				}
				s.mu.Unlock()
				if g := gates[ev.g]; g != nil {
					go func() { g.gate <- struct{}{} }()
				}
			}
		case <-done:
			break joining
		case <-deadline:
			for id := 0; id < total; id++ {
				if !finished[id] {
					s.out.Stuck = append(s.out.Stuck, id)
				}
			}
			break joining
		}
	}
	// drain once more: senders released during the join may have left values behind
	func() {
		defer func() { recover() }()
		for {
			v, ok := ch.Receive()
			if !ok {
				break
			}
			if iv, isInt := v.(*data.IntValue); isInt {
				s.out.DrainedLate = append(s.out.DrainedLate, iv.Value)
			}
		}
	}()
	s.evMu.Lock()
	b, _ := json.Marshal(&s.out)
	s.evMu.Unlock()
	return &sb.Rep{Outcome: sb.OK, Data: b}
}

// goroutineStates reads "goroutine N [state...]:" headers of all goroutines.
func goroutineStates() map[int64]string {
	buf := make([]byte, 1<<16)
	for {
		n := runtime.Stack(buf, true)
		if n < len(buf) {
			buf = buf[:n]
			break
		}
		buf = make([]byte, 2*len(buf))
	}
	out := map[int64]string{}
	for _, line := range bytes.Split(buf, []byte("\n")) {
		if !bytes.HasPrefix(line, []byte("goroutine ")) {
			continue
		}
		rest := line[len("goroutine "):]
		sp := bytes.IndexByte(rest, ' ')
		lb, rb := bytes.IndexByte(rest, '['), bytes.LastIndexByte(rest, ']')
		if sp < 0 || lb < 0 || rb < lb {
			continue
		}
		id, err := strconv.ParseInt(string(rest[:sp]), 10, 64)
		if err != nil {
			continue
		}
		out[id] = string(rest[lb+1 : rb])
	}
	return out
}

// blockedState: the goroutine cannot make progress until somebody else acts.
func blockedState(st string) bool {
	if i := strings.IndexByte(st, ','); i >= 0 {
		st = st[:i]
	}
	switch st {
	case "running", "runnable", "syscall", "sleep", "waiting", "idle", "dead", "copystack", "preempted":
		return false
	}
	return true
}

func (s *chanSched) curStep() int {
	s.evMu.Lock()
	defer s.evMu.Unlock()
	return s.step
}

// judgeChanHistory checks the history invariants. Returns failures (key, detail).
func judgeChanHistory(cfg chanCfg, out *chanOut) [][2]string {
	var fails [][2]string
	add := func(k, d string) { fails = append(fails, [2]string{k, d}) }
	sentOK := map[int]int{}
	recvd := map[int]int{}
	closeStep := -1
	for _, e := range out.Events {
		switch e.Kind {
		case "panic":
			kind := "other"
			switch {
			case strings.Contains(e.Msg, "send on closed channel"):
				kind = "send-on-closed"
			case strings.Contains(e.Msg, "close of closed channel"):
				kind = "close-of-closed"
			}
			add("cell:panic:"+kind, fmt.Sprintf("goroutine %d panicked: %s", e.G, clip(e.Msg, 120)))
		case "send":
			if e.Ok {
				sentOK[e.Val]++
			}
		case "recv":
			if e.Ok && e.Val >= 0 {
				recvd[e.Val]++
			}
		case "close":
			if closeStep < 0 || e.Step < closeStep {
				closeStep = e.Step
			}
		}
	}
	for _, v := range out.Drained {
		recvd[v]++
	}
	for _, v := range out.DrainedLate {
		recvd[v]++
	}
	// after close, receivers drain what is buffered and then get null: once a receive that started
	// after the close completed has reported closed-and-empty, no value may turn up any more
	emptyStep := -1
	for _, e := range out.Events {
		if e.Kind == "recv" && !e.Ok && closeStep >= 0 && e.From > closeStep && (emptyStep < 0 || e.Step < emptyStep) {
			emptyStep = e.Step
		}
	}
	if emptyStep >= 0 {
		for _, e := range out.Events {
			if e.Kind == "recv" && e.Ok && e.From > emptyStep {
				add("cell:value-after-closed-empty", fmt.Sprintf("value %d was received by a receive started at step %d, after a receive had reported the channel closed and empty at step %d", e.Val, e.From, emptyStep))
				break
			}
		}
	}
	// a receive may report closed-and-empty only when nothing is buffered: a value whose send had
	// already succeeded at an earlier step and that is received (or drained) only later was sitting in
	// the buffer when the null was returned
	firstRecv := map[int]int{} // value -> step of its first reception by a scenario goroutine
	sendStep := map[int]int{}
	for _, e := range out.Events {
		if e.Kind == "recv" && e.Ok && e.Val >= 0 {
			if s0, ok := firstRecv[e.Val]; !ok || e.Step < s0 {
				firstRecv[e.Val] = e.Step
			}
		}
		if e.Kind == "send" && e.Ok {
			sendStep[e.Val] = e.Step
		}
	}
	// the harness' own drains are receptions too: the first one runs at step 1000 (concurrently with
	// whatever is released during the join), the second after the join
	for _, v := range out.Drained {
		if s0, ok := firstRecv[v]; !ok || 1000 < s0 {
			firstRecv[v] = 1000
		}
	}
	for _, v := range out.DrainedLate {
		if _, ok := firstRecv[v]; !ok {
			firstRecv[v] = 1001
		}
	}
	for _, e := range out.Events {
		if e.Kind != "recv" || e.Ok || closeStep < 0 || e.Step <= closeStep {
			continue
		}
		for v, ss := range sendStep {
			rs, got := firstRecv[v]
			if ss < e.Step && (!got || rs > e.Step) {
				add("cell:null-while-buffered", fmt.Sprintf("goroutine %d's receive returned closed-and-empty at step %d although value %d (sent successfully at step %d) was still in the channel (received %s)", e.G, e.Step, v, ss, map[bool]string{true: fmt.Sprintf("at step %d", rs), false: "never"}[got]))
				break
			}
		}
	}
	if len(out.DrainedLate) > 0 {
		add("cell:value-after-closed-empty", fmt.Sprintf("values %v arrived in the channel after the final drain had seen it closed and empty (a send released after the close reported success)", out.DrainedLate))
	}
	for v, n := range sentOK {
		switch {
		case recvd[v] == 0:
			add("cell:lost", fmt.Sprintf("value %d was sent successfully but never received", v))
		case recvd[v] > n:
			add("cell:duplicated", fmt.Sprintf("value %d received %d times", v, recvd[v]))
		}
	}
	for v := range recvd {
		if sentOK[v] == 0 {
			add("cell:phantom", fmt.Sprintf("value %d was received but no send of it reported success", v))
		}
	}
	// per-consumer order for each sender, and cross-step order
	lastPerConsSender := map[[2]int]int{}
	lastStepPerSender := map[int][2]int{} // sender -> (val, step)
	for _, e := range out.Events {
		if e.Kind != "recv" || !e.Ok || e.Val < 0 {
			continue
		}
		sender := e.Val / 100
		k := [2]int{e.G, sender}
		if prev, ok := lastPerConsSender[k]; ok && e.Val < prev {
			add("cell:order", fmt.Sprintf("consumer %d received %d after %d from the same sender", e.G, e.Val, prev))
		}
		lastPerConsSender[k] = e.Val
		if prev, ok := lastStepPerSender[sender]; ok && e.Val < prev[0] && e.Step > prev[1] {
			add("cell:order", fmt.Sprintf("value %d of sender %d was received in step %d, after the later value %d (step %d)", e.Val, sender, e.Step, prev[0], prev[1]))
		}
		if prev, ok := lastStepPerSender[sender]; !ok || e.Val > prev[0] {
			lastStepPerSender[sender] = [2]int{e.Val, e.Step}
		}
	}
	// after close: a send that started after a close completed must fail
	if closeStep >= 0 {
		for _, e := range out.Events {
			if e.Kind == "send" && e.Ok && e.From > closeStep {
				add("cell:send-after-close", fmt.Sprintf("send of %d started at step %d, after close completed at step %d, and reported success", e.Val, e.From, closeStep))
			}
		}
	}
	if len(out.Stuck) > 0 {
		add("cell:stuck", fmt.Sprintf("goroutines %v never finished after close+drain", out.Stuck))
	}
	return fails
}

type c09Case struct {
	Cfg chanCfg  `json:"config"`
	Out *chanOut `json:"history,omitempty"`
}

func c09RunSchedule(pool *sb.Pool, rec *sb.Rec, cfg chanCfg) (*chanOut, []*failure) {
	b, _ := json.Marshal(cfg)
	rep := pool.Exec(&sb.Req{Kind: "chan", Data: b, DeadlineMs: 20000})
	rec.Eval()
	if rep.Outcome != sb.OK {
		if rep.Outcome == sb.Infra {
			rec.InfraProblem("%s", rep.Msg)
			return nil, nil
		}
		key := "cell:process:" + rep.Outcome
		if strings.Contains(rep.Stderr, "DATA RACE") {
			key = "cell:process:data-race"
		}
		return nil, []*failure{{Key: key, Detail: fmt.Sprintf("worker %s running the schedule: %s", rep.Outcome, clip(rep.Msg, 200)), Case: c09Case{Cfg: cfg}}}
	}
	var out chanOut
	if err := json.Unmarshal(rep.Data, &out); err != nil {
		rec.InfraProblem("decode: %v", err)
		return nil, nil
	}
	var fs []*failure
	seen := map[string]bool{}
	for _, kd := range judgeChanHistory(cfg, &out) {
		if seen[kd[0]] {
			continue
		}
		seen[kd[0]] = true
		fs = append(fs, &failure{Key: kd[0], Detail: fmt.Sprintf("%s  [cap=%d producers=%v consumers=%v closers=%d schedule=%v]", kd[1], cfg.Cap, cfg.Prod, cfg.Cons, cfg.Closers, out.Chosen), Case: c09Case{Cfg: cfg, Out: &out}})
	}
	return &out, fs
}

// nontrivialSchedule: a close released while a send or another close is parked at its hook point,
// or two senders interleaving on a buffered channel.
func nontrivialSchedule(cfg chanCfg, out *chanOut) bool {
	pendingSend, pendingClose := 0, 0
	senders := map[string]bool{}
	for _, c := range out.Chosen {
		id, point, _ := strings.Cut(c, "@")
		switch point {
		case "send":
			pendingSend++ // will park at send.checked next
			senders[id] = true
		case "send.checked":
			pendingSend--
		case "close":
			if pendingSend > 0 || pendingClose > 0 {
				return true
			}
			pendingClose++
		case "close.checked":
			if pendingSend > 0 || pendingClose > 1 {
				return true
			}
			pendingClose--
		}
	}
	return cfg.Cap > 0 && len(senders) >= 2
}

func TestC09(t *testing.T) {
	cfg := sb.LoadConfig("C09")
	rec := sb.NewRec(cfg)
	defer rec.Flush()
	rec.R.Rule = "schedules over real goroutines driving std/channel (capacity 0..4, producers 1..3, consumers 1..3, closers 0..2, <= 3 operations each); a schedule is the sequence of choices 'which parked goroutine runs next', goroutines park before every operation and at the verif hook points inside Send, Receive and Close. Small configurations are enumerated completely by DFS with replay from scratch, larger ones draw the choices with rapid. History invariants at quiescence: multiset(received) = multiset(successful sends), per-sender order, nothing received that was not sent, send after close fails, no value turns up after a receive reported closed-and-empty, no receive reports closed-and-empty while a successfully sent value is still buffered, no panic, nobody stuck. Non-trivial = a close released while a send or another close is parked at its hook point, or two senders interleaving on a buffered channel; distinct by (configuration, chosen schedule)."
	pool := &sb.Pool{}
	defer pool.Close()
	dl := time.Now().Add(budget(cfg, 60, 800))
	if cfg.Replay != "" {
		rf, err := sb.LoadReplay(cfg.Replay)
		if err != nil {
			rec.InfraProblem("replay: %v", err)
			return
		}
		var c c09Case
		json.Unmarshal(rf.Case, &c)
		rec.NonTrivial(fmt.Sprint(c.Cfg))
		rec.NonTrivial(fmt.Sprint(c.Cfg), "r")
		for i := 0; i < 5; i++ {
			_, fs := c09RunSchedule(pool, rec, c.Cfg)
			for _, f := range fs {
				if f.Key == rf.Key {
					rec.Fail(f.Key, f.Detail, f.Case)
					return
				}
			}
		}
		return
	}
	// complete DFS over small configurations
	type small struct {
		cap, closers int
		prod, cons   []int
	}
	var smalls []small
	for cap := 0; cap <= 2; cap++ {
		smalls = append(smalls,
			small{cap, 1, []int{1}, []int{1}},
			small{cap, 1, []int{2}, []int{1}},
			small{cap, 1, []int{1, 1}, []int{2}},
			small{cap, 2, []int{1}, []int{1}},
			small{cap, 0, []int{1, 1}, []int{1, 1}},
		)
		if cfg.Thorough() {
			smalls = append(smalls, small{cap, 1, []int{2, 2}, []int{2}}, small{cap, 1, []int{2, 1}, []int{1, 1}}, small{cap, 2, []int{1, 1}, []int{2}})
		}
	}
	allComplete := true
	for si, sm := range smalls {
		if !cfg.Mine(si) {
			continue
		}
		base := chanCfg{Cap: sm.cap, Prod: sm.prod, Cons: sm.cons, Closers: sm.closers}
		visited := 0
		sched := []int{}
		limit := 4000
		if cfg.Thorough() {
			limit = 60000
		}
		for {
			if time.Now().After(dl) || visited >= limit {
				allComplete = false
				rec.Note("DFS of %v stopped after %d schedules", sm, visited)
				break
			}
			c := base
			c.Sched = append([]int{}, sched...)
			out, fs := c09RunSchedule(pool, rec, c)
			visited++
			if out == nil && fs == nil {
				break
			}
			for _, f := range fs {
				rec.Fail(f.Key, f.Detail, f.Case)
			}
			if out == nil {
				// the worker died on this schedule: skip its subtree
				out = &chanOut{Enabled: make([]int, len(sched))}
				for i := range out.Enabled {
					out.Enabled[i] = sched[i] + 1
				}
			}
			id := fmt.Sprintf("%v|%v", base, out.Chosen)
			if nontrivialSchedule(c, out) {
				rec.NonTrivial(id)
				rec.Label("dfs.nontrivial", id)
			} else {
				rec.Label("dfs.trivial", "")
			}
			if out.Divergent {
				rec.Label("dfs.divergent-replay", "")
			}
			// next schedule: extend with zeros to the full length, then increment the last incrementable choice
			full := make([]int, len(out.Enabled))
			copy(full, sched)
			i := len(full) - 1
			for i >= 0 && full[i]+1 >= out.Enabled[i] {
				i--
			}
			if i < 0 {
				break
			}
			full[i]++
			sched = full[:i+1]
		}
		rec.Label(fmt.Sprintf("dfs.config cap=%d prod=%v cons=%v closers=%d", sm.cap, sm.prod, sm.cons, sm.closers), fmt.Sprintf("%d schedules", visited))
	}
	rec.R.Exhaustive = allComplete
	rec.Flush()
	// larger configurations: rapid-drawn schedules
	total := 400 / cfg.NShards
	if cfg.Thorough() {
		total = 40000 / cfg.NShards
	}
	rapidLoop(t, rec, "sched", total, 100, dl, func(rt *rapid.T) *failure {
		c := chanCfg{Cap: rapid.IntRange(0, 4).Draw(rt, "cap"), Closers: rapid.IntRange(0, 2).Draw(rt, "closers")}
		for p := rapid.IntRange(1, 3).Draw(rt, "np"); p > 0; p-- {
			c.Prod = append(c.Prod, rapid.IntRange(1, 3).Draw(rt, "sends"))
		}
		for k := rapid.IntRange(1, 3).Draw(rt, "nc"); k > 0; k-- {
			c.Cons = append(c.Cons, rapid.IntRange(1, 3).Draw(rt, "recvs"))
		}
		c.Sched = rapid.SliceOfN(rapid.IntRange(0, 6), 0, 40).Draw(rt, "sched")
		out, fs := c09RunSchedule(pool, rec, c)
		if out != nil {
			id := fmt.Sprintf("%v|%v", c, out.Chosen)
			if nontrivialSchedule(c, out) {
				rec.NonTrivial(id)
				rec.Label("rapid.nontrivial", "")
			} else {
				rec.Label("rapid.trivial", "")
			}
		}
		for _, f := range fs {
			if !rec.IsKnown(f.Key) {
				return f
			}
			rec.Fail(f.Key, f.Detail, f.Case)
		}
		return nil
	})
	// engine 3: receivers racing for the last buffered values of a closed channel (real threads)
	c09DrainRace(cfg, rec, pool)
	// engine 2: script-level stress with spawn under the race detector
	c09Stress(cfg, rec, dl)
}

// c09Stress runs spawn-based producer/consumer scripts through the -race build of the test
// binary's worker (the real interpreter), with GOMAXPROCS varied.
func c09Stress(cfg sb.Config, rec *sb.Rec, dl time.Time) {
	raceBin := filepath.Join(os.Getenv("VERIF_BIN"), "props.race.test")
	if _, err := os.Stat(raceBin); err != nil {
		rec.Note("stress engine skipped: no race build (%v)", err)
		return
	}
	runs := 6
	if cfg.Thorough() {
		runs = 120
	}
	for i := 0; i < runs; i++ {
		if i%cfg.NShards != cfg.Shard {
			continue
		}
		if time.Now().After(dl) {
			rec.Note("stress engine stopped by budget after %d runs", i)
			break
		}
		procs := []int{1, 2, 4, 16}[i%4]
		capN := []int{0, 1, 3, 16}[(i/4)%4]
		np, nc, per := 2+i%2, 1+i%3, 20
		var sbd strings.Builder
		sbd.WriteString("<?php\n")
		fmt.Fprintf(&sbd, "$ch = new Channel(%d);\n$done = new Channel(%d);\n", capN, np+nc)
		for p := 0; p < np; p++ {
			if p%2 == 0 {
				// the loop variable itself is sent: what is received must be the value at send time
				fmt.Fprintf(&sbd, "spawn(function() use ($ch, $done) { for ($i = %d; $i < %d; $i++) { $ch->send($i); } $done->send(-1); });\n", p*1000, p*1000+per)
			} else {
				fmt.Fprintf(&sbd, "spawn(function() use ($ch, $done) { for ($i = 0; $i < %d; $i++) { $ch->send(%d + $i); } $done->send(-1); });\n", per, p*1000)
			}
		}
		fmt.Fprintf(&sbd, "$out = new Channel(%d);\n", np*per+nc)
		for c := 0; c < nc; c++ {
			sbd.WriteString("spawn(function() use ($ch, $out) { while (true) { $v = $ch->receive(); if ($v === null) { break; } $out->send($v); } $out->send(-2); });\n")
		}
		fmt.Fprintf(&sbd, "for ($i = 0; $i < %d; $i++) { $done->receive(); }\n$ch->close();\n", np)
		fmt.Fprintf(&sbd, "$got = []; $ends = 0; while ($ends < %d) { $v = $out->receive(); if ($v === -2) { $ends++; } else { $got[] = $v; } }\nsort($got);\n__obs(\"got\", $got);\n", nc)
		pool := &sb.Pool{Binary: raceBin, ExtraEnv: []string{fmt.Sprintf("GOMAXPROCS=%d", procs), "GORACE=halt_on_error=1"}}
		rep := pool.Exec(&sb.Req{Kind: "script", Src: sbd.String(), Tmpl: true, Run: true, DeadlineMs: 60000})
		pool.Close()
		rec.Eval()
		id := fmt.Sprintf("stress procs=%d cap=%d np=%d nc=%d", procs, capN, np, nc)
		rec.NonTrivial(id)
		rec.Label("stress", id)
		cs := map[string]any{"script": sbd.String(), "gomaxprocs": procs}
		switch rep.Outcome {
		case sb.Infra:
			rec.InfraProblem("%s", rep.Msg)
			continue
		case sb.Died, sb.GoPanic:
			key := "cell:stress:" + rep.Outcome
			if strings.Contains(rep.Stderr, "DATA RACE") {
				key = "cell:stress:data-race"
				if !strings.Contains(rep.Stderr, "std/channel") {
					key = "cell:stress:data-race-elsewhere"
				}
			}
			rec.Fail(key, fmt.Sprintf("%s: %s %s\n%s", id, rep.Outcome, clip(rep.Msg, 200), clip(rep.Stderr, 1500)), cs)
			continue
		case sb.Hang:
			rec.Inconclusive("%s did not finish in 60 s", id)
			continue
		case sb.ParseError, sb.Uncaught:
			rec.InfraProblem("stress script problem: %s %s", rep.Outcome, clip(rep.Msg, 200))
			continue
		}
		o := parseObs(rep.Obs)
		var want []string
		var all []int
		for p := 0; p < np; p++ {
			for k := 0; k < per; k++ {
				all = append(all, p*1000+k)
			}
		}
		sort.Ints(all)
		for i, v := range all {
			want = append(want, fmt.Sprintf("%d=>i:%d", i, v))
		}
		if got := o["got"]; got != "a["+strings.Join(want, ",")+"]" {
			rec.Fail("cell:stress:multiset", fmt.Sprintf("%s: received multiset differs: %s", id, clip(got, 300)), cs)
		}
	}
}
