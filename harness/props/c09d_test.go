package props

import (
	"encoding/json"
	"fmt"
	"sort"
	"sync"
	"time"

	"github.com/php-any/origami/data"
	"github.com/php-any/origami/std/channel"
	"verifharness/sb"
)

// C09, engine 3 (drain race): "after close, receivers drain what is buffered and then get null". A buffered
// channel is filled with k values and closed; then m > k receivers start at the same moment on real threads and
// each receives until it is told the channel is finished. Every trial must end with all receivers returned and
// the k values handed out exactly once. A receiver that is still inside Receive although the channel is closed
// and empty can never be woken (nothing may be sent after close): that is the violation, established by the
// runtime's goroutine state (blocked in a channel operation), not by the wall clock; the 5 s wait only bounds how
// long a trial is given before that state is looked at.

func init() { sb.Register("chandrain", chandrainHandler) }

type drainCfg struct{ Trials, Cap, Buffered, Receivers int }

type drainOut struct {
	Trials    int
	Stuck     int
	StuckInfo string
	BadSet    string
}

func chandrainHandler(req *sb.Req) *sb.Rep {
	var cfg drainCfg
	if err := json.Unmarshal(req.Data, &cfg); err != nil {
		return &sb.Rep{Outcome: sb.Infra, Msg: err.Error()}
	}
	out := drainOut{}
	for t := 0; t < cfg.Trials; t++ {
		ch := channel.NewChannel()
		ch.Construct(nil, data.NewIntValue(cfg.Cap))
		for i := 0; i < cfg.Buffered; i++ {
			ch.Send(data.NewIntValue(i))
		}
		ch.Close()
		start := make(chan struct{})
		var wg sync.WaitGroup
		var mu sync.Mutex
		var got []int
		for r := 0; r < cfg.Receivers; r++ {
			wg.Add(1)
			go func() {
				defer wg.Done()
				<-start
				for k := 0; k <= cfg.Buffered; k++ {
					v, ok := ch.Receive()
					iv, isInt := v.(*data.IntValue)
					if !ok || !isInt {
						return
					}
					mu.Lock()
					got = append(got, iv.Value)
					mu.Unlock()
				}
			}()
		}
		done := make(chan struct{})
		go func() { wg.Wait(); close(done) }()
		close(start)
		select {
		case <-done:
		case <-time.After(5 * time.Second):
			// blocked in both of two samples half a second apart: a goroutine that merely waits for a lock
			// for an instant on an overloaded machine is not taken for a stuck one
			first := goroutineStates()
			time.Sleep(500 * time.Millisecond)
			blocked := 0
			for id, st := range goroutineStates() {
				if blockedState(st) && blockedState(first[id]) {
					blocked++
				}
			}
			if blocked > 0 {
				out.Stuck++
				out.StuckInfo = fmt.Sprintf("trial %d: %d goroutine(s) blocked in a channel operation 5 s after %d receivers started on a closed channel holding %d values", t, blocked, cfg.Receivers, cfg.Buffered)
				out.Trials = t + 1
				raw, _ := json.Marshal(out)
				return &sb.Rep{Outcome: sb.OK, Data: raw}
			}
			<-done
		}
		sort.Ints(got)
		ok := len(got) == cfg.Buffered
		for i := range got {
			if ok && got[i] != i {
				ok = false
			}
		}
		if !ok && out.BadSet == "" {
			out.BadSet = fmt.Sprintf("trial %d: received %v, want 0..%d once each", t, got, cfg.Buffered-1)
		}
		out.Trials = t + 1
	}
	raw, _ := json.Marshal(out)
	return &sb.Rep{Outcome: sb.OK, Data: raw}
}

func c09DrainRace(cfg sb.Config, rec *sb.Rec, pool *sb.Pool) {
	trials := 20000 // a trial takes some ten microseconds; the window needs two receivers really running at once
	if cfg.Thorough() {
		trials = 300000
	}
	shapes := []drainCfg{{Cap: 4, Buffered: 1, Receivers: 2}, {Cap: 4, Buffered: 1, Receivers: 4}, {Cap: 4, Buffered: 3, Receivers: 4}, {Cap: 16, Buffered: 7, Receivers: 8}}
	for i, sh := range shapes {
		if i%cfg.NShards != cfg.Shard {
			continue
		}
		sh.Trials = trials
		raw, _ := json.Marshal(sh)
		rep := pool.Exec(&sb.Req{Kind: "chandrain", Data: raw, DeadlineMs: 180000})
		rec.Eval()
		id := fmt.Sprintf("drain cap=%d buffered=%d receivers=%d", sh.Cap, sh.Buffered, sh.Receivers)
		rec.NonTrivial(id, fmt.Sprint(cfg.Shard))
		rec.Label("drain-race", id)
		if rep.Outcome == sb.Infra {
			rec.InfraProblem("chandrain: %s", rep.Msg)
			continue
		}
		if rep.Outcome != sb.OK {
			rec.Fail("cell:drain-race:"+rep.Outcome, fmt.Sprintf("%s: %s at %s: %s", id, rep.Outcome, rep.Site, clip(rep.Msg, 200)), sh)
			continue
		}
		var out drainOut
		json.Unmarshal(rep.Data, &out)
		if out.Stuck > 0 {
			rec.Fail("cell:stuck-after-close", fmt.Sprintf("%s: %s", id, out.StuckInfo), sh)
		}
		if out.BadSet != "" {
			rec.Fail("cell:drain-race:multiset", fmt.Sprintf("%s: %s", id, out.BadSet), sh)
		}
	}
}
