package props

import (
	"encoding/json"
	"fmt"
	"regexp"
	"sort"
	"strconv"
	"strings"
	"testing"
	"time"

	"pgregory.net/rapid"
	"verifharness/sb"
)

// ---------------------------------------------------------------------------
// C04 — expressions parse by the fixed precedence and associativity table.
// ---------------------------------------------------------------------------

func init() {
	sb.Assume("C04",
		"oracle is metamorphic: the same typed expression tree printed with minimal parentheses (per the statement's table), fully parenthesised, and with redundant parentheses added must give identical value, type and final variable state; no external notion of the value is used, so evaluation defects (C03) do not surface here unless the two printings parse differently",
		"trees are well-typed (int / bool / string) with small operands, non-zero divisors and small shift counts, so no printing raises for a reason other than a mis-parse",
		"'.' is only mixed unparenthesised with arithmetic (* / % + -) on one side and ??, ?:, assignment on the other; its position relative to shifts, comparisons, bitwise and logical operators is not asserted (the statement does not fix it)",
		"comparison and equality operators are treated as non-associative (a < b < c is never printed without parentheses)",
		"non-triviality is computed by an independent Go evaluator: some adjacent operator pair must evaluate differently (or be ill-typed) under the other grouping",
		"findings are keyed by the operator skeleton of the tree after type-preserving subtree-to-leaf reduction",
	)
}

type xType int

const (
	xInt xType = iota
	xBool
	xStr
)

// xNode is an expression tree node.
type xNode struct {
	Op       string   `json:"op"`             // "" leaf; binary op; "u-" "u~" "u!" ; "cast-int" "cast-bool" "cast-string"; "?:" ; assignment ops "=" "+=" ...
	Kids     []*xNode `json:"kids,omitempty"` // operands
	Leaf     string   `json:"leaf,omitempty"` // source text of a leaf
	T        xType    `json:"t"`
	Var      string   `json:"var,omitempty"` // assignment target / leaf variable name
	SpaceNeg bool     `json:"sn,omitempty"`  // print negative literal as "- 2"
}

// precedence levels, larger = tighter
var xPrec = map[string]int{
	"=": 1, "+=": 1, "-=": 1, "*=": 1, ".=": 1, "??=": 1,
	"?:": 2,
	"??": 3,
	".":  4,
	"||": 5,
	"&&": 6,
	"|":  7,
	"^":  8,
	"&":  9,
	"==": 10, "!=": 10, "===": 10, "!==": 10,
	"<": 11, "<=": 11, ">": 11, ">=": 11, "<=>": 11,
	"<<": 12, ">>": 12,
	"+": 13, "-": 13,
	"*": 14, "/": 14, "%": 14,
	"u-": 15, "u~": 15, "u!": 15, "cast-int": 15, "cast-bool": 15, "cast-string": 15,
	"**": 16,
}

func xRightAssoc(op string) bool {
	return op == "**" || op == "??" || xPrec[op] == 1
}
func xNonAssoc(op string) bool { return xPrec[op] == 10 || xPrec[op] == 11 }

func isUnary(op string) bool { return strings.HasPrefix(op, "u") || strings.HasPrefix(op, "cast-") }

// dotContext: the statement fixes '.' only relative to arithmetic (tighter) and ??/?:/assignment (looser).
func dotMixAsserted(other string) bool {
	p := xPrec[other]
	return p >= 13 || p <= 3 || other == "."
}

func unaryText(op string) string {
	switch op {
	case "u-":
		return "-"
	case "u~":
		return "~"
	case "u!":
		return "!"
	case "cast-int":
		return "(int)"
	case "cast-bool":
		return "(bool)"
	}
	return "(string)"
}

// xPrint prints the tree. mode: 0 minimal, 1 full, 2 minimal + redundant parentheses at nodes listed in extra.
func xPrint(n *xNode, mode int, extra map[*xNode]bool) string {
	s := xPrintInner(n, mode, extra)
	if mode == 1 && n.Op != "" {
		return "(" + s + ")"
	}
	return s
}

func xPrintInner(n *xNode, mode int, extra map[*xNode]bool) string {
	if n.Op == "" {
		return n.Leaf
	}
	child := func(c *xNode, needs bool) string {
		s := xPrintInner(c, mode, extra)
		if c.Op == "" {
			if mode == 2 && extra[c] {
				return "(" + s + ")"
			}
			return s
		}
		if mode == 1 || needs || (mode == 2 && extra[c]) {
			return "(" + s + ")"
		}
		return s
	}
	switch {
	case isUnary(n.Op):
		c := n.Kids[0]
		// ** binds tighter than unary minus: -a ** b needs no parentheses
		needs := c.Op != "" && xPrec[c.Op] < xPrec[n.Op]
		inner := child(c, needs)
		// never print "--x" or "- -2"
		if n.Op == "u-" && strings.HasPrefix(inner, "-") {
			inner = "(" + inner + ")"
		}
		return unaryText(n.Op) + inner
	case n.Op == "?:":
		c, a, b := n.Kids[0], n.Kids[1], n.Kids[2]
		// condition and branches: anything looser-or-equal than ?: needs parentheses (nested ternaries are always parenthesised)
		return child(c, c.Op != "" && xPrec[c.Op] <= 2) + " ? " + child(a, a.Op != "" && xPrec[a.Op] <= 2) + " : " + child(b, b.Op != "" && xPrec[b.Op] <= 2)
	case xPrec[n.Op] == 1:
		r := n.Kids[0]
		// right-associative and lowest: the right side never needs parentheses
		return "$" + n.Var + " " + n.Op + " " + child(r, false)
	default:
		l, r := n.Kids[0], n.Kids[1]
		p := xPrec[n.Op]
		needL := l.Op != "" && (xPrec[l.Op] < p || (xPrec[l.Op] == p && (xRightAssoc(n.Op) || xNonAssoc(n.Op))))
		needR := r.Op != "" && (xPrec[r.Op] < p || (xPrec[r.Op] == p && (!xRightAssoc(n.Op) || xNonAssoc(n.Op))))
		// unary on the left of ** : (-a) ** b
		if n.Op == "**" && isUnary(l.Op) {
			needL = true
		}
		// an assignment / ternary as an operand always needs parentheses (covered by prec), and a
		// unary operand of a binary operator never does (prec 15 > all binary but **)
		// '.' next to an operator whose relative position the statement does not fix: parenthesise
		if n.Op == "." {
			if l.Op != "" && !isUnary(l.Op) && !dotMixAsserted(l.Op) {
				needL = true
			}
			if r.Op != "" && !isUnary(r.Op) && !dotMixAsserted(r.Op) {
				needR = true
			}
		} else if !dotMixAsserted(n.Op) {
			if l.Op == "." {
				needL = true
			}
			if r.Op == "." {
				needR = true
			}
		}
		// a negative literal on the right of a binary operator: "a - -2" is fine, but keep a space
		return child(l, needL) + " " + n.Op + " " + child(r, needR)
	}
}

// ---- independent evaluator (used for the non-triviality rule only) ----

type xVal struct {
	T    xType
	I    int64
	B    bool
	S    string
	Null bool
}

type xEnv map[string]xVal

var errIllTyped = fmt.Errorf("ill-typed")

func xEval(n *xNode, env xEnv) (xVal, error) {
	if n.Op == "" {
		if n.Var != "" {
			return env[n.Var], nil
		}
		switch n.T {
		case xInt:
			i, err := strconv.ParseInt(strings.ReplaceAll(n.Leaf, " ", ""), 10, 64)
			return xVal{T: xInt, I: i}, err
		case xBool:
			return xVal{T: xBool, B: n.Leaf == "true"}, nil
		}
		s, _ := strconv.Unquote(n.Leaf)
		return xVal{T: xStr, S: s}, nil
	}
	if xPrec[n.Op] == 1 {
		r, err := xEval(n.Kids[0], env)
		if err != nil {
			return r, err
		}
		cur := env[n.Var]
		switch n.Op {
		case "=":
		case "??=":
			if !cur.Null {
				return cur, nil
			}
		case "+=", "-=", "*=":
			if cur.T != xInt || r.T != xInt || cur.Null {
				return r, errIllTyped
			}
			switch n.Op {
			case "+=":
				r.I = cur.I + r.I
			case "-=":
				r.I = cur.I - r.I
			default:
				r.I = cur.I * r.I
			}
		case ".=":
			r = xVal{T: xStr, S: xToS(cur) + xToS(r)}
		}
		env[n.Var] = r
		return r, nil
	}
	if isUnary(n.Op) {
		v, err := xEval(n.Kids[0], env)
		if err != nil {
			return v, err
		}
		switch n.Op {
		case "u-":
			if v.T != xInt {
				return v, errIllTyped
			}
			return xVal{T: xInt, I: -v.I}, nil
		case "u~":
			if v.T != xInt {
				return v, errIllTyped
			}
			return xVal{T: xInt, I: ^v.I}, nil
		case "u!":
			if v.T != xBool {
				return v, errIllTyped
			}
			return xVal{T: xBool, B: !v.B}, nil
		case "cast-int":
			switch v.T {
			case xInt:
				return v, nil
			case xBool:
				if v.B {
					return xVal{T: xInt, I: 1}, nil
				}
				return xVal{T: xInt}, nil
			}
			return v, errIllTyped
		case "cast-bool":
			if v.T == xInt {
				return xVal{T: xBool, B: v.I != 0}, nil
			}
			return v, nil
		default:
			return xVal{T: xStr, S: xToS(v)}, nil
		}
	}
	if n.Op == "?:" {
		c, err := xEval(n.Kids[0], env)
		if err != nil {
			return c, err
		}
		if c.T != xBool && c.T != xInt {
			return c, errIllTyped
		}
		// an int condition is taken by truthiness (null and 0 are false)
		if (c.T == xBool && c.B) || (c.T == xInt && !c.Null && c.I != 0) {
			return xEval(n.Kids[1], env)
		}
		return xEval(n.Kids[2], env)
	}
	if n.Op == "&&" || n.Op == "||" {
		l, err := xEval(n.Kids[0], env)
		if err != nil {
			return l, err
		}
		if l.T != xBool {
			return l, errIllTyped
		}
		if (n.Op == "&&" && !l.B) || (n.Op == "||" && l.B) {
			return l, nil
		}
		r, err := xEval(n.Kids[1], env)
		if err != nil {
			return r, err
		}
		if r.T != xBool {
			return r, errIllTyped
		}
		return r, nil
	}
	if n.Op == "??" {
		l, err := xEval(n.Kids[0], env)
		if err != nil {
			return l, err
		}
		if !l.Null {
			return l, nil
		}
		return xEval(n.Kids[1], env)
	}
	l, err := xEval(n.Kids[0], env)
	if err != nil {
		return l, err
	}
	r, err := xEval(n.Kids[1], env)
	if err != nil {
		return r, err
	}
	if n.Op == "." {
		return xVal{T: xStr, S: xToS(l) + xToS(r)}, nil
	}
	if xPrec[n.Op] == 10 {
		if l.T != r.T {
			return l, errIllTyped
		}
		eq := l == r
		if n.Op == "!=" || n.Op == "!==" {
			eq = !eq
		}
		return xVal{T: xBool, B: eq}, nil
	}
	if l.T != xInt || r.T != xInt || l.Null || r.Null {
		return l, errIllTyped
	}
	a, b := l.I, r.I
	switch n.Op {
	case "+":
		return xVal{T: xInt, I: a + b}, nil
	case "-":
		return xVal{T: xInt, I: a - b}, nil
	case "*":
		return xVal{T: xInt, I: a * b}, nil
	case "%":
		if b == 0 {
			return l, errIllTyped
		}
		return xVal{T: xInt, I: a % b}, nil
	case "**":
		if b < 0 || b > 6 {
			return l, errIllTyped
		}
		v := int64(1)
		for i := int64(0); i < b; i++ {
			v *= a
		}
		return xVal{T: xInt, I: v}, nil
	case "<<":
		if b < 0 || b > 62 {
			return l, errIllTyped
		}
		return xVal{T: xInt, I: a << uint(b)}, nil
	case ">>":
		if b < 0 || b > 62 {
			return l, errIllTyped
		}
		return xVal{T: xInt, I: a >> uint(b)}, nil
	case "&":
		return xVal{T: xInt, I: a & b}, nil
	case "|":
		return xVal{T: xInt, I: a | b}, nil
	case "^":
		return xVal{T: xInt, I: a ^ b}, nil
	case "<":
		return xVal{T: xBool, B: a < b}, nil
	case "<=":
		return xVal{T: xBool, B: a <= b}, nil
	case ">":
		return xVal{T: xBool, B: a > b}, nil
	case ">=":
		return xVal{T: xBool, B: a >= b}, nil
	case "<=>":
		switch {
		case a < b:
			return xVal{T: xInt, I: -1}, nil
		case a > b:
			return xVal{T: xInt, I: 1}, nil
		}
		return xVal{T: xInt}, nil
	}
	return l, errIllTyped
}

func xToS(v xVal) string {
	if v.Null {
		return ""
	}
	switch v.T {
	case xInt:
		return strconv.FormatInt(v.I, 10)
	case xBool:
		if v.B {
			return "1"
		}
		return ""
	}
	return v.S
}

var xVars = []struct {
	Name string
	T    xType
	Lit  string
}{
	{"a", xInt, "2"}, {"b", xInt, "3"}, {"c", xInt, "5"}, {"d", xInt, "-7"}, {"e", xInt, "1"},
	{"p", xBool, "true"}, {"q", xBool, "false"},
	{"s", xStr, `"x"`}, {"t", xStr, `"yz"`},
	{"n", xInt, "null"},
}

func xFreshEnv() xEnv {
	env := xEnv{}
	for _, v := range xVars {
		switch {
		case v.Lit == "null":
			env[v.Name] = xVal{T: v.T, Null: true}
		case v.T == xInt:
			i, _ := strconv.ParseInt(v.Lit, 10, 64)
			env[v.Name] = xVal{T: xInt, I: i}
		case v.T == xBool:
			env[v.Name] = xVal{T: xBool, B: v.Lit == "true"}
		default:
			s, _ := strconv.Unquote(v.Lit)
			env[v.Name] = xVal{T: xStr, S: s}
		}
	}
	return env
}

// xDiscriminating reports whether some adjacent binary pair of the tree gives a
// different value (or an ill-typed tree) under the other grouping.
func xDiscriminating(root *xNode) bool {
	want, werr := xEval(root, xFreshEnv())
	found := false
	var walk func(n *xNode)
	walk = func(n *xNode) {
		if found || n.Op == "" {
			return
		}
		if len(n.Kids) == 2 && !isUnary(n.Op) && xPrec[n.Op] > 1 {
			// left child binary: (a o2 b) o1 c  ->  a o2 (b o1 c)
			if l := n.Kids[0]; len(l.Kids) == 2 && !isUnary(l.Op) && xPrec[l.Op] > 1 && l.Op != "?:" {
				saveN, saveL := *n, *l
				a, b, c := l.Kids[0], l.Kids[1], n.Kids[1]
				inner := &xNode{Op: saveN.Op, Kids: []*xNode{b, c}}
				*n = xNode{Op: saveL.Op, Kids: []*xNode{a, inner}}
				got, gerr := xEval(root, xFreshEnv())
				*n, *l = saveN, saveL
				if (gerr != nil) != (werr != nil) || got != want {
					found = true
					return
				}
			}
			if r := n.Kids[1]; len(r.Kids) == 2 && !isUnary(r.Op) && xPrec[r.Op] > 1 && r.Op != "?:" {
				saveN, saveR := *n, *r
				a, b, c := n.Kids[0], r.Kids[0], r.Kids[1]
				inner := &xNode{Op: saveN.Op, Kids: []*xNode{a, b}}
				*n = xNode{Op: saveR.Op, Kids: []*xNode{inner, c}}
				got, gerr := xEval(root, xFreshEnv())
				*n, *r = saveN, saveR
				if (gerr != nil) != (werr != nil) || got != want {
					found = true
					return
				}
			}
		}
		if isUnary(n.Op) && len(n.Kids[0].Kids) == 2 {
			found = true // unary applied to a binary subtree: grouping always matters syntactically
			return
		}
		if n.Op == "?:" || xPrec[n.Op] == 1 {
			for _, k := range n.Kids {
				if k.Op != "" {
					found = true
					return
				}
			}
		}
		for _, k := range n.Kids {
			walk(k)
		}
	}
	walk(root)
	return found
}

// xClass names the precedence class of an operator (finding keys are per class, not per operator).
func xClass(op string) string {
	switch op {
	case "u-":
		return "neg"
	case "u~":
		return "bnot"
	case "u!":
		return "not"
	case "cast-int", "cast-bool", "cast-string":
		return "cast"
	case "?:":
		return "ternary"
	case "??":
		return "coalesce"
	case ".":
		return "dot"
	case "**":
		return "pow"
	}
	switch xPrec[op] {
	case 1:
		return "assign"
	case 5:
		return "lor"
	case 6:
		return "land"
	case 7:
		return "bor"
	case 8:
		return "bxor"
	case 9:
		return "band"
	case 10:
		return "eq"
	case 11:
		return "cmp"
	case 12:
		return "shift"
	case 13:
		return "add"
	case 14:
		return "mul"
	}
	return op
}

// xSkeleton is the operator-class skeleton of a tree: leaves are x (variable or
// non-negative literal) or neglit.
func xSkeleton(n *xNode) string {
	if n.Op == "" {
		if strings.HasPrefix(n.Leaf, "-") {
			return "neglit"
		}
		return "x"
	}
	var parts []string
	for _, k := range n.Kids {
		parts = append(parts, xSkeleton(k))
	}
	return xClass(n.Op) + "(" + strings.Join(parts, ",") + ")"
}

// xFeatures lists the known-risky constructs a tree contains.
func xFeatures(n *xNode, parent *xNode, out map[string]bool) {
	if n.Op == "" {
		if parent != nil && parent.Op == "**" && parent.Kids[0] == n && strings.HasPrefix(n.Leaf, "-") {
			out["neg-pow"] = true
		}
		return
	}
	if n.Op == "." {
		for _, k := range n.Kids {
			if c := xClass(k.Op); c == "add" || c == "mul" || c == "neg" || c == "bnot" || c == "pow" || c == "cast" || (k.Op == "" && k.T == xInt && k.Var == "") {
				out["dot-arith"] = true
			}
		}
	}
	if n.Op == "u-" && (n.Kids[0].Op == "**") {
		out["neg-pow"] = true
	}
	for _, k := range n.Kids {
		xFeatures(k, n, out)
	}
}

type c04Case struct {
	Tree  *xNode `json:"tree"`
	Min   string `json:"minimal"`
	Full  string `json:"full"`
	Extra string `json:"redundant"`
}

// c04Contexts: where the printed expression stands. The expected value is always taken from context 0 with
// the fully parenthesised printing; the other contexts put a list element (a variable) and a comma before the
// expression, which sends the parser through its rewind-and-reparse paths (destructuring / argument lists).
var c04Contexts = []struct{ Name, Tmpl string }{
	{"argument", "%s"},
	{"array-element-after-variable", "[$a, %s][1]"},
	{"call-argument-after-variable", "__second($a, %s)"},
	{"array-first-element", "[%s, $a][0]"},
}

func c04Script(expr string, ctx int) string {
	var sb strings.Builder
	sb.WriteString("<?php\nfunction __second($x, $y) { return $y; }\n")
	var names []string
	for _, v := range xVars {
		fmt.Fprintf(&sb, "$%s = %s;\n", v.Name, v.Lit)
		names = append(names, "$"+v.Name)
	}
	fmt.Fprintf(&sb, "try { __obs(\"v\", %s); } catch (Throwable $e) { __obs(\"!v\", get_class($e)); }\n", fmt.Sprintf(c04Contexts[ctx].Tmpl, expr))
	fmt.Fprintf(&sb, "__obs(\"vars\", [%s]);\n", strings.Join(names, ", "))
	return sb.String()
}

func c04Run(pool *sb.Pool, expr string) (string, *sb.Rep) { return c04RunCtx(pool, expr, 0) }

func c04RunCtx(pool *sb.Pool, expr string, ctx int) (string, *sb.Rep) {
	rep := pool.Exec(&sb.Req{Kind: "script", Src: c04Script(expr, ctx), Tmpl: true, Run: true})
	return rep.Outcome + "|" + strings.Join(rep.Obs, "|"), &rep
}

// c04Judge compares the printings of one tree.
func c04Judge(pool *sb.Pool, rec *sb.Rec, tree *xNode, extra map[*xNode]bool) *failure {
	minS, fullS, exS := xPrint(tree, 0, nil), xPrint(tree, 1, nil), xPrint(tree, 2, extra)
	rec.Eval()
	full, frep := c04Run(pool, fullS)
	if frep.Outcome == sb.Infra {
		rec.InfraProblem("%s", frep.Msg)
		return nil
	}
	mk := func(which, expr, got string) *failure {
		key := "cell:" + xSkeleton(tree)
		feats := map[string]bool{}
		xFeatures(tree, nil, feats)
		for _, f := range []string{"dot-arith", "neg-pow"} {
			if feats[f] {
				key = "feature:" + f
				break
			}
		}
		return &failure{Key: key, Detail: fmt.Sprintf("%s printing differs from the fully parenthesised one:\n  %s: %s\n    -> %s\n  full: %s\n    -> %s", which, which, expr, clip(got, 300), fullS, clip(full, 300)),
			Case: c04Case{Tree: tree, Min: minS, Full: fullS, Extra: exS}}
	}
	if got, _ := c04Run(pool, minS); got != full {
		return mk("minimal", minS, got)
	}
	if exS != minS {
		if got, _ := c04Run(pool, exS); got != full {
			return mk("redundant-parentheses", exS, got)
		}
	}
	// tight spelling: "+"/"-" glued to a following number ("$a -1 * 3"); the lexer then sees a signed
	// literal, and the expression must still group as the table says
	if tightS := tightRe.ReplaceAllString(minS, " $1$2"); tightS != minS {
		rec.Label("printing.tight-signed-literal", tightS)
		if got, _ := c04Run(pool, tightS); got != full {
			f := mk("tight (sign glued to the literal)", tightS, got)
			f.Key = "feature:tight-signed-literal"
			return f
		}
	}
	// the same printings after "<variable>," in a list: the value may not depend on where the expression stands
	ctx := 1 + len(minS)%(len(c04Contexts)-1)
	if c04OpenAssign(minS) {
		// "$a, $b = f()" is the language's documented multiple assignment (docs/functions.md), so an
		// unparenthesised assignment after "<variable>," is not the same expression any more: such trees
		// only stand first in the list
		ctx = 3
	}
	for _, pr := range []struct{ which, s string }{{"minimal", minS}, {"tight", tightRe.ReplaceAllString(minS, " $1$2")}} {
		if pr.which == "tight" && pr.s == minS {
			continue
		}
		rec.Label("context."+c04Contexts[ctx].Name+"."+pr.which, pr.s)
		if got, _ := c04RunCtx(pool, pr.s, ctx); got != full {
			f := mk(pr.which+" printing in context "+c04Contexts[ctx].Name, fmt.Sprintf(c04Contexts[ctx].Tmpl, pr.s), got)
			f.Key = "cell:context:" + c04Contexts[ctx].Name + ":" + pr.which
			return f
		}
	}
	return nil
}

// c04OpenAssign: the printing has an assignment operator outside every parenthesis.
func c04OpenAssign(s string) bool {
	depth := 0
	inStr := false
	for i := 0; i < len(s); i++ {
		switch c := s[i]; {
		case c == '"':
			inStr = !inStr
		case inStr:
		case c == '(':
			depth++
		case c == ')':
			depth--
		case c == '=' && depth == 0:
			prev, next := byte(' '), byte(' ')
			if i > 0 {
				prev = s[i-1]
			}
			if i+1 < len(s) {
				next = s[i+1]
			}
			if next == '=' || next == '>' {
				// ==, ===, =>: skip the run
				for i+1 < len(s) && s[i+1] == '=' {
					i++
				}
				continue
			}
			if prev == '!' || prev == '<' || prev == '>' || prev == '=' {
				continue
			}
			return true
		}
	}
	return false
}

var tightRe = regexp.MustCompile(` ([+-]) (\d)`)

// c04Reduce replaces subtrees by leaves (type-preserving, value-preserving under the evaluator) while the failure persists.
func c04Reduce(pool *sb.Pool, rec *sb.Rec, tree *xNode) *failure {
	cur := c04Judge(pool, rec, tree, nil)
	if cur == nil {
		return nil
	}
	changed := true
	for changed {
		changed = false
		var nodes []*xNode
		var walk func(n *xNode)
		walk = func(n *xNode) {
			for _, k := range n.Kids {
				nodes = append(nodes, k)
				walk(k)
			}
		}
		walk(tree)
		for _, n := range nodes {
			if n.Op == "" {
				continue
			}
			saved := *n
			leaf := "2"
			switch n.T {
			case xBool:
				leaf = "true"
			case xStr:
				leaf = `"k"`
			}
			*n = xNode{Leaf: leaf, T: saved.T}
			if f := c04Judge(pool, rec, tree, nil); f != nil {
				cur = f
				changed = true
			} else {
				*n = saved
			}
		}
	}
	return cur
}

var xIntBin = []string{"**", "*", "%", "+", "-", "<<", ">>", "&", "^", "|"}
var xCmpOps = []string{"<", "<=", ">", ">=", "==", "!=", "===", "!=="}

func xLeaf(rt *rapid.T, t xType) *xNode {
	switch t {
	case xInt:
		switch rapid.IntRange(0, 3).Draw(rt, "ileaf") {
		case 0:
			v := rapid.SampledFrom([]string{"a", "b", "c", "d", "e"}).Draw(rt, "ivar")
			return &xNode{Leaf: "$" + v, Var: v, T: xInt}
		case 1:
			i := rapid.IntRange(-4, -1).Draw(rt, "neg")
			return &xNode{Leaf: strconv.Itoa(i), T: xInt}
		default:
			return &xNode{Leaf: strconv.Itoa(rapid.IntRange(0, 6).Draw(rt, "ilit")), T: xInt}
		}
	case xBool:
		if rapid.Bool().Draw(rt, "bvar") {
			v := rapid.SampledFrom([]string{"p", "q"}).Draw(rt, "bv")
			return &xNode{Leaf: "$" + v, Var: v, T: xBool}
		}
		return &xNode{Leaf: rapid.SampledFrom([]string{"true", "false"}).Draw(rt, "blit"), T: xBool}
	}
	if rapid.Bool().Draw(rt, "svar") {
		v := rapid.SampledFrom([]string{"s", "t"}).Draw(rt, "sv")
		return &xNode{Leaf: "$" + v, Var: v, T: xStr}
	}
	return &xNode{Leaf: rapid.SampledFrom([]string{`"k"`, `"m "`, `""`}).Draw(rt, "slit"), T: xStr}
}

func xSmallLeaf(rt *rapid.T, lo, hi int) *xNode {
	return &xNode{Leaf: strconv.Itoa(rapid.IntRange(lo, hi).Draw(rt, "small")), T: xInt}
}

func xGen(rt *rapid.T, t xType, d int) *xNode {
	if d <= 0 {
		return xLeaf(rt, t)
	}
	switch t {
	case xInt:
		switch rapid.IntRange(0, 11).Draw(rt, "ik") {
		case 0:
			return xLeaf(rt, xInt)
		case 1, 2, 3, 4:
			op := rapid.SampledFrom(xIntBin).Draw(rt, "iop")
			l := xGen(rt, xInt, d-1)
			var r *xNode
			switch op {
			case "**":
				r = xSmallLeaf(rt, 0, 3)
			case "%":
				r = xSmallLeaf(rt, 1, 5)
			case "<<", ">>":
				r = xSmallLeaf(rt, 0, 4)
			default:
				r = xGen(rt, xInt, d-1)
			}
			if op == "**" {
				// keep bases small so that values stay far from overflow
				l = xLeaf(rt, xInt)
				if rapid.Bool().Draw(rt, "powchain") {
					r = &xNode{Op: "**", T: xInt, Kids: []*xNode{xSmallLeaf(rt, 1, 2), xSmallLeaf(rt, 0, 2)}}
				}
			}
			return &xNode{Op: op, T: xInt, Kids: []*xNode{l, r}}
		case 5:
			return &xNode{Op: rapid.SampledFrom([]string{"u-", "u~"}).Draw(rt, "uop"), T: xInt, Kids: []*xNode{xGen(rt, xInt, d-1)}}
		case 6:
			ct := xBool
			if rapid.IntRange(0, 2).Draw(rt, "intcond") == 0 {
				ct = xInt // truthiness condition: "$a ?? $b ? x : y", "$a + 1 ? x : y"
			}
			return &xNode{Op: "?:", T: xInt, Kids: []*xNode{xGen(rt, ct, d-1), xGen(rt, xInt, d-1), xGen(rt, xInt, d-1)}}
		case 7:
			l := &xNode{Leaf: "$n", Var: "n", T: xInt}
			if rapid.Bool().Draw(rt, "nn") {
				l = xGen(rt, xInt, d-1)
			}
			return &xNode{Op: "??", T: xInt, Kids: []*xNode{l, xGen(rt, xInt, d-1)}}
		case 8:
			v := rapid.SampledFrom([]string{"a", "b", "c"}).Draw(rt, "avar")
			return &xNode{Op: rapid.SampledFrom([]string{"=", "+=", "-=", "*="}).Draw(rt, "aop"), Var: v, T: xInt, Kids: []*xNode{xGen(rt, xInt, d-1)}}
		case 9:
			return &xNode{Op: "<=>", T: xInt, Kids: []*xNode{xGen(rt, xInt, d-1), xGen(rt, xInt, d-1)}}
		case 10:
			return &xNode{Op: "cast-int", T: xInt, Kids: []*xNode{xGen(rt, rapid.SampledFrom([]xType{xInt, xBool}).Draw(rt, "ct"), d-1)}}
		default:
			return &xNode{Op: "??=", Var: "n", T: xInt, Kids: []*xNode{xGen(rt, xInt, d-1)}}
		}
	case xBool:
		switch rapid.IntRange(0, 7).Draw(rt, "bk") {
		case 0:
			return xLeaf(rt, xBool)
		case 1, 2, 3:
			return &xNode{Op: rapid.SampledFrom(xCmpOps).Draw(rt, "cmp"), T: xBool, Kids: []*xNode{xGen(rt, xInt, d-1), xGen(rt, xInt, d-1)}}
		case 4:
			return &xNode{Op: rapid.SampledFrom([]string{"==", "!=", "===", "!=="}).Draw(rt, "beq"), T: xBool, Kids: []*xNode{xGen(rt, xBool, d-1), xGen(rt, xBool, d-1)}}
		case 5, 6:
			return &xNode{Op: rapid.SampledFrom([]string{"&&", "||"}).Draw(rt, "lop"), T: xBool, Kids: []*xNode{xGen(rt, xBool, d-1), xGen(rt, xBool, d-1)}}
		default:
			return &xNode{Op: "u!", T: xBool, Kids: []*xNode{xGen(rt, xBool, d-1)}}
		}
	default:
		switch rapid.IntRange(0, 5).Draw(rt, "sk") {
		case 0:
			return xLeaf(rt, xStr)
		case 1, 2:
			pick := func() *xNode {
				if rapid.Bool().Draw(rt, "dotint") {
					return xGen(rt, xInt, d-1)
				}
				return xGen(rt, xStr, d-1)
			}
			return &xNode{Op: ".", T: xStr, Kids: []*xNode{pick(), pick()}}
		case 3:
			return &xNode{Op: "?:", T: xStr, Kids: []*xNode{xGen(rt, xBool, d-1), xGen(rt, xStr, d-1), xGen(rt, xStr, d-1)}}
		case 4:
			v := rapid.SampledFrom([]string{"s", "t"}).Draw(rt, "svar")
			return &xNode{Op: rapid.SampledFrom([]string{"=", ".="}).Draw(rt, "sop"), Var: v, T: xStr, Kids: []*xNode{xGen(rt, xStr, d-1)}}
		default:
			return &xNode{Op: "cast-string", T: xStr, Kids: []*xNode{xGen(rt, xInt, d-1)}}
		}
	}
}

// c04Pairs enumerates all two-operator trees a o1 b o2 c in both shapes.
func c04Pairs() []*xNode {
	type sig struct {
		op      string
		l, r, o xType
	}
	var sigs []sig
	for _, op := range xIntBin {
		sigs = append(sigs, sig{op, xInt, xInt, xInt})
	}
	sigs = append(sigs, sig{"<=>", xInt, xInt, xInt})
	for _, op := range xCmpOps {
		sigs = append(sigs, sig{op, xInt, xInt, xBool})
	}
	for _, op := range []string{"==", "!="} {
		sigs = append(sigs, sig{op, xBool, xBool, xBool})
	}
	for _, op := range []string{"&&", "||"} {
		sigs = append(sigs, sig{op, xBool, xBool, xBool})
	}
	sigs = append(sigs, sig{"??", xInt, xInt, xInt}, sig{".", xStr, xStr, xStr}, sig{".", xInt, xStr, xStr}, sig{".", xStr, xInt, xStr})
	leaves := map[xType][][]string{
		xInt:  {{"$a", "$b", "$c"}, {"5", "2", "3"}, {"$d", "1", "$b"}},
		xBool: {{"$p", "$q", "$p"}, {"false", "true", "false"}, {"$q", "$q", "$p"}},
		xStr:  {{"$s", "$t", `"k"`}, {`"k"`, "$s", "$t"}, {"$t", `"m "`, "$s"}},
	}
	mkLeaf := func(t xType, set, pos int) *xNode {
		txt := leaves[t][set][pos]
		n := &xNode{Leaf: txt, T: t}
		if strings.HasPrefix(txt, "$") {
			n.Var = txt[1:]
		}
		return n
	}
	fixR := func(op string, r *xNode) *xNode {
		switch op {
		case "**", "<<", ">>":
			if r.Op == "" {
				return &xNode{Leaf: "2", T: xInt}
			}
		case "%":
			if r.Op == "" {
				return &xNode{Leaf: "3", T: xInt}
			}
		}
		return r
	}
	var out []*xNode
	for _, s1 := range sigs {
		for _, s2 := range sigs {
			for set := 0; set < 3; set++ {
				// shape L: (a s1 b) s2 c   requires s1.o == s2.l
				if s1.o == s2.l {
					inner := &xNode{Op: s1.op, T: s1.o, Kids: []*xNode{mkLeaf(s1.l, set, 0), fixR(s1.op, mkLeaf(s1.r, set, 1))}}
					out = append(out, &xNode{Op: s2.op, T: s2.o, Kids: []*xNode{inner, fixR(s2.op, mkLeaf(s2.r, set, 2))}})
				}
				// shape R: a s1 (b s2 c)   requires s2.o == s1.r
				if s2.o == s1.r && s1.op != "%" && s1.op != "<<" && s1.op != ">>" && s1.op != "**" {
					inner := &xNode{Op: s2.op, T: s2.o, Kids: []*xNode{mkLeaf(s2.l, set, 1), fixR(s2.op, mkLeaf(s2.r, set, 2))}}
					out = append(out, &xNode{Op: s1.op, T: s1.o, Kids: []*xNode{mkLeaf(s1.l, set, 0), inner}})
				}
			}
		}
	}
	// unary / cast / ternary / assignment against every binary operator
	for _, s := range sigs {
		for set := 0; set < 2; set++ {
			bin := func() *xNode {
				return &xNode{Op: s.op, T: s.o, Kids: []*xNode{mkLeaf(s.l, set, 0), fixR(s.op, mkLeaf(s.r, set, 1))}}
			}
			if s.o == xInt {
				for _, u := range []string{"u-", "u~", "cast-int"} {
					out = append(out, &xNode{Op: u, T: xInt, Kids: []*xNode{bin()}})
				}
				out = append(out, &xNode{Op: "=", Var: "a", T: xInt, Kids: []*xNode{bin()}}, &xNode{Op: "+=", Var: "a", T: xInt, Kids: []*xNode{bin()}})
				out = append(out, &xNode{Op: "?:", T: xInt, Kids: []*xNode{mkLeaf(xBool, set, 0), bin(), bin()}})
				// the binary operator as an int condition taken by truthiness: "$a ?? $b ? $c : 5"
				out = append(out, &xNode{Op: "?:", T: xInt, Kids: []*xNode{bin(), mkLeaf(xInt, set, 2), {Leaf: "77", T: xInt}}})
			}
			if s.l == xInt {
				for _, u := range []string{"u-", "u~", "cast-int"} {
					b := bin()
					b.Kids[0] = &xNode{Op: u, T: xInt, Kids: []*xNode{b.Kids[0]}}
					out = append(out, b)
				}
			}
			if s.o == xBool {
				out = append(out, &xNode{Op: "u!", T: xBool, Kids: []*xNode{bin()}})
				out = append(out, &xNode{Op: "?:", T: xInt, Kids: []*xNode{bin(), mkLeaf(xInt, set, 0), mkLeaf(xInt, set, 1)}})
				out = append(out, &xNode{Op: "cast-int", T: xInt, Kids: []*xNode{bin()}})
			}
			if s.l == xBool {
				b := bin()
				b.Kids[0] = &xNode{Op: "u!", T: xBool, Kids: []*xNode{b.Kids[0]}}
				out = append(out, b)
			}
			if s.o == xStr {
				out = append(out, &xNode{Op: ".=", Var: "s", T: xStr, Kids: []*xNode{bin()}})
			}
		}
	}
	// negative literals through the signed-number token path
	for _, op := range []string{"+", "-", "*", "**", "%", "<<", "&", "<", "=="} {
		for _, neg := range []string{"-2", "- 2"} {
			t := xInt
			if op == "<" || op == "==" {
				t = xBool
			}
			out = append(out, &xNode{Op: op, T: t, Kids: []*xNode{{Leaf: "$a", Var: "a", T: xInt}, {Leaf: strings.ReplaceAll(neg, " ", ""), T: xInt}}})
			if op != "%" && op != "<<" {
				out = append(out, &xNode{Op: op, T: t, Kids: []*xNode{{Leaf: neg, T: xInt}, {Leaf: "2", T: xInt}}})
			}
		}
	}
	return out
}

func TestC04(t *testing.T) {
	cfg := sb.LoadConfig("C04")
	rec := sb.NewRec(cfg)
	defer rec.Flush()
	pool := &sb.Pool{}
	defer pool.Close()
	dl := time.Now().Add(budget(cfg, 50, 700))
	if cfg.Replay != "" {
		rf, err := sb.LoadReplay(cfg.Replay)
		if err != nil {
			rec.InfraProblem("replay: %v", err)
			return
		}
		var c c04Case
		json.Unmarshal(rf.Case, &c)
		rec.NonTrivial(c.Min)
		rec.NonTrivial(c.Min, "replay")
		if f := c04Judge(pool, rec, c.Tree, nil); f != nil {
			rec.Fail(rf.Key, f.Detail, f.Case)
		}
		return
	}
	pairs := c04Pairs()
	rec.R.Rule = fmt.Sprintf("(a) complete enumeration of %d two-operator trees: every ordered pair of binary operators in both tree shapes with three operand assignments, plus unary/cast/ternary/assignment against every binary operator and negative literals in both spellings; (b) rapid-drawn well-typed trees up to depth 5 (thorough adds all operator triples). Each tree is printed with minimal parentheses, fully parenthesised and with redundant parentheses, and the three evaluations (value, type, final variables via the observation sink) must be identical. Non-trivial = an independent evaluator finds an adjacent operator pair whose other grouping evaluates differently or is ill-typed; distinct by minimal printing.", len(pairs))
	for i, tree := range pairs {
		if !cfg.Mine(i) {
			continue
		}
		min := xPrint(tree, 0, nil)
		if xDiscriminating(tree) {
			rec.NonTrivial(min)
		}
		rec.Label("pair-enum", min)
		if f := c04Judge(pool, rec, tree, nil); f != nil {
			rec.Fail(f.Key, f.Detail, f.Case)
		}
	}
	rec.R.Exhaustive = true
	rec.Flush()
	total := 30000 / cfg.NShards
	if cfg.Thorough() {
		total = 400000 / cfg.NShards
	}
	rapidLoop(t, rec, "trees", total, 250, dl, func(rt *rapid.T) *failure {
		tt := rapid.SampledFrom([]xType{xInt, xInt, xBool, xStr}).Draw(rt, "type")
		tree := xGen(rt, tt, rapid.IntRange(2, 5).Draw(rt, "depth"))
		min := xPrint(tree, 0, nil)
		if _, err := xEval(tree, xFreshEnv()); err != nil {
			rec.Label("ill-typed-regenerated", "")
			return nil
		}
		// redundant parentheses at random nodes
		extra := map[*xNode]bool{}
		var walk func(n *xNode)
		walk = func(n *xNode) {
			for _, k := range n.Kids {
				if rapid.IntRange(0, 4).Draw(rt, "xp") == 0 {
					extra[k] = true
				}
				walk(k)
			}
		}
		walk(tree)
		feats := map[string]bool{}
		xFeatures(tree, nil, feats)
		for f := range feats {
			if rec.IsKnown("feature:" + f) {
				// a listed finding: the construct is exercised by the enumeration, not by the random campaign
				rec.Label("excluded:"+f, "")
				return nil
			}
		}
		if xDiscriminating(tree) {
			rec.NonTrivial(min)
			rec.Label("tree.discriminating", min)
		} else {
			rec.Label("tree.trivial", "")
		}
		f := c04Judge(pool, rec, tree, extra)
		if f == nil {
			return nil
		}
		if rec.IsKnown(f.Key) {
			return f
		}
		// reduce to the responsible operator skeleton before deciding whether it is known
		cp := xClone(tree)
		if red := c04Reduce(pool, rec, cp); red != nil {
			return red
		}
		return f
	})
	_ = sort.Strings
}

func xClone(n *xNode) *xNode {
	c := *n
	c.Kids = nil
	for _, k := range n.Kids {
		c.Kids = append(c.Kids, xClone(k))
	}
	return &c
}
