package props

import (
	"encoding/json"
	"fmt"
	netannotation "github.com/php-any/origami/std/net/annotation"
	"net/http"
	"net/http/httptest"
	"net/url"
	"os"
	"path/filepath"
	"regexp"
	"runtime"
	"runtime/debug"
	"sort"
	"strings"
	"sync"
	"testing"
	"time"

	"github.com/php-any/origami/data"
	"github.com/php-any/origami/node"
	"pgregory.net/rapid"
	"verifharness/sb"
)

// ---------------------------------------------------------------------------
// C11 — concurrent HTTP requests do not interfere: a response depends on its request.
// ---------------------------------------------------------------------------

func init() {
	sb.Register("http", httpHandler)
	sb.Assume("C11",
		"oracle = differential against the same handler serving the same request alone on a fresh VM: status, header map and body must be equal",
		"handlers never write state that is shared by design (captured outer variables, statics, globals, class statics); every request carries unique parameter values so that any cross-talk changes the response",
		"the mux is obtained from the Server object and driven in-process with httptest recorders (no sockets); the gated engine parks request A inside its handler at a harness function between two reads, runs request B to completion and releases A; the parallel engine runs real goroutines (GOMAXPROCS varied; -race build in the thorough tier)",
		"a listed finding feature:<source> removes that input source ($_GET ...) from the main campaign; the source is still probed on its own on every run",
	)
}

type httpReqSpec struct {
	Method  string            `json:"method"`
	URL     string            `json:"url"`
	Headers map[string]string `json:"headers,omitempty"`
	Form    map[string]string `json:"form,omitempty"`
	Cookies map[string]string `json:"cookies,omitempty"`
}

type httpCfg struct {
	Script string            `json:"script"`
	Reqs   []httpReqSpec     `json:"reqs"`
	Mode   string            `json:"mode"` // alone | parallel | gated
	Procs  int               `json:"procs"`
	Files  map[string]string `json:"files,omitempty"` // file-based application (index.php + app/**) instead of Script
}

type httpResp struct {
	Status  int                 `json:"status"`
	Headers map[string][]string `json:"headers"`
	Body    string              `json:"body"`
	Panic   string              `json:"panic,omitempty"`
}

type gateT struct {
	mu      sync.Mutex
	armed   bool
	parked  chan struct{}
	release chan struct{}
}

var theGate *gateT

type gateFunc struct{}

func (gateFunc) Call(ctx data.Context) (data.GetValue, data.Control) {
	g := theGate
	if g == nil {
		return data.NewNullValue(), nil
	}
	g.mu.Lock()
	if !g.armed {
		g.mu.Unlock()
		return data.NewNullValue(), nil
	}
	g.armed = false // only the first caller parks
	g.mu.Unlock()
	close(g.parked)
	<-g.release
	return data.NewNullValue(), nil
}
func (gateFunc) GetName() string               { return "__gate" }
func (gateFunc) GetParams() []data.GetValue    { return nil }
func (gateFunc) GetVariables() []data.Variable { return nil }

// captureFunc lets a file-based application hand its $server to the harness.
type captureFunc struct{ got data.Value }

func (f *captureFunc) Call(ctx data.Context) (data.GetValue, data.Control) {
	if v, ok := ctx.GetIndexValue(0); ok {
		f.got = v
	}
	return nil, nil
}
func (f *captureFunc) GetName() string { return "__capture" }
func (f *captureFunc) GetParams() []data.GetValue {
	return []data.GetValue{node.NewParameter(nil, "v", 0, nil, nil)}
}
func (f *captureFunc) GetVariables() []data.Variable {
	return []data.Variable{node.NewVariable(nil, "v", 0, nil)}
}

// buildMuxFor builds the server of a configuration: a single script, or an application made of files
// (annotation routing scans a directory) whose index.php hands $server to __capture.
func buildMuxFor(cfg httpCfg) (*http.ServeMux, *sb.ScriptEnv, string) {
	if len(cfg.Files) == 0 {
		return buildMux(cfg.Script)
	}
	dir, err := os.MkdirTemp("", "c11-app-")
	if err != nil {
		return nil, nil, "tempdir: " + err.Error()
	}
	appDirs = append(appDirs, dir)
	for name, body := range cfg.Files {
		p := filepath.Join(dir, filepath.FromSlash(name))
		os.MkdirAll(filepath.Dir(p), 0o755)
		os.WriteFile(p, []byte(body), 0o644)
	}
	e := sb.NewScriptEnv("http")
	netannotation.Load(e.VM)
	e.VM.AddFunc(gateFunc{})
	cap := &captureFunc{}
	e.VM.AddFunc(cap)
	if _, c := e.VM.LoadAndRun(filepath.Join(dir, "index.php")); c != nil {
		return nil, e, "run: " + c.AsString()
	}
	if e.Thrown != nil {
		return nil, e, "uncaught: " + e.Thrown.AsString()
	}
	if gs, ok := cap.got.(interface{ GetSource() any }); ok {
		if m, ok := gs.GetSource().(*http.ServeMux); ok {
			return m, e, ""
		}
	}
	if cv, ok := cap.got.(*data.ClassValue); ok {
		if src, ok := cv.Class.(interface{ GetSource() any }); ok {
			if m, ok := src.GetSource().(*http.ServeMux); ok {
				return m, e, ""
			}
		}
	}
	return nil, e, "the application did not hand a server to __capture"
}

var appDirs []string

func buildMux(script string) (*http.ServeMux, *sb.ScriptEnv, string) {
	e := sb.NewScriptEnv("http")
	e.VM.AddFunc(gateFunc{})
	prog, acl := e.P.ParseString(script, "server.php")
	if acl != nil {
		return nil, e, "parse: " + acl.AsString()
	}
	vars := e.P.GetVariables()
	ctx := e.VM.CreateContext(vars)
	if _, c := prog.GetValue(ctx); c != nil {
		return nil, e, "run: " + c.AsString()
	}
	if e.Thrown != nil {
		return nil, e, "uncaught: " + e.Thrown.AsString()
	}
	for _, v := range vars {
		if v.GetName() == "server" {
			val, _ := ctx.GetIndexValue(v.GetIndex())
			if cv, ok := val.(*data.ClassValue); ok {
				if src, ok := cv.Class.(interface{ GetSource() any }); ok {
					if m, ok := src.GetSource().(*http.ServeMux); ok {
						return m, e, ""
					}
				}
			}
			if gs, ok := val.(interface{ GetSource() any }); ok {
				if m, ok := gs.GetSource().(*http.ServeMux); ok {
					return m, e, ""
				}
			}
		}
	}
	return nil, e, "no mux found in $server"
}

func mkRequest(s httpReqSpec) *http.Request {
	var body *strings.Reader
	if len(s.Form) > 0 {
		f := url.Values{}
		for k, v := range s.Form {
			f.Set(k, v)
		}
		body = strings.NewReader(f.Encode())
	} else {
		body = strings.NewReader("")
	}
	r := httptest.NewRequest(s.Method, s.URL, body)
	if len(s.Form) > 0 {
		r.Header.Set("Content-Type", "application/x-www-form-urlencoded")
	}
	for k, v := range s.Headers {
		r.Header.Set(k, v)
	}
	var cks []string
	for k := range s.Cookies {
		cks = append(cks, k)
	}
	sort.Strings(cks)
	for _, k := range cks {
		r.AddCookie(&http.Cookie{Name: k, Value: s.Cookies[k]})
	}
	return r
}

func serveOne(mux *http.ServeMux, s httpReqSpec) (resp httpResp) {
	rec := httptest.NewRecorder()
	defer func() {
		if r := recover(); r != nil {
			msg := fmt.Sprint(r)
			if c, ok := r.(data.Control); ok {
				msg = c.AsString()
			}
			// name the innermost interpreter frame: a schedule-dependent panic rarely reproduces from the replay file
			resp = httpResp{Status: rec.Code, Headers: rec.Header(), Body: rec.Body.String(), Panic: clip(msg, 300) + " at " + sb.PanicSite(string(debug.Stack()))}
		}
	}()
	mux.ServeHTTP(rec, mkRequest(s))
	return httpResp{Status: rec.Code, Headers: rec.Header(), Body: rec.Body.String()}
}

func httpHandler(req *sb.Req) *sb.Rep {
	var cfg httpCfg
	if err := json.Unmarshal(req.Data, &cfg); err != nil {
		return &sb.Rep{Outcome: sb.Infra, Msg: err.Error()}
	}
	defer func() {
		data.WriteOutput = data.DefaultOutputWriter
		theGate = nil
		for _, d := range appDirs {
			os.RemoveAll(d)
		}
		appDirs = nil
	}()
	out := make([]httpResp, len(cfg.Reqs))
	switch cfg.Mode {
	case "alone":
		for i, r := range cfg.Reqs {
			theGate = nil
			mux, _, msg := buildMuxFor(cfg)
			if mux == nil {
				return &sb.Rep{Outcome: sb.Infra, Msg: msg}
			}
			node.ResetSuperglobals()
			out[i] = serveOne(mux, r)
		}
	case "parallel":
		mux, _, msg := buildMuxFor(cfg)
		if mux == nil {
			return &sb.Rep{Outcome: sb.Infra, Msg: msg}
		}
		_ = runtime.NumCPU // GOMAXPROCS comes from the worker's environment (one worker pool per value)
		var wg sync.WaitGroup
		start := make(chan struct{})
		for i := range cfg.Reqs {
			i := i
			wg.Add(1)
			go func() {
				defer wg.Done()
				<-start
				out[i] = serveOne(mux, cfg.Reqs[i])
			}()
		}
		close(start)
		wg.Wait()
	case "gated":
		mux, _, msg := buildMuxFor(cfg)
		if mux == nil {
			return &sb.Rep{Outcome: sb.Infra, Msg: msg}
		}
		g := &gateT{armed: true, parked: make(chan struct{}), release: make(chan struct{})}
		theGate = g
		doneA := make(chan struct{})
		go func() {
			out[0] = serveOne(mux, cfg.Reqs[0])
			close(doneA)
		}()
		select {
		case <-g.parked:
		case <-doneA:
			// A never reached the gate: nobody would release a later request that does
			g.mu.Lock()
			g.armed = false
			g.mu.Unlock()
			for i := 1; i < len(cfg.Reqs); i++ {
				out[i] = serveOne(mux, cfg.Reqs[i])
			}
			b, _ := json.Marshal(out)
			return &sb.Rep{Outcome: sb.OK, Data: b, Msg: "gate-not-reached"}
		case <-time.After(5 * time.Second):
			return &sb.Rep{Outcome: sb.Infra, Msg: "request A neither finished nor reached the gate"}
		}
		for i := 1; i < len(cfg.Reqs); i++ {
			out[i] = serveOne(mux, cfg.Reqs[i])
		}
		close(g.release)
		<-doneA
	}
	b, _ := json.Marshal(out)
	return &sb.Rep{Outcome: sb.OK, Data: b}
}

// ---- handler generation ----

type readSrc struct {
	Name string // feature name
	Expr func(key string) string
	Via  string // "object" | "superglobal"
	Kind string // query | form | cookie | header | server
}

var readSrcs = []readSrc{
	{"req.formValue", func(k string) string { return "$req->formValue('" + k + "')" }, "object", "form"},
	{"req.postFormValue", func(k string) string { return "$req->postFormValue('" + k + "')" }, "object", "form"},
	{"req.header", func(k string) string { return "$req->header('X-" + k + "')" }, "object", "header"},
	{"req.input", func(k string) string { return "$req->input('" + k + "')" }, "object", "form"},
	{"req.path", func(k string) string { return "$req->path()" }, "object", "server"},
	{"$_GET", func(k string) string { return "$_GET['" + k + "']" }, "superglobal", "query"},
	{"$_POST", func(k string) string { return "$_POST['" + k + "']" }, "superglobal", "form"},
	{"$_COOKIE", func(k string) string { return "$_COOKIE['" + k + "']" }, "superglobal", "cookie"},
	{"$_REQUEST", func(k string) string { return "$_REQUEST['" + k + "']" }, "superglobal", "query"},
	{"$_SERVER", func(k string) string { return "$_SERVER['REQUEST_URI']" }, "superglobal", "server"},
	// the same superglobals read inside something the handler calls (the read is then not made from
	// the handler's own frame); whatever such a read yields, it must not be another request's data
	{"$_GET@function", func(k string) string { return "rdGet('" + k + "')" }, "nested", "query"},
	{"$_COOKIE@closure", func(k string) string { return "(function ($kk) { return $_COOKIE[$kk] ?? ''; })('" + k + "')" }, "nested", "cookie"},
	{"$_POST@static-method", func(k string) string { return "Rd::post('" + k + "')" }, "nested", "form"},
	{"$_REQUEST@function", func(k string) string { return "rdRequest('" + k + "')" }, "nested", "query"},
}

const nStyles = 5

type handlerSpec struct {
	Reads []int `json:"reads"` // indexes into readSrcs
	Gate  int   `json:"gate"`  // gate after this many reads (0 = none)
	Style int   `json:"style"` // computation style
}

var paramKeys = []string{"a", "b", "c", "d", "e", "f"}

func handlerSource(route string, h handlerSpec) string {
	var sb strings.Builder
	fmt.Fprintf(&sb, "$server->post('%s', function ($req, $res) {\n", route)
	sb.WriteString("    $vals = [];\n    $acc = '';\n")
	for i, ri := range h.Reads {
		src := readSrcs[ri]
		key := paramKeys[i%len(paramKeys)]
		fmt.Fprintf(&sb, "    $v%d = %s;\n", i, src.Expr(key))
		fmt.Fprintf(&sb, "    $vals[] = $v%d;\n", i)
		if h.Gate == i+1 {
			sb.WriteString("    __gate();\n")
		}
		switch h.Style % nStyles {
		case 3:
			// a per-request object whose method evaluates a closure literal without use-list that reads $this
			fmt.Fprintf(&sb, "    $o%d = new Holder();\n    $o%d->v = $v%d;\n    $acc = $acc . '(' . $o%d->wrap('') . ')';\n", i, i, i, i)
		case 4:
			// the same through an arrow function handed to array_map
			fmt.Fprintf(&sb, "    $o%d = new Holder();\n    $o%d->v = $v%d;\n    $acc = $acc . '~' . $o%d->wrapAll(['', '']) . '~';\n", i, i, i, i)
		case 0:
			fmt.Fprintf(&sb, "    $acc = $acc . '[' . $v%d . ']';\n", i)
		case 1:
			fmt.Fprintf(&sb, "    $o%d = new Holder();\n    $o%d->v = $v%d;\n    $acc = $acc . '<' . $o%d->v . '>';\n", i, i, i, i)
		default:
			fmt.Fprintf(&sb, "    $f%d = function($x) use ($v%d) { return $x . '{' . $v%d . '}'; };\n    $acc = $f%d($acc);\n", i, i, i, i)
		}
	}
	sb.WriteString("    $n = 0;\n    foreach ($vals as $x) { $n = $n + 1; }\n")
	sb.WriteString("    $res->header('X-Echo', $acc);\n")
	sb.WriteString("    $res->status(200 + $n);\n")
	sb.WriteString("    $res->write('n=' . $n . ';acc=' . $acc . ';join=' . joinVals($vals));\n")
	sb.WriteString("});\n")
	return sb.String()
}

// serverScript builds the server; mw adds a closure middleware in front of every route that keeps a
// request value in a local across $next and reports it afterwards (its locals, parameters and the
// $next it received must belong to the request it is serving, like a handler's).
func serverScript(handlers []handlerSpec, mw ...bool) string {
	var sb strings.Builder
	sb.WriteString("<?php\nuse Net\\Http\\Server;\nclass Holder { public $v; function wrap($x) { $f = function ($y) { return $this->v . $y; }; return $f($x); } function wrapAll($xs) { return implode('', array_map(fn($y) => $this->v . $y, $xs)); } }\nfunction rdGet($k) { return $_GET[$k] ?? ''; }\nfunction rdRequest($k) { return $_REQUEST[$k] ?? ''; }\nclass Rd { static function post($k) { return $_POST[$k] ?? ''; } }\nfunction joinVals($vs) { $s = ''; foreach ($vs as $x) { $s = $s . $x . ','; } return $s; }\n$server = new Server('127.0.0.1', 0);\n")
	if len(mw) > 0 && mw[0] {
		sb.WriteString("$server->middleware(function ($req, $res, $next) {\n    $m = $req->header('X-a');\n    $res->header('X-MW-Before', $m);\n    $next($req, $res);\n    $res->write(';mw=' . $m . '|' . $req->header('X-b'));\n});\n")
	}
	for i, h := range handlers {
		sb.WriteString(handlerSource(fmt.Sprintf("/h%d", i), h))
	}
	return sb.String()
}

func requestFor(route string, id int) httpReqSpec {
	tag := fmt.Sprintf("r%d", id)
	q := url.Values{}
	form := map[string]string{}
	hdr := map[string]string{}
	ck := map[string]string{}
	for _, k := range paramKeys {
		q.Set(k, tag+"q"+k)
		form[k] = tag + "p" + k
		hdr["X-"+k] = tag + "h" + k
		ck[k] = tag + "c" + k
	}
	q.Set("rid", tag)
	return httpReqSpec{Method: "POST", URL: route + "?" + q.Encode(), Headers: hdr, Form: form, Cookies: ck}
}

// annotationApp: annotation-routed controllers (#[Application] scanning a directory, #[Controller], #[PostMapping])
// behind a class middleware attached with #[Middleware(X::class)] that keeps request data in its own properties
// across $next, and a controller that keeps request data in a property while it is parked. Whatever instance the
// framework hands out, a response may only contain its own request's data.
func annotationApp() map[string]string {
	return map[string]string{
		"index.php":                         "<?php\nuse Net\\Http\\Server;\n$server = new Server('127.0.0.1', 0);\n$server->flash(__DIR__ . '/app');\n__capture($server);\n",
		"app/main.php":                      "<?php\nnamespace VApp;\nuse Net\\Annotation\\Application;\n#[Application(name: 'vapp', scan: __DIR__)]\nclass VApplication {\n    public static function boot(): void {}\n}\n",
		"app/Middleware/TagMiddleware.php":  "<?php\nnamespace VApp\\Middleware;\nclass TagMiddleware {\n    public $who = '';\n    public $seen = 0;\n    public function handle($request, $response, $next) {\n        $this->who = $request->header('X-a');\n        $this->seen = $this->seen + 1;\n        $response->header('X-MW-Before', $this->who);\n        $next($request, $response);\n        $response->write(';mw=' . $this->who . '|' . $request->header('X-b'));\n    }\n}\n",
		"app/Controller/EchoController.php": "<?php\nnamespace VApp\\Controller;\nuse Net\\Annotation\\Controller;\nuse Net\\Annotation\\Route;\nuse Net\\Annotation\\PostMapping;\nuse Net\\Annotation\\Middleware;\nuse VApp\\Middleware\\TagMiddleware;\n#[Middleware(TagMiddleware::class)]\n#[Controller]\n#[Route(prefix: \"/api\")]\nclass EchoController {\n    #[PostMapping(path: \"/h0\")]\n    public function h0($request, $response): void {\n        $v = $request->header('X-c');\n        __gate();\n        $response->write('n=1;acc=[' . $v . ']' . $request->header('X-d'));\n    }\n    #[PostMapping(path: \"/h1\")]\n    public function h1($request, $response): void {\n        $response->write('n=1;acc=<' . $request->header('X-e') . '>');\n    }\n}\n",
	}
}

type c11Case struct {
	MW       bool          `json:"middleware,omitempty"`
	Cfg      httpCfg       `json:"config"`
	Handlers []handlerSpec `json:"handlers"`
	Sources  []string      `json:"sources"`
}

func c11Exec(pool *sb.Pool, cfg httpCfg) ([]httpResp, string, *sb.Rep) {
	b, _ := json.Marshal(cfg)
	rep := pool.Exec(&sb.Req{Kind: "http", Data: b, DeadlineMs: 60000})
	if rep.Outcome != sb.OK {
		return nil, "", &rep
	}
	var out []httpResp
	json.Unmarshal(rep.Data, &out)
	return out, rep.Msg, &rep
}

func respString(r httpResp) string {
	var hs []string
	for k, v := range r.Headers {
		hs = append(hs, k+"="+strings.Join(v, ","))
	}
	sort.Strings(hs)
	return fmt.Sprintf("status=%d headers={%s} body=%q panic=%q", r.Status, strings.Join(hs, "; "), r.Body, r.Panic)
}

// c11Gorace: race reports are not verdicts of this check (the -race build only perturbs the schedule); a
// development run can keep them (VERIF_RACE_LOG=<path prefix>) to locate unsynchronised interpreter state.
func c11Gorace() string {
	if p := os.Getenv("VERIF_RACE_LOG"); p != "" {
		return "GORACE=halt_on_error=0 log_path=" + p
	}
	return "GORACE=halt_on_error=0 log_path=/dev/null"
}

var tagRe = regexp.MustCompile(`r(\d+)[qphc][a-f]`)
var ridRe = regexp.MustCompile(`rid=r(\d+)`)

// foreignData: every request value echoed in a response carries the tag of the request it came from
// (requestFor); a response that shows another request's tag did not depend on its own request only.
func foreignData(spec httpReqSpec, r httpResp) string {
	m := ridRe.FindStringSubmatch(spec.URL)
	if m == nil {
		return ""
	}
	text := r.Body
	for k, v := range r.Headers {
		text += " " + k + "=" + strings.Join(v, ",")
	}
	for _, t := range tagRe.FindAllStringSubmatch(text, -1) {
		if t[1] != m[1] {
			return fmt.Sprintf("the response to request r%s contains %q, a value of request r%s", m[1], t[0], t[1])
		}
	}
	return ""
}

// c11Judge runs the concurrent mode and the alone mode and compares.
func c11Judge(pool, alonePool *sb.Pool, rec *sb.Rec, c c11Case) *failure {
	rec.Eval()
	aloneCfg := c.Cfg
	aloneCfg.Mode = "alone"
	alone, _, arep := c11Exec(alonePool, aloneCfg)
	if alone == nil {
		if arep.Outcome == sb.Infra {
			rec.InfraProblem("alone run: %s", clip(arep.Msg, 300))
			return nil
		}
		return &failure{Key: "cell:alone:" + arep.Outcome, Detail: fmt.Sprintf("serving the requests one at a time failed: %s %s %s", arep.Outcome, arep.Site, clip(arep.Msg, 200)), Case: c}
	}
	// absolute oracle on the one-at-a-time run: requests served strictly one after another must not
	// see each other's data either (a value cached from an earlier request)
	for i := range alone {
		if i < len(c.Cfg.Reqs) {
			if why := foreignData(c.Cfg.Reqs[i], alone[i]); why != "" {
				return &failure{Key: "cell:sequential:foreign-data", Detail: fmt.Sprintf("served one at a time (sources %s): %s\n  response: %s", strings.Join(c.Sources, "+"), why, clip(respString(alone[i]), 400)), Case: c}
			}
		}
	}
	if c.Cfg.Mode == "alone" {
		return nil
	}
	got, note, rep := c11Exec(pool, c.Cfg)
	if got == nil {
		if rep.Outcome == sb.Infra {
			rec.InfraProblem("%s run: %s", c.Cfg.Mode, clip(rep.Msg, 300))
			return nil
		}
		key := "cell:" + c.Cfg.Mode + ":" + rep.Outcome
		if strings.Contains(rep.Stderr, "DATA RACE") {
			fn := "?"
			if m := raceFuncRe.FindStringSubmatch(rep.Stderr); m != nil {
				fn = m[1]
			}
			key = "cell:" + c.Cfg.Mode + ":data-race:" + fn
		}
		return &failure{Key: key, Detail: fmt.Sprintf("%s while serving concurrently: %s\n%s", rep.Outcome, clip(rep.Msg, 200), clip(rep.Stderr, 1200)), Case: c}
	}
	if note == "gate-not-reached" {
		rec.Label("gate-not-reached", "")
	}
	for i := range got {
		a, g := respString(alone[i]), respString(got[i])
		if a != g {
			src := strings.Join(c.Sources, "+")
			return &failure{Key: "diff:" + c.Cfg.Mode, Detail: fmt.Sprintf("request %d (%s) answered differently when served concurrently (%s; sources %s):\n  alone:      %s\n  concurrent: %s", i, c.Cfg.Reqs[i].URL, c.Cfg.Mode, src, clip(a, 500), clip(g, 500)), Case: c}
		}
	}
	return nil
}

func TestC11(t *testing.T) {
	cfg := sb.LoadConfig("C11")
	rec := sb.NewRec(cfg)
	defer rec.Flush()
	rec.R.Rule = "generated route handlers (locals, loops, arrays, objects and closures created inside the handler) that read request inputs through the request object and through $_GET / $_POST / $_COOKIE / $_REQUEST / $_SERVER; every request carries unique values. Engine (i): 2..64 requests in flight on real goroutines (GOMAXPROCS varied); engine (ii): scripted two-request interleavings with request A parked at a gate after its k-th read while request B runs to completion, every gate position enumerated. Each response is compared with the same request served alone on a fresh VM. Non-trivial = the handler reads an input after the point where the other request ran (gated) or >= 2 requests overlap (parallel); distinct by (handlers, requests, mode)."
	pool := &sb.Pool{}
	defer pool.Close()
	alonePool := &sb.Pool{}
	defer alonePool.Close()
	dl := time.Now().Add(budget(cfg, 60, 800))
	if cfg.Replay != "" {
		rf, err := sb.LoadReplay(cfg.Replay)
		if err != nil {
			rec.InfraProblem("replay: %v", err)
			return
		}
		var c c11Case
		json.Unmarshal(rf.Case, &c)
		rec.NonTrivial(c.Cfg.Script)
		rec.NonTrivial(c.Cfg.Script, "r")
		for i := 0; i < 3; i++ {
			if f := c11Judge(pool, alonePool, rec, c); f != nil {
				rec.Fail(rf.Key, f.Detail, f.Case)
				return
			}
		}
		return
	}
	// which sources are excluded by listed findings
	excluded := map[string]bool{}
	for _, k := range rec.KnownKeys() {
		if strings.HasPrefix(k, "feature:") {
			excluded[strings.TrimPrefix(k, "feature:")] = true
		}
	}
	// (ii) gated enumeration: per source pair (first read, second read) with the gate in between; probes every source
	idx := 0
	for i1, s1 := range readSrcs {
		for i2, s2 := range readSrcs {
			for style := 0; style < nStyles; style++ {
				idx++
				if !cfg.Mine(idx) {
					continue
				}
				hs := []handlerSpec{{Reads: []int{i1, i2}, Gate: 1, Style: style}}
				c := c11Case{Handlers: hs, Sources: []string{s1.Name, s2.Name}}
				c.Cfg = httpCfg{Script: serverScript(hs), Mode: "gated", Reqs: []httpReqSpec{requestFor("/h0", 1), requestFor("/h0", 2)}}
				rec.NonTrivial(c.Cfg.Script, "gated")
				rec.Label("gated:"+s1.Via+"->"+s2.Via, c.Cfg.Script)
				if f := c11Judge(pool, alonePool, rec, c); f != nil {
					// attribute to the superglobal source involved, if any
					key := f.Key
					for _, s := range []readSrc{s2, s1} {
						if s.Via == "superglobal" || s.Via == "nested" {
							// a nested read goes through the same package-level cache as the direct one
							key = "feature:" + strings.SplitN(s.Name, "@", 2)[0]
							break
						}
					}
					rec.Fail(key, f.Detail, f.Case)
				}
			}
		}
	}
	// (iii) strictly sequential requests, every source (superglobals included): 3 requests with distinct data
	for si, s1 := range readSrcs {
		for style := 0; style < nStyles; style++ {
			idx++
			if !cfg.Mine(idx) {
				continue
			}
			hs := []handlerSpec{{Reads: []int{si, si}, Style: style}}
			c := c11Case{Handlers: hs, Sources: []string{s1.Name}}
			c.Cfg = httpCfg{Script: serverScript(hs), Mode: "alone", Reqs: []httpReqSpec{requestFor("/h0", 1), requestFor("/h0", 2), requestFor("/h0", 3), requestFor("/h0", 2)}}
			rec.NonTrivial(c.Cfg.Script, "sequential")
			rec.Label("sequential:"+s1.Name, c.Cfg.Script)
			if f := c11Judge(pool, alonePool, rec, c); f != nil {
				rec.Fail(f.Key+":"+s1.Name, f.Detail, f.Case)
			}
		}
	}
	// (iii-b) two routes served in turn: one reads a superglobal in the handler body, the other only inside
	// something it calls; the second must not see what the first request left behind
	for di, ds := range readSrcs {
		if ds.Via != "superglobal" {
			continue
		}
		for ni, ns := range readSrcs {
			if ns.Via != "nested" {
				continue
			}
			idx++
			if !cfg.Mine(idx) {
				continue
			}
			hs := []handlerSpec{{Reads: []int{di}, Style: 0}, {Reads: []int{ni, ni}, Style: 1}}
			c := c11Case{Handlers: hs, Sources: []string{ds.Name, ns.Name}}
			c.Cfg = httpCfg{Script: serverScript(hs), Mode: "alone", Reqs: []httpReqSpec{requestFor("/h1", 1), requestFor("/h0", 2), requestFor("/h1", 3), requestFor("/h0", 4), requestFor("/h1", 5)}}
			rec.NonTrivial(c.Cfg.Script, "sequential-2routes")
			rec.Label("sequential:direct-then-nested", c.Cfg.Script)
			if f := c11Judge(pool, alonePool, rec, c); f != nil {
				rec.Fail(f.Key+":"+ns.Name, f.Detail, f.Case)
			}
		}
	}
	// (iv) a closure middleware in front of a gated handler: request 1 is parked inside the handler
	// (inside the middleware's $next) while request 2 runs through the same middleware
	for si, s1 := range readSrcs {
		if s1.Via != "object" {
			continue
		}
		idx++
		if !cfg.Mine(idx) {
			continue
		}
		hs := []handlerSpec{{Reads: []int{si, si}, Gate: 1, Style: si % nStyles}}
		c := c11Case{Handlers: hs, Sources: []string{s1.Name, "middleware"}, MW: true}
		c.Cfg = httpCfg{Script: serverScript(hs, true), Mode: "gated", Reqs: []httpReqSpec{requestFor("/h0", 1), requestFor("/h0", 2)}}
		rec.NonTrivial(c.Cfg.Script, "gated-mw")
		rec.Label("gated:middleware", c.Cfg.Script)
		if f := c11Judge(pool, alonePool, rec, c); f != nil {
			rec.Fail(f.Key, f.Detail, f.Case)
		}
	}
	// (v) annotation-routed application with a class middleware that keeps request data in its properties
	for k, shape := range []struct {
		mode   string
		routes []string
	}{
		{"gated", []string{"/api/h0", "/api/h0", "/api/h1"}},            // request 1 parks in the controller, behind the middleware's first half
		{"gated", []string{"/api/h1", "/api/h1", "/api/h0", "/api/h1"}}, // no gate on the way: strictly sequential on one server
		{"parallel", []string{"/api/h0", "/api/h1", "/api/h0", "/api/h1", "/api/h1", "/api/h0"}},
	} {
		idx++
		if !cfg.Mine(idx) {
			continue
		}
		var reqs []httpReqSpec
		for i, r := range shape.routes {
			reqs = append(reqs, requestFor(r, i+1))
		}
		c := c11Case{Sources: []string{"annotation-middleware"}}
		c.Cfg = httpCfg{Files: annotationApp(), Mode: shape.mode, Reqs: reqs, Procs: 4}
		rec.NonTrivial("annotation-app", fmt.Sprint(k))
		rec.Label("annotation-app:"+shape.mode, strings.Join(shape.routes, " "))
		if f := c11Judge(pool, alonePool, rec, c); f != nil {
			rec.Fail(f.Key+":annotation-app", f.Detail, f.Case)
		}
	}
	rec.Flush()
	// main campaign: random handlers, sources not excluded
	var allowed []int
	for i, s := range readSrcs {
		if !excluded[strings.SplitN(s.Name, "@", 2)[0]] {
			allowed = append(allowed, i)
		}
	}
	raceBin := filepath.Join(os.Getenv("VERIF_BIN"), "props.race.test")
	procPools := map[int]*sb.Pool{}
	defer func() {
		for _, p := range procPools {
			p.Close()
		}
	}()
	poolFor := func(procs int, race bool) *sb.Pool {
		k := procs
		if race {
			k = -procs
		}
		if p := procPools[k]; p != nil {
			return p
		}
		p := &sb.Pool{ExtraEnv: []string{fmt.Sprintf("GOMAXPROCS=%d", procs)}}
		if race {
			p.Binary = raceBin
			p.RSSLimit = 6 << 30
			// The -race build is used here only as a schedule perturbation (different timing, same oracle).
			p.ExtraEnv = append(p.ExtraEnv, c11Gorace())
		}
		procPools[k] = p
		return p
	}
	var racePool *sb.Pool
	if _, err := os.Stat(raceBin); err == nil && cfg.Thorough() {
		// The -race build is used here only as a schedule perturbation (different timing, same oracle).
		// Race reports are not failures of this property: the statement is about what a response
		// depends on, and the interpreter's lazily memoised AST nodes (NewExpression.resolveClass,
		// CallLater.GetValue) are reported as races without changing any response. C10 owns races.
		racePool = &sb.Pool{Binary: raceBin, ExtraEnv: []string{c11Gorace()}, RSSLimit: 6 << 30}
		defer racePool.Close()
	}
	total := 1200 / cfg.NShards
	if cfg.Thorough() {
		total = 40000 / cfg.NShards
	}
	rapidLoop(t, rec, "load", total, 50, dl, func(rt *rapid.T) *failure {
		nh := rapid.IntRange(1, 4).Draw(rt, "nhandlers")
		var hs []handlerSpec
		srcNames := map[string]bool{}
		for i := 0; i < nh; i++ {
			h := handlerSpec{Style: rapid.IntRange(0, nStyles-1).Draw(rt, "style")}
			for k := rapid.IntRange(1, 5).Draw(rt, "nreads"); k > 0; k-- {
				ri := allowed[rapid.IntRange(0, len(allowed)-1).Draw(rt, "src")]
				h.Reads = append(h.Reads, ri)
				srcNames[readSrcs[ri].Name] = true
			}
			hs = append(hs, h)
		}
		mode := rapid.SampledFrom([]string{"parallel", "parallel", "gated"}).Draw(rt, "mode")
		c := c11Case{Handlers: hs, MW: rapid.Bool().Draw(rt, "mw")}
		if c.MW {
			rec.Label("load:with-middleware", "")
		}
		for s := range srcNames {
			c.Sources = append(c.Sources, s)
		}
		sort.Strings(c.Sources)
		if mode == "gated" {
			h := &hs[0]
			if len(h.Reads) < 2 {
				h.Reads = append(h.Reads, h.Reads[0])
			}
			h.Gate = rapid.IntRange(1, len(h.Reads)-1).Draw(rt, "gate")
			c.Cfg = httpCfg{Script: serverScript(hs, c.MW), Mode: "gated", Reqs: []httpReqSpec{requestFor("/h0", 1), requestFor(fmt.Sprintf("/h%d", rapid.IntRange(0, nh-1).Draw(rt, "broute")), 2)}}
		} else {
			n := rapid.SampledFrom([]int{2, 3, 8, 16, 64}).Draw(rt, "inflight")
			c.Cfg = httpCfg{Script: serverScript(hs, c.MW), Mode: "parallel", Procs: rapid.SampledFrom([]int{1, 2, 4, 16}).Draw(rt, "procs")}
			for i := 0; i < n; i++ {
				c.Cfg.Reqs = append(c.Cfg.Reqs, requestFor(fmt.Sprintf("/h%d", rapid.IntRange(0, nh-1).Draw(rt, "route")), i+1))
			}
		}
		id, _ := json.Marshal(c)
		rec.NonTrivial(string(id))
		rec.Label("load:"+mode, "")
		p := pool
		if mode == "parallel" {
			useRace := racePool != nil && rapid.IntRange(0, 3).Draw(rt, "race") == 0
			if useRace {
				rec.Label("load:parallel-race-build", "")
			}
			p = poolFor(c.Cfg.Procs, useRace)
		}
		return c11Judge(p, alonePool, rec, c)
	})
}
