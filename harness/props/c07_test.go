package props

import (
	"encoding/json"
	"fmt"
	"strings"
	"testing"

	"verifharness/sb"
)

// ---------------------------------------------------------------------------
// C07 — visibility and declared types are enforced at every access path and boundary.
// ---------------------------------------------------------------------------

func init() {
	sb.Assume("C07",
		"decision table from the statement: allowed <=> public, or protected and the accessing code belongs to the declaring class or a descendant, or private and the accessing code belongs to the declaring class; a denied access must raise a catchable Throwable and leave the member unchanged (read back from inside the class)",
		"types: a value of exactly the declared kind (or null for a nullable type, an instance of the class / a subclass / an implementor for a class or interface type, a member of the union) must be accepted unchanged; a value of a clearly foreign kind (array or object for a scalar type, a scalar / array / unrelated object for a class type, null for a non-nullable type, a non-numeric string for int) must be rejected with a catchable Throwable. Coercible scalar-to-scalar combinations (numeric string, bool, float for int; int for string ...) are recorded but not judged: weak-mode coercion is not documented either way",
		"every cell is a separate script on a fresh VM; fixtures vary class names and hierarchy depth with the seed",
		"findings are keyed cell:vis:<kind>:<modifier>:<static|inst>:<site>:<op>:<leak|blocked|crash> and cell:type:<boundary>:<declared>:<value>:<accepted|rejected|crash>",
	)
}

type c07Case struct {
	Key  string `json:"cell"`
	Src  string `json:"src"`
	Want string `json:"want"` // allow | deny | accept | reject
	Val  string `json:"expected_value"`
}

// ---- visibility fixtures ----

type visNames struct{ Base, Mid, Sub, Sib, Other string }

// visDecls: other spellings of an instance property declaration (the plain one is "prop" itself). The readonly
// ones are only read (a write is refused for everybody, which says nothing about visibility).
// ("readonly <modifier> T $p;" as a plain declaration is not accepted by the parser at all, so it is not a cell.)
var visDecls = []string{"typed", "promoted", "promoted-typed", "promoted-readonly", "promoted-readonly-first", "readonly"}

func visFixture(n visNames, deep bool, mod string, static bool, kind string) string {
	return visFixtureDecl(n, deep, mod, static, kind, "")
}

func visFixtureDecl(n visNames, deep bool, mod string, static bool, kind, decl string) string {
	st := ""
	if static {
		st = "static "
	}
	var sb strings.Builder
	fmt.Fprintf(&sb, "class %s {\n", n.Base)
	// only the member under test is declared, so that an unsupported modifier on
	// another member kind cannot spoil the cell
	switch kind {
	case "prop":
		switch decl {
		case "":
			fmt.Fprintf(&sb, "    %s %s$prop = 'V';\n", mod, st)
		case "typed":
			fmt.Fprintf(&sb, "    %s string $prop = 'V';\n", mod)
		case "promoted":
			fmt.Fprintf(&sb, "    public function __construct(%s $prop = 'V') {}\n", mod)
		case "promoted-typed":
			fmt.Fprintf(&sb, "    public function __construct(%s string $prop = 'V') {}\n", mod)
		case "promoted-readonly":
			fmt.Fprintf(&sb, "    public function __construct(%s readonly string $prop = 'V') {}\n", mod)
		case "promoted-readonly-first":
			fmt.Fprintf(&sb, "    public function __construct(readonly %s string $prop = 'V') {}\n", mod)
		case "readonly":
			fmt.Fprintf(&sb, "    %s readonly string $prop;\n    public function __construct() { $this->prop = 'V'; }\n", mod)
		}
		if static {
			fmt.Fprintf(&sb, "    public static function peek() { return self::$prop; }\n")
		} else {
			fmt.Fprintf(&sb, "    public function peek() { return $this->prop; }\n")
		}
	case "method":
		fmt.Fprintf(&sb, "    %s %sfunction meth() { return 'M'; }\n", mod, st)
		fmt.Fprintf(&sb, "    public %sfunction peek() { return 'V'; }\n", st)
	default:
		fmt.Fprintf(&sb, "    %s const K = 'C';\n", mod)
		fmt.Fprintf(&sb, "    public %sfunction peek() { return 'V'; }\n", st)
	}
	fmt.Fprintf(&sb, "    public function siteSame($o) { return SITEOP; }\n")
	fmt.Fprintf(&sb, "    public function mkClosure() { return function($o) { return SITEOP; }; }\n")
	sb.WriteString("}\n")
	parent := n.Base
	if deep {
		fmt.Fprintf(&sb, "class %s extends %s {}\n", n.Mid, n.Base)
		parent = n.Mid
	}
	fmt.Fprintf(&sb, "class %s extends %s {\n    public function siteSub($o) { return SITEOP; }\n    public function siteParent() { return PARENTOP; }\n}\n", n.Sub, parent)
	fmt.Fprintf(&sb, "class %s extends %s {\n    public function siteSib($o) { return SITEOP; }\n}\n", n.Sib, n.Base)
	fmt.Fprintf(&sb, "class %s {\n    public function siteOther($o) { return SITEOP; }\n}\n", n.Other)
	sb.WriteString("function siteFn($o) { return SITEOP; }\n")
	return sb.String()
}

type visOp struct {
	Kind, Op string
	// Expr is the access expression on object $o / class name CLS; writes return the written value.
	Expr   func(static bool, cls string) string
	Parent func(static bool) string // access through parent:: (methods / static props / constants), "" = n/a
	Val    string                   // value an allowed access yields
}

var visOps = []visOp{
	{"prop", "read", func(st bool, c string) string {
		if st {
			return c + "::$prop"
		}
		return "$o->prop"
	}, func(st bool) string {
		if st {
			return "parent::$prop"
		}
		return ""
	}, "s:\"V\""},
	{"prop", "write", func(st bool, c string) string {
		if st {
			return "(" + c + "::$prop = 'W')"
		}
		return "($o->prop = 'W')"
	}, nil, "s:\"W\""},
	{"method", "call", func(st bool, c string) string {
		if st {
			return c + "::meth()"
		}
		return "$o->meth()"
	}, func(st bool) string { return "parent::meth()" }, "s:\"M\""},
	{"const", "read", func(st bool, c string) string { return c + "::K" }, func(st bool) string { return "parent::K" }, "s:\"C\""},
	{"prop", "dyn-read", func(st bool, c string) string {
		if st {
			return "$cn::$prop"
		}
		return "$o->$pn"
	}, nil, "s:\"V\""},
	{"method", "dyn-call", func(st bool, c string) string {
		if st {
			return "$cn::$mn()"
		}
		return "$o->$mn()"
	}, nil, "s:\"M\""},
}

var visSites = []string{"outside", "function", "other-class", "same", "sub", "sibling", "closure-inside", "closure-outside", "parent::"}

func visAllowed(mod, site string) bool {
	switch mod {
	case "public":
		return true
	case "protected":
		return site == "same" || site == "sub" || site == "sibling" || site == "closure-inside" || site == "parent::"
	default:
		return site == "same" || site == "closure-inside"
	}
}

func visScript(n visNames, deep bool, mod string, static bool, op visOp, site string) (string, bool) {
	return visScriptDecl(n, deep, mod, static, op, site, "")
}

func visScriptDecl(n visNames, deep bool, mod string, static bool, op visOp, site, decl string) (string, bool) {
	if decl != "" && (static || op.Kind != "prop" || (strings.Contains(decl, "readonly") && op.Op == "write")) {
		return "", false
	}
	expr := op.Expr(static, n.Base)
	parentExpr := "null"
	if site == "parent::" {
		if op.Parent == nil || op.Parent(static) == "" {
			return "", false
		}
		parentExpr = op.Parent(static)
	}
	if op.Kind == "const" && static {
		return "", false // constants have no static/instance distinction: enumerate once
	}
	if static && strings.HasPrefix(op.Op, "dyn-") {
		// $cn::$prop / $cn::$mn() fail even for public members on the pinned tree: the
		// form itself is unsupported, so it says nothing about visibility
		return "", false
	}
	fix := visFixtureDecl(n, deep, mod, static, op.Kind, decl)
	// inside class bodies the access is spelled relative to $o / the class name; dynamic names need locals
	pre := "$pn = 'prop'; $mn = 'meth'; $cn = '" + n.Base + "'; "
	inFn := func(e string) string { return e }
	_ = inFn
	fix = strings.ReplaceAll(fix, "return SITEOP;", pre+"return "+expr+";")
	fix = strings.ReplaceAll(fix, "return PARENTOP;", "return "+parentExpr+";")
	var sb strings.Builder
	sb.WriteString("<?php\n" + fix)
	fmt.Fprintf(&sb, "$o = new %s();\n$pn = 'prop'; $mn = 'meth'; $cn = '%s';\n", n.Sub, n.Base)
	var call string
	switch site {
	case "outside":
		call = expr
	case "function":
		call = "siteFn($o)"
	case "other-class":
		call = "(new " + n.Other + "())->siteOther($o)"
	case "same":
		call = "(new " + n.Base + "())->siteSame($o)"
	case "sub":
		call = "$o->siteSub($o)"
	case "sibling":
		call = "(new " + n.Sib + "())->siteSib($o)"
	case "closure-inside":
		sb.WriteString("$cl = $o->mkClosure();\n")
		call = "$cl($o)"
	case "closure-outside":
		fmt.Fprintf(&sb, "$cl = function($o) { %sreturn %s; };\n", pre, expr)
		call = "$cl($o)"
	case "parent::":
		call = "$o->siteParent()"
	}
	fmt.Fprintf(&sb, "try { __obs(\"r\", %s); } catch (Throwable $e) { __obs(\"!r\", $e->getMessage()); }\n", call)
	if static {
		fmt.Fprintf(&sb, "__obs(\"after\", %s::peek());\n", n.Base)
	} else {
		sb.WriteString("__obs(\"after\", $o->peek());\n")
	}
	return sb.String(), true
}

func c07JudgeVis(pool *sb.Pool, rec *sb.Rec, c c07Case) *failure {
	rep := pool.Exec(&sb.Req{Kind: "script", Src: c.Src, Tmpl: true, Run: true})
	rec.Eval()
	if rep.Outcome == sb.Infra {
		rec.InfraProblem("%s", rep.Msg)
		return nil
	}
	mk := func(cl, d string) *failure {
		return &failure{Key: c.Key + ":" + cl, Detail: fmt.Sprintf("%s: %s", c.Key, d), Case: c}
	}
	o := parseObs(rep.Obs)
	if rep.Outcome == sb.GoPanic || rep.Outcome == sb.Hang || rep.Outcome == sb.Died || rep.Outcome == sb.OOM {
		return mk("crash", fmt.Sprintf("%s at %s: %s", rep.Outcome, rep.Site, clip(rep.Msg, 160)))
	}
	if rep.Outcome == sb.ParseError {
		return mk("crash", "fixture rejected: "+clip(rep.Msg, 200))
	}
	r, okR := o["r"]
	e, okE := o["!r"]
	if okE && strings.Contains(e, sb.RecoveredPanicMarker) {
		return mk("crash", "Go panic: "+clip(firstLine(e), 160))
	}
	after := o["after"]
	isWrite := strings.Contains(c.Key, ":write")
	switch c.Want {
	case "allow":
		if !okR {
			return mk("blocked", fmt.Sprintf("allowed access failed: %s %s", clip(e, 160), clip(rep.Msg, 120)))
		}
		if r != c.Val {
			return mk("blocked", fmt.Sprintf("allowed access returned %s, want %s", r, c.Val))
		}
		if isWrite && after != "s:\"W\"" {
			return mk("blocked", "allowed write did not take effect: member is "+after)
		}
	case "deny":
		if okR {
			return mk("leak", fmt.Sprintf("denied access succeeded and returned %s", clip(r, 80)))
		}
		if !okE {
			return mk("leak", fmt.Sprintf("denied access neither returned nor raised a catchable error (outcome %s %s)", rep.Outcome, clip(rep.Msg, 120)))
		}
		if after != "s:\"V\"" && after != "" {
			return mk("leak", "denied write changed the member to "+after)
		}
	}
	return nil
}

// ---- type fixtures ----

type tVal struct{ Name, Lit, Kind string }

var tVals = []tVal{
	{"int", "5", "int"}, {"numstr", `"12"`, "numstr"}, {"str", `"ab"`, "string"}, {"float", "1.5", "float"}, {"bool", "true", "bool"},
	{"null", "null", "null"}, {"array", "[1]", "array"}, {"objA", "new TA()", "A"}, {"objSubA", "new TSubA()", "SubA"}, {"objImpl", "new TImpl()", "Impl"}, {"objU", "new TU()", "U"},
}

var tTypes = []string{"int", "string", "array", "TA", "TI", "?int", "?TA", "int|string", "float", "bool"}

// tVerdict: accept / reject / "" (not asserted)
func tVerdict(typ string, v tVal) string {
	nullable := strings.HasPrefix(typ, "?")
	base := strings.TrimPrefix(typ, "?")
	if v.Kind == "null" {
		if nullable {
			return "accept"
		}
		return "reject"
	}
	member := func(b string) string {
		scalarV := v.Kind == "int" || v.Kind == "numstr" || v.Kind == "string" || v.Kind == "float" || v.Kind == "bool"
		switch b {
		case "int":
			switch {
			case v.Kind == "int":
				return "accept"
			case v.Kind == "string":
				return "reject"
			case scalarV:
				return ""
			}
			return "reject"
		case "float":
			switch {
			case v.Kind == "float":
				return "accept"
			case v.Kind == "string":
				return "reject"
			case scalarV:
				return ""
			}
			return "reject"
		case "bool":
			switch {
			case v.Kind == "bool":
				return "accept"
			case scalarV:
				return ""
			}
			return "reject"
		case "string":
			switch {
			case v.Kind == "string" || v.Kind == "numstr":
				return "accept"
			case scalarV:
				return ""
			}
			return "reject"
		case "array":
			if v.Kind == "array" {
				return "accept"
			}
			return "reject"
		case "TA":
			if v.Kind == "A" || v.Kind == "SubA" {
				return "accept"
			}
			return "reject"
		case "TI":
			if v.Kind == "Impl" {
				return "accept"
			}
			return "reject"
		}
		return ""
	}
	if strings.Contains(base, "|") {
		res := "reject"
		for _, b := range strings.Split(base, "|") {
			switch member(b) {
			case "accept":
				return "accept"
			case "":
				res = ""
			}
		}
		return res
	}
	return member(base)
}

var tBoundaries = []string{"property", "function-param", "method-param", "static-method-param", "constructor-param", "closure-param", "return",
	// the same typed property reached by other store paths: from a method through $this, declared in an ancestor of
	// the object's class (written from outside, by the ancestor's own setter, by a setter of the subclass), static,
	// constructor-promoted, and a method's return type
	"property-this-write", "inherited-property", "inherited-property-this-write", "inherited-property-sub-this-write", "grandparent-property-this-write",
	"static-property", "promoted-property", "method-return"}

var tBaseBoundary = map[string]string{
	"property-this-write": "property", "inherited-property": "property", "inherited-property-this-write": "property",
	"inherited-property-sub-this-write": "property", "grandparent-property-this-write": "property", "static-property": "property",
	"promoted-property": "constructor-param", "method-return": "return",
}

func typeScript(boundary, typ string, v tVal) string {
	var sb strings.Builder
	sb.WriteString("<?php\nclass TA {}\nclass TSubA extends TA {}\ninterface TI {}\nclass TImpl implements TI {}\nclass TU {}\n")
	switch boundary {
	case "property":
		fmt.Fprintf(&sb, "class H { public %s $p; }\n$h = new H();\n$v = %s;\ntry { $h->p = $v; __obs(\"r\", $h->p); } catch (Throwable $e) { __obs(\"!r\", $e->getMessage()); }\n", typ, v.Lit)
	case "property-this-write":
		fmt.Fprintf(&sb, "class H { public %s $p; public function set($x) { $this->p = $x; return $this->p; } }\n$h = new H();\n$v = %s;\ntry { __obs(\"r\", $h->set($v)); } catch (Throwable $e) { __obs(\"!r\", $e->getMessage()); }\n", typ, v.Lit)
	case "inherited-property":
		fmt.Fprintf(&sb, "class HB { public %s $p; }\nclass H extends HB {}\n$h = new H();\n$v = %s;\ntry { $h->p = $v; __obs(\"r\", $h->p); } catch (Throwable $e) { __obs(\"!r\", $e->getMessage()); }\n", typ, v.Lit)
	case "inherited-property-this-write":
		fmt.Fprintf(&sb, "class HB { public %s $p; public function set($x) { $this->p = $x; return $this->p; } }\nclass H extends HB {}\n$h = new H();\n$v = %s;\ntry { __obs(\"r\", $h->set($v)); } catch (Throwable $e) { __obs(\"!r\", $e->getMessage()); }\n", typ, v.Lit)
	case "inherited-property-sub-this-write":
		fmt.Fprintf(&sb, "class HB { public %s $p; }\nclass H extends HB { public function set($x) { $this->p = $x; return $this->p; } }\n$h = new H();\n$v = %s;\ntry { __obs(\"r\", $h->set($v)); } catch (Throwable $e) { __obs(\"!r\", $e->getMessage()); }\n", typ, v.Lit)
	case "grandparent-property-this-write":
		fmt.Fprintf(&sb, "class HA { public %s $p; }\nclass HB extends HA { public function set($x) { $this->p = $x; return $this->p; } }\nclass H extends HB {}\n$h = new H();\n$v = %s;\ntry { __obs(\"r\", $h->set($v)); } catch (Throwable $e) { __obs(\"!r\", $e->getMessage()); }\n", typ, v.Lit)
	case "static-property":
		fmt.Fprintf(&sb, "class H { public static %s $p; }\n$v = %s;\ntry { H::$p = $v; __obs(\"r\", H::$p); } catch (Throwable $e) { __obs(\"!r\", $e->getMessage()); }\n", typ, v.Lit)
	case "promoted-property":
		fmt.Fprintf(&sb, "class H { public function __construct(public %s $p) {} }\n$v = %s;\ntry { $h = new H($v); __obs(\"r\", $h->p); } catch (Throwable $e) { __obs(\"!r\", $e->getMessage()); }\n", typ, v.Lit)
	case "method-return":
		fmt.Fprintf(&sb, "class H { public function m($x): %s { return $x; } }\n$h = new H();\n$v = %s;\ntry { __obs(\"r\", $h->m($v)); } catch (Throwable $e) { __obs(\"!r\", $e->getMessage()); }\n", typ, v.Lit)
	case "function-param":
		fmt.Fprintf(&sb, "function f(%s $x) { return $x; }\n$v = %s;\ntry { __obs(\"r\", f($v)); } catch (Throwable $e) { __obs(\"!r\", $e->getMessage()); }\n", typ, v.Lit)
	case "method-param":
		fmt.Fprintf(&sb, "class H { public function m(%s $x) { return $x; } }\n$h = new H();\n$v = %s;\ntry { __obs(\"r\", $h->m($v)); } catch (Throwable $e) { __obs(\"!r\", $e->getMessage()); }\n", typ, v.Lit)
	case "static-method-param":
		fmt.Fprintf(&sb, "class H { public static function m(%s $x) { return $x; } }\n$v = %s;\ntry { __obs(\"r\", H::m($v)); } catch (Throwable $e) { __obs(\"!r\", $e->getMessage()); }\n", typ, v.Lit)
	case "constructor-param":
		fmt.Fprintf(&sb, "class H { public $got; public function __construct(%s $x) { $this->got = $x; } }\n$v = %s;\ntry { $h = new H($v); __obs(\"r\", $h->got); } catch (Throwable $e) { __obs(\"!r\", $e->getMessage()); }\n", typ, v.Lit)
	case "closure-param":
		fmt.Fprintf(&sb, "$c = function(%s $x) { return $x; };\n$v = %s;\ntry { __obs(\"r\", $c($v)); } catch (Throwable $e) { __obs(\"!r\", $e->getMessage()); }\n", typ, v.Lit)
	case "return":
		fmt.Fprintf(&sb, "function f($x): %s { return $x; }\n$v = %s;\ntry { __obs(\"r\", f($v)); } catch (Throwable $e) { __obs(\"!r\", $e->getMessage()); }\n", typ, v.Lit)
	}
	sb.WriteString("__obs(\"sent\", $v);\n")
	return sb.String()
}

func c07JudgeType(pool *sb.Pool, rec *sb.Rec, c c07Case) *failure {
	rep := pool.Exec(&sb.Req{Kind: "script", Src: c.Src, Tmpl: true, Run: true})
	rec.Eval()
	if rep.Outcome == sb.Infra {
		rec.InfraProblem("%s", rep.Msg)
		return nil
	}
	mk := func(cl, d string) *failure {
		return &failure{Key: c.Key + ":" + cl, Detail: fmt.Sprintf("%s: %s", c.Key, d), Case: c}
	}
	if rep.Outcome == sb.GoPanic || rep.Outcome == sb.Hang || rep.Outcome == sb.Died || rep.Outcome == sb.OOM {
		return mk("crash", fmt.Sprintf("%s at %s: %s", rep.Outcome, rep.Site, clip(rep.Msg, 160)))
	}
	if rep.Outcome == sb.ParseError {
		return mk("crash", "fixture rejected: "+clip(rep.Msg, 200))
	}
	o := parseObs(rep.Obs)
	r, okR := o["r"]
	e, okE := o["!r"]
	if okE && strings.Contains(e, sb.RecoveredPanicMarker) {
		return mk("crash", "Go panic: "+clip(firstLine(e), 160))
	}
	switch c.Want {
	case "accept":
		if !okR {
			return mk("rejected", fmt.Sprintf("a value of the declared type was refused: %s %s", clip(e, 160), clip(rep.Msg, 100)))
		}
		if r != o["sent"] {
			return mk("rejected", fmt.Sprintf("accepted value changed: sent %s, got %s", o["sent"], r))
		}
	case "reject":
		if okR {
			return mk("accepted", fmt.Sprintf("a value outside the declared type was accepted (came back as %s)", clip(r, 80)))
		}
		if !okE {
			return mk("accepted", fmt.Sprintf("no catchable error for a value outside the declared type (outcome %s %s)", rep.Outcome, clip(rep.Msg, 120)))
		}
	}
	return nil
}

// ---- abstract / interface instantiation ----

func abstractCases() []c07Case {
	pre := "<?php\n"
	wrap := func(key, decl, stmt, want string) c07Case {
		return c07Case{Key: key, Want: want, Src: pre + decl + "try { " + stmt + " __obs(\"r\", 1); } catch (Throwable $e) { __obs(\"!r\", $e->getMessage()); }\n"}
	}
	cases := []c07Case{
		wrap("cell:inst:abstract-class", "abstract class AB { abstract function m(); }\n", "$x = new AB();", "deny"),
		wrap("cell:inst:interface", "interface IF1 { function m(); }\n", "$x = new IF1();", "deny"),
		wrap("cell:inst:concrete-ok", "abstract class AB { abstract function m(); }\nclass CO extends AB { function m() { return 1; } }\n", "$x = new CO();", "allow"),
		wrap("cell:inst:missing-abstract", "abstract class AB { abstract function m(); }\nclass CO extends AB { }\n", "$x = new CO();", "deny"),
		wrap("cell:inst:missing-abstract-deep", "abstract class AB { abstract function m(); abstract function n(); }\nabstract class MID extends AB { function m() { return 1; } }\nclass CO extends MID { }\n", "$x = new CO();", "deny"),
		wrap("cell:inst:abstract-deep-ok", "abstract class AB { abstract function m(); abstract function n(); }\nabstract class MID extends AB { function m() { return 1; } }\nclass CO extends MID { function n() { return 2; } }\n", "$x = new CO();", "allow"),
		wrap("cell:inst:missing-interface-method", "interface IF1 { function m(); }\nclass CO implements IF1 { }\n", "$x = new CO();", "deny"),
		wrap("cell:inst:interface-ok", "interface IF1 { function m(); }\nclass CO implements IF1 { function m() { return 1; } }\n", "$x = new CO();", "allow"),
		wrap("cell:inst:inherited-interface-missing", "interface IF0 { function z(); }\ninterface IF1 extends IF0 { function m(); }\nclass CO implements IF1 { function m() { return 1; } }\n", "$x = new CO();", "deny"),
	}
	// a promise made d classes above the concrete leaf (abstract method / interface on an abstract
	// ancestor / method of that interface's parent interface), kept by an intermediate abstract class,
	// by the leaf, or by nobody: new Leaf() is allowed iff somebody keeps it
	for _, source := range []string{"abstract-method", "interface-on-ancestor", "parent-interface-on-ancestor"} {
		for d := 1; d <= 3; d++ {
			for keeper := -1; keeper <= d; keeper++ { // -1 nobody, 0..d-1 abstract class index (0 = promiser), d = the leaf
				if keeper == 0 && source == "abstract-method" {
					continue // the promiser cannot both declare it abstract and define it
				}
				var decl strings.Builder
				switch source {
				case "interface-on-ancestor":
					decl.WriteString("interface PI { function pm(); }\n")
				case "parent-interface-on-ancestor":
					decl.WriteString("interface PI0 { function pm(); }\ninterface PI extends PI0 { }\n")
				}
				for c := 0; c < d; c++ {
					fmt.Fprintf(&decl, "abstract class PA%d", c)
					if c > 0 {
						fmt.Fprintf(&decl, " extends PA%d", c-1)
					} else if source != "abstract-method" {
						decl.WriteString(" implements PI")
					}
					decl.WriteString(" {")
					if c == 0 && source == "abstract-method" {
						decl.WriteString(" abstract function pm();")
					}
					if keeper == c {
						decl.WriteString(" function pm() { return 1; }")
					}
					fmt.Fprintf(&decl, " function other%d() { return 0; } }\n", c)
				}
				fmt.Fprintf(&decl, "class PLeaf extends PA%d {", d-1)
				if keeper == d {
					decl.WriteString(" function pm() { return 1; }")
				}
				decl.WriteString(" }\n")
				want, kept := "allow", "kept"
				if keeper < 0 {
					want, kept = "deny", "kept-by-nobody"
				}
				out := wrap(fmt.Sprintf("cell:inst:promise:%s:depth%d:%s", source, d, kept), decl.String(), "$x = new PLeaf();", want)
				cases = append(cases, out)
			}
		}
	}
	return cases
}

func c07JudgeInst(pool *sb.Pool, rec *sb.Rec, c c07Case) *failure {
	rep := pool.Exec(&sb.Req{Kind: "script", Src: c.Src, Tmpl: true, Run: true})
	rec.Eval()
	mk := func(cl, d string) *failure {
		return &failure{Key: c.Key + ":" + cl, Detail: c.Key + ": " + d, Case: c}
	}
	if rep.Outcome == sb.GoPanic || rep.Outcome == sb.Hang || rep.Outcome == sb.Died {
		return mk("crash", fmt.Sprintf("%s at %s: %s", rep.Outcome, rep.Site, clip(rep.Msg, 160)))
	}
	o := parseObs(rep.Obs)
	_, okR := o["r"]
	switch c.Want {
	case "allow":
		if !okR {
			return mk("blocked", fmt.Sprintf("complete concrete class could not be instantiated: %s %s %s", rep.Outcome, clip(o["!r"], 120), clip(rep.Msg, 120)))
		}
	case "deny":
		// a diagnostic at declaration time (parse error / uncaught) also counts as rejection
		if okR {
			return mk("leak", "instantiation succeeded")
		}
	}
	return nil
}

func TestC07(t *testing.T) {
	cfg := sb.LoadConfig("C07")
	rec := sb.NewRec(cfg)
	defer rec.Flush()
	rec.R.Rule = "complete cross product: (a) member kind {property, method, constant} x modifier {public, protected, private} x {instance, static} x access site {outside, function, unrelated class, same class, subclass, sibling subclass, closure defined inside / outside the class, parent::} x operation {read, write, call, dynamic-name read, dynamic-name call}, over two hierarchy depths and seeded class names; (b) declared type {int, string, array, class, interface, ?int, ?class, int|string, float, bool} x runtime value kind {int, numeric string, string, float, bool, null, array, instance, subclass instance, implementor, unrelated object} x boundary {typed property, function / method / static method / constructor / closure parameter, return}; (c) abstract / interface instantiation and missing abstract implementations, incl. promises (abstract method, interface on an abstract ancestor, method of that interface's parent) made 1..3 classes above the leaf and kept by an intermediate class, by the leaf or by nobody. Non-trivial = a denied/rejected cell, or an allowed/accepted cell that has a denied/rejected sibling (same member or type, other site or value); distinct by cell."
	pool := &sb.Pool{}
	defer pool.Close()
	if cfg.Replay != "" {
		rf, err := sb.LoadReplay(cfg.Replay)
		if err != nil {
			rec.InfraProblem("replay: %v", err)
			return
		}
		var c c07Case
		json.Unmarshal(rf.Case, &c)
		rec.NonTrivial(c.Key)
		rec.NonTrivial(c.Key, "replay")
		var f *failure
		switch {
		case strings.HasPrefix(c.Key, "cell:vis:"):
			f = c07JudgeVis(pool, rec, c)
		case strings.HasPrefix(c.Key, "cell:type:"):
			f = c07JudgeType(pool, rec, c)
		default:
			f = c07JudgeInst(pool, rec, c)
		}
		if f != nil {
			rec.Fail(f.Key, f.Detail, f.Case)
		}
		return
	}
	seedTag := fmt.Sprintf("%d", cfg.Seed%97)
	names := visNames{Base: "Base" + seedTag, Mid: "Mid" + seedTag, Sub: "Sub" + seedTag, Sib: "Sib" + seedTag, Other: "Oth" + seedTag}
	idx := 0
	for _, deep := range []bool{false, true} {
		for _, mod := range []string{"public", "protected", "private"} {
			for _, static := range []bool{false, true} {
				for _, op := range visOps {
					for _, site := range visSites {
						for _, decl := range append([]string{""}, visDecls...) {
							src, ok := visScriptDecl(names, deep, mod, static, op, site, decl)
							if !ok {
								continue
							}
							idx++
							if !cfg.Mine(idx) {
								continue
							}
							si := "inst"
							if static {
								si = "static"
							}
							key := fmt.Sprintf("cell:vis:%s:%s:%s:%s:%s", op.Kind, mod, si, site, op.Op)
							if decl != "" {
								key = fmt.Sprintf("cell:vis:%s@%s:%s:%s:%s:%s", op.Kind, decl, mod, si, site, op.Op)
							}
							want := "deny"
							if visAllowed(mod, site) {
								want = "allow"
							}
							c := c07Case{Key: key, Src: src, Want: want, Val: op.Val}
							if mod != "public" {
								rec.NonTrivial(key, fmt.Sprint(deep))
							}
							rec.Label("vis."+want, src)
							if f := c07JudgeVis(pool, rec, c); f != nil {
								if decl != "" {
									// a listed finding of the plain declaration (same modifier, site and operation) is the
									// same defect under another spelling of the declaration
									plain := fmt.Sprintf("cell:vis:%s:%s:%s:%s:%s", op.Kind, mod, si, site, op.Op)
									if pk := strings.Replace(f.Key, key, plain, 1); rec.IsKnown(pk) {
										f.Key = pk
									}
								}
								rec.Fail(f.Key, f.Detail, f.Case)
							}
						}
					}
				}
			}
		}
	}
	for _, b := range tBoundaries {
		for _, typ := range tTypes {
			for _, v := range tVals {
				idx++
				if !cfg.Mine(idx) {
					continue
				}
				want := tVerdict(typ, v)
				key := fmt.Sprintf("cell:type:%s:%s:%s", b, typ, v.Name)
				if want == "" {
					rec.Label("type.not-asserted", "")
					continue
				}
				c := c07Case{Key: key, Src: typeScript(b, typ, v), Want: want}
				rec.NonTrivial(key)
				rec.Label("type."+want, c.Src)
				if f := c07JudgeType(pool, rec, c); f != nil {
					if base := tBaseBoundary[b]; base != "" {
						// the same (declared type, value) pair is a listed finding at the boundary this store path
						// shares its type test with: one defect of the type test, not one per path
						if bk := strings.Replace(f.Key, key, fmt.Sprintf("cell:type:%s:%s:%s", base, typ, v.Name), 1); rec.IsKnown(bk) {
							f.Key = bk
						} else if b == "static-property" && strings.HasSuffix(f.Key, ":accepted") {
							// no declared type of a static property is enforced at all (the class keeps only the
							// values of its static members): one finding, not one per (type, value) pair
							f.Key = "feature:static-property-type-not-enforced"
						}
					}
					rec.Fail(f.Key, f.Detail, f.Case)
				}
			}
		}
	}
	for _, c := range abstractCases() {
		idx++
		if !cfg.Mine(idx) {
			continue
		}
		rec.NonTrivial(c.Key)
		rec.Label("inst."+c.Want, c.Src)
		if f := c07JudgeInst(pool, rec, c); f != nil {
			rec.Fail(f.Key, f.Detail, f.Case)
		}
	}
	rec.R.Exhaustive = true
}
