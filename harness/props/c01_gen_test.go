package props

import (
	"pgregory.net/rapid"
	"verifharness/pgen"
)

// genProgramForMutation returns a side-effect-free program whose mutants are
// safe to execute (only echo).
func genProgramForMutation(rt *rapid.T) string {
	if rapid.IntRange(0, 3).Draw(rt, "seedOrGen") == 0 {
		return "$a = 3; $b = \"s\"; $c = [1, 2]; $i = 0;\n" + rapid.SampledFrom(seedPrograms).Draw(rt, "runprog")
	}
	cfg := pgen.DefaultCfg()
	cfg.MaxStmts = 6
	cfg.MaxDepth = 3
	cfg.Exceptions = rapid.Bool().Draw(rt, "exc")
	p := pgen.Gen(rt, cfg)
	return p.Print(pgen.PrintOpts{NoHeader: true})
}
