package props

import "pgregory.net/rapid"

// genProgramForMutation returns a side-effect-free program whose mutants are
// safe to execute (only echo).
func genProgramForMutation(rt *rapid.T) string {
	return "$a = 3; $b = \"s\"; $c = [1, 2]; $i = 0;\n" + rapid.SampledFrom(seedPrograms).Draw(rt, "runprog")
}
