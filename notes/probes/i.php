<?php
class A { private $pv = 1; protected $pt = 2; public $pb = 3; private static $spv = 4; protected static $spt = 5;
  private function fpv() { return "A::fpv"; } protected function fpt() { return "A::fpt"; } public function fpb() { return "A::fpb"; }
  public function inside() { return $this->pv . $this->pt . $this->fpv() . self::$spv; }
  public static function sfpb() { return "A::sfpb"; } private static function sfpv() { return "A::sfpv"; }
}
class B extends A { public function sub() { $r = ""; try { $r .= $this->pt; } catch (Throwable $e) { $r .= "denied-pt"; } try { $r .= $this->pv; } catch (Throwable $e) { $r .= " denied-pv"; } try { $r .= $this->fpv(); } catch (Throwable $e) { $r .= " denied-fpv"; } try { $r .= $this->fpt(); } catch (Throwable $e) { $r .= " denied-fpt"; } return $r; } }
$a = new A; $b = new B;
function probe($f) { try { $r = $f(); echo "ok:", var_export($r, true), " "; } catch (Throwable $e) { echo "denied:", get_class($e), " "; } }
probe(function() use ($a) { return $a->pb; });
probe(function() use ($a) { return $a->pt; });
probe(function() use ($a) { return $a->pv; });
probe(function() use ($a) { $a->pv = 9; return $a->inside(); });
probe(function() use ($a) { return $a->fpv(); });
probe(function() use ($a) { return $a->fpt(); });
probe(function() use ($a) { return A::$spv; });
probe(function() use ($a) { return A::$spt; });
probe(function() use ($a) { return A::sfpv(); });
probe(function() use ($a) { $n = "pv"; return $a->$n; });
probe(function() use ($a) { $n = "fpv"; return $a->$n(); });
echo "\n", $b->sub(), "\n", $a->inside(), "\n";
class T { public int $i = 0; public string $s = ""; public ?int $ni = null; public array $arr = []; public int|string $u = 0; public A $obj;
  function pi(int $x) { return $x; } function ps(string $x) { return $x; } function pa(array $x) { return 1; } function po(A $x) { return 1; } function pn(?int $x) { return 1; } function pu(int|string $x) { return 1; }
  function ri($v): int { return $v; } function rs($v): string { return $v; } function ra($v): array { return $v; } function ro($v): A { return $v; }
}
$t = new T;
$vals = ["int" => 1, "str" => "s", "float" => 1.5, "bool" => true, "null" => null, "arr" => [1], "objA" => new A, "objB" => new B, "objT" => new T, "numstr" => "12"];
foreach (["i","s","ni","arr","u","obj"] as $prop) { echo "prop $prop: "; foreach ($vals as $k => $v) { try { $t->$prop = $v; echo "$k=ok "; } catch (Throwable $e) { echo "$k=DENIED "; } } echo "\n"; }
foreach (["pi","ps","pa","po","pn","pu","ri","rs","ra","ro"] as $m) { echo "meth $m: "; foreach ($vals as $k => $v) { try { $t->$m($v); echo "$k=ok "; } catch (Throwable $e) { echo "$k=DENIED "; } } echo "\n"; }
abstract class Ab { abstract function f(); }
interface If1 { function g(); }
class Bad extends Ab {}
class Bad2 implements If1 {}
foreach (["Ab","If1","Bad","Bad2"] as $c) { try { $o = new $c; echo "$c=instantiated "; } catch (Throwable $e) { echo "$c=DENIED "; } }
echo "\n";
