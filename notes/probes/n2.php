<?php
$a = 1;
function f($x) {
  $y = $x + 1;
  return $y % 0;
}
$b = 2;
echo f(1);
