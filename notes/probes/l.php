<?php
function sh($v) { return var_export($v, true); }
echo json_encode([1, "a\"b\\c\n\t/é\u{1F600}", 1.5, true, null, ["k" => [1,2], "n" => 3], []]), "\n";
echo json_encode(9007199254740993), json_encode(0.1), json_encode(1e21), json_encode(-0.0), json_encode(1.0), json_encode("\x00\x1f\x7f"), json_encode("\xff"), "\n";
echo sh(json_decode('{"a":1,"b":[1,2,{"c":null}],"d":1.5e2,"e":"xé"}', true)), "\n";
echo json_encode(json_decode('{"a":1,"b":{"c":2}}', true)), "\n";
echo json_encode(json_decode('{"a":1,"b":{"c":2}}')), "\n";
echo sh(json_decode('9007199254740993')), sh(json_decode('[1,2')), sh(json_decode('{"a":1}x')), sh(json_decode('')), sh(json_decode('nul')), "\n";
echo serialize(1), serialize("ab"), serialize(true), serialize(null), serialize([1,"k"=>"v"]), "|", sh(serialize(1.5)), "\n";
echo sh(unserialize(serialize([1,"k"=>"v",[2]]))), sh(unserialize('i:5')), sh(unserialize('a:1:{i:0;')), sh(unserialize('s:5:"ab";')), "\n";
echo base64_encode("\x00\xff\xfe hello"), " ", bin2hex(base64_decode("AP/+IGhlbGxv")), " ", sh(base64_decode("!!!")), "\n";
echo urlencode("a b&c=d+e/é~-_."), " ", rawurlencode("a b&c=d+e/é~-_."), " ", urldecode("a+b%26%zz%4"), " ", rawurldecode("a+b%26"), "\n";
echo bin2hex("\x00\xffA"), " ", md5("abc"), " ", hash("sha256", "abc"), " ", hash("crc32b", "abc"), "\n";
