<?php
$a = 1;
if ($a == 1 {
 echo 1;
}
$c = 3;
