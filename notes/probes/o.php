<?php
class Box<T> { public T $v; public function set(T $x) { $this->v = $x; return "set"; } }
class U {}
function w($o, $val, $label) { try { $o->v = $val; echo "$label=ok "; } catch (Throwable $e) { echo "$label=REJ "; } }
$bi = new Box<int>();
w($bi, 1, "bi<-int"); w($bi, "s", "bi<-str");
$bs = new Box<string>();
w($bs, 1, "bs<-int"); w($bs, "s", "bs<-str");
w($bi, 2, "bi<-int"); w($bi, "s", "bi<-str");
$bu = new Box<U>();
w($bu, new U(), "bu<-U"); w($bu, 1, "bu<-int");
echo "\n";
