<?php
$a = 1;
class K { function m() {
 return $this->zz();
 } }
$k = new K();
$k->m();
