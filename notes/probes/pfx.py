import subprocess, sys, os, glob, collections, time, signal, resource, threading, queue
files = sorted(glob.glob('/repo/tests/**/*.php', recursive=True)+glob.glob('/repo/tests/**/*.zy', recursive=True)+glob.glob('/repo/examples/**/*.php', recursive=True)+glob.glob('/repo/examples/**/*.zy', recursive=True))
STRIDE=int(sys.argv[1]); LIMIT=int(sys.argv[2])
files=files[:LIMIT]
def lim():
    resource.setrlimit(resource.RLIMIT_AS,(6<<30,6<<30)); os.setsid()
res=collections.Counter(); ex={}
lock=threading.Lock()
def runfile(f):
    start=0; n=0
    while True:
        p=subprocess.Popen(['/tmp/w/pfxbin',f,str(start),str(STRIDE)],stdout=subprocess.PIPE,stderr=subprocess.DEVNULL,preexec_fn=lim,text=True)
        cur=None; done=False
        q=queue.Queue()
        def rd():
            for line in p.stdout: q.put(line)
            q.put(None)
        t=threading.Thread(target=rd,daemon=True); t.start()
        while True:
            try: line=q.get(timeout=3)
            except queue.Empty:
                # hang
                try: os.killpg(p.pid, signal.SIGKILL)
                except Exception: pass
                with lock:
                    res['HANG']+=1; ex.setdefault('HANG',[]).append((f,cur))
                break
            if line is None:
                if not done and cur is not None:
                    with lock: res['DIED']+=1; ex.setdefault('DIED',[]).append((f,cur))
                break
            a=line.split(' ',2)
            if a[0]=='BEGIN': cur=(int(a[1]),int(a[2]))
            elif a[0]=='END':
                n+=1
                r=a[2].strip()
                if r.startswith('PANIC'):
                    with lock: res[r]+=1; ex.setdefault(r,[]).append((f,cur))
                cur=None
            elif a[0]=='DONE': done=True
        p.wait()
        if done or cur is None: break
        start=cur[0]+STRIDE
    return n
from concurrent.futures import ThreadPoolExecutor
t0=time.time()
with ThreadPoolExecutor(14) as ex_:
    tot=sum(ex_.map(runfile,files))
print('cases',tot,'time',time.time()-t0)
for k,v in res.most_common(): print(v,k,'e.g.',ex[k][:2])
