<?php
class A {} class B extends A {}
function pi(int $x) { return 1; } function ps(string $x) { return 1; } function pa(array $x) { return 1; } function po(A $x) { return 1; } function pn(?int $x) { return 1; } function pu(int|string $x) { return 1; }
function ri($v): int { return $v; }
$vals = ["int" => 1, "str" => "s", "float" => 1.5, "bool" => true, "null" => null, "arr" => [1], "objA" => new A(), "objB" => new B()];
echo "pi: "; foreach ($vals as $k => $v) { try { pi($v); echo "$k=ok "; } catch (Throwable $e) { echo "$k=DENIED "; } } echo "\n";
echo "ps: "; foreach ($vals as $k => $v) { try { ps($v); echo "$k=ok "; } catch (Throwable $e) { echo "$k=DENIED "; } } echo "\n";
echo "pa: "; foreach ($vals as $k => $v) { try { pa($v); echo "$k=ok "; } catch (Throwable $e) { echo "$k=DENIED "; } } echo "\n";
echo "po: "; foreach ($vals as $k => $v) { try { po($v); echo "$k=ok "; } catch (Throwable $e) { echo "$k=DENIED "; } } echo "\n";
echo "pn: "; foreach ($vals as $k => $v) { try { pn($v); echo "$k=ok "; } catch (Throwable $e) { echo "$k=DENIED "; } } echo "\n";
echo "pu: "; foreach ($vals as $k => $v) { try { pu($v); echo "$k=ok "; } catch (Throwable $e) { echo "$k=DENIED "; } } echo "\n";
class T { function pi(int $x) { return 1; } function po(A $x) { return 1; } static function spi(int $x) { return 1; } function __construct(int $c = 0) {} }
$t = new T;
echo "T->pi: "; foreach ($vals as $k => $v) { try { $t->pi($v); echo "$k=ok "; } catch (Throwable $e) { echo "$k=DENIED "; } } echo "\n";
echo "T->po: "; foreach ($vals as $k => $v) { try { $t->po($v); echo "$k=ok "; } catch (Throwable $e) { echo "$k=DENIED "; } } echo "\n";
echo "T::spi: "; foreach ($vals as $k => $v) { try { T::spi($v); echo "$k=ok "; } catch (Throwable $e) { echo "$k=DENIED "; } } echo "\n";
echo "new T: "; foreach ($vals as $k => $v) { try { new T($v); echo "$k=ok "; } catch (Throwable $e) { echo "$k=DENIED "; } } echo "\n";
// C08
interface I1 { function m1($a); } interface I2 extends I1 { function m2(); } interface I3 {}
class P implements I2 { function m1($a) { return "P::m1"; } function m2() { return "P::m2"; } function who() { return "P"; } function callwho() { return $this->who() . "/" . self::sname() . "/" . static::sname(); } static function sname() { return "sP"; } }
class Q extends P implements I3 { function who() { return "Q"; } static function sname() { return "sQ"; } function m1($a) { return "Q::m1>" . parent::m1($a); } }
class R extends Q {}
class Duck { function m1($x) { return 1; } function m2() {} }
class Duck2 { function m1() { return 1; } function m2() {} }
$r = new R;
foreach (["R","Q","P","I1","I2","I3","A","Duck"] as $t) { echo $t, "=", var_export($r instanceof $t, true), " "; } echo "\n";
echo var_export($r instanceof I1, true), var_export($r instanceof I3, true), var_export($r instanceof A, true), "\n";
echo $r->who(), " ", $r->callwho(), " ", $r->m1(1), "\n";
echo var_export((new Duck) like I2, true), var_export((new Duck2) like I2, true), var_export($r like I2, true), var_export((new A) like I2, true), "\n";
function tp(I1 $x) { return "acc"; }
try { echo tp($r); } catch (Throwable $e) { echo "rej"; }
try { echo tp(new Duck); } catch (Throwable $e) { echo "rej"; }
echo "\n";
