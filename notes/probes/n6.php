<?php
$a = 1;
$s = "日本語";
$o = new Nope();
