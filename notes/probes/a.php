<?php
$a = [1,2,3];
$b = $a;
$b[0] = 9;
echo json_encode($a), "\n";
if (-1) { echo "neg truthy\n"; } else { echo "neg falsy\n"; }
echo (-1 ? "a" : "b"), "\n";
$s = "10";
echo (int)$s + 1, "\n";
echo 7 / 2, "\n";
echo 2 ** 3 ** 2, "\n";
echo -2 ** 2, "\n";
function f($x = 5) { static $n = 0; $n++; return $x + $n; }
echo f(), f(1), "\n";
try { echo 1 % 0; } catch (Throwable $e) { echo get_class($e), "\n"; }
