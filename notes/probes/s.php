<?php
class Alpha { public $z = 1; public $a = 2; public $m = 3; function f1() {} function f2() {} function f0() {} }
class ALPHA2 { public $q = 1; }
class alpha2x { public $q = 2; }
$o = new Alpha();
$o->dyn = 4; $o->b = 5;
echo json_encode($o), "\n";
foreach ($o as $k => $v) { echo "$k=$v "; }
echo "\n";
echo json_encode(get_object_vars($o)), "\n";
echo json_encode(get_class_methods($o)), "\n";
$x = new alpha(); echo get_class($x), "\n";
$y = new Alpha2(); echo get_class($y), $y->q, "\n";
var_dump($o);
echo serialize(["b" => 1, "a" => 2, 3]), "\n";
$arr = ["x" => 1, 5 => 2, "y" => 3]; $arr[] = 4; echo json_encode($arr), "\n";
echo json_encode(array_keys($arr)), "\n";
