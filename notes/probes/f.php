<?php
class E1 extends Exception {}
class E2 extends E1 {}
interface Marker {}
class E3 extends Exception implements Marker {}
function t($k) {
  try {
    echo "try$k ";
    if ($k == 1) throw new E2("m");
    if ($k == 2) return "ret";
    if ($k == 3) throw new E3("x");
    if ($k == 4) { $z = 1 % 0; }
    echo "end ";
  } catch (E1 $e) {
    echo "catchE1:", get_class($e), " ";
  } catch (Marker $e) {
    echo "catchMarker ";
    return "fromcatch";
  } finally {
    echo "fin ";
  }
  return "normal";
}
for ($k = 0; $k < 5; $k++) { try { echo t($k), "\n"; } catch (Throwable $e) { echo "outer:", get_class($e), "\n"; } }
function g() { try { return "a"; } finally { return "b"; } }
echo g(), "\n";
foreach ([1,2,3] as $v) { try { if ($v == 2) continue; if ($v == 3) break; echo "v$v "; } finally { echo "f$v "; } }
echo "\n";
function h() { try { throw new Exception("in"); } finally { echo "hfin "; } }
try { h(); } catch (Exception $e) { echo "got ", $e->getMessage(), "\n"; }
try { try { throw new E1("a"); } catch (E1 $e) { throw new E2("b"); } finally { echo "innerfin "; } } catch (E2 $e) { echo "outer ", $e->getMessage(), "\n"; }
echo "before uncaught\n";
throw new E2("boom");
