<?php
$a = 1;
$b = 2;
$c = undefined_fn(3);
$d = 4;
