#!/bin/bash
# usage: run.sh file  (runs with 5s KILL timeout and 4GB vm limit)
ulimit -v 6000000
timeout -s KILL ${T:-5} /tmp/origami "$@" 2>&1 | head -${N:-60} | cut -c1-${W:-300}
echo "[rc=${PIPESTATUS[0]}]"
