<?php
function j($x) { return json_encode($x); }
$a = [1,2,3]; $b = $a; $b[0] = 9; echo "assign/store: ", j($a), j($b), "\n";
$a = [1,2,3]; $b = $a; $b[] = 9; echo "assign/append: ", j($a), j($b), "\n";
$a = [1,2,3]; $b = $a; $a[1] = 7; echo "assign/store-orig: ", j($a), j($b), "\n";
$a = ["k"=>1]; $b = $a; $b["k"] = 2; $b["n"] = 3; echo "assign/strkey: ", j($a), j($b), "\n";
$a = [[1,2],[3]]; $b = $a; $b[0][0] = 9; echo "assign/nested: ", j($a), j($b), "\n";
$a = [1,2,3]; $b = $a; unset($b[1]); echo "assign/unset: ", j($a), j($b), "\n";
$a = [3,1,2]; $b = $a; sort($b); echo "assign/sort: ", j($a), j($b), "\n";
$a = [1,2,3]; $b = $a; array_push($b, 4); array_pop($a); echo "assign/pushpop: ", j($a), j($b), "\n";
function m($p) { $p[0] = 9; $p[] = 5; return $p; }
$a = [1,2,3]; $r = m($a); echo "param: ", j($a), j($r), "\n";
function mk() { static $s = [1,2]; return $s; }
$x = mk(); $x[0] = 9; echo "ret-static: ", j(mk()), j($x), "\n";
class O { public $p = [1,2]; }
$o = new O; $y = $o->p; $y[0] = 9; echo "prop-read: ", j($o->p), j($y), "\n";
$a = [1,2]; $o->p = $a; $a[0] = 8; echo "prop-store: ", j($o->p), j($a), "\n";
$o2 = clone $o; $o2->p[0] = 7; echo "clone: ", j($o->p), j($o2->p), "\n";
$o3 = $o; $o3->p[1] = 6; echo "handle: ", j($o->p), j($o3->p), "\n";
$a = [1,2]; $outer = [$a]; $a[0] = 5; echo "into-array: ", j($outer), j($a), "\n";
$outer = [[1,2]]; $in = $outer[0]; $in[0] = 5; echo "from-array: ", j($outer), j($in), "\n";
$a = [1,2]; $r = &$a; $r[0] = 4; echo "ref: ", j($a), j($r), "\n";
$a = [1,2,3]; foreach ($a as $v) { $a[] = $v; if (count($a) > 10) break; } echo "foreach: ", j($a), "\n";
$a = [1,2,3]; $b = $a; $b[0]++; echo "incr: ", j($a), j($b), "\n";
$a = [1,2,3]; $b = $a; $b[0] += 5; echo "compound: ", j($a), j($b), "\n";
