<?php
function j($x) { return json_encode($x); }
$a = [1,2,3,4,5];
echo j($a->slice(2)), j($a->slice(-2)), j($a->slice(1,3)), j($a->slice(1,-1)), j($a->slice(0, 99)), j($a->slice()), "\n";
$b = [1,2,3,4,5]; echo j($b->splice(1, 2, 'a', 'b')), j($b), "\n";
$b = [1,2,3,4,5]; echo j($b->splice(-2)), j($b), "\n";
$x = [1,2]; echo j($x->concat([3,4], [5,6])), j($x->concat(7)), j($x), "\n";
echo j([1,[2,[3,[4]]]]->flat()), j([1,[2,[3,[4]]]]->flat(2)), "\n";
$p = [1]; echo j($p->push(2,3)), j($p), j($p->pop()), j($p), j($p->shift()), j($p), j($p->unshift(8,9)), j($p), "\n";
echo j([3,1,2]->sort()), j([1,2,3]->reverse()), j([1,2,3]->join()), j([1,2,3]->join("-")), j([1,2,3]->indexOf(2)), j([1,2,3]->indexOf(9)), j([1,2,3]->includes(2)), "\n";
echo j([1,2,3]->map(fn($v, $i) => $v * 10 + $i)), j([1,2,3,4]->filter(fn($v) => $v % 2 == 0)), j([1,2,3]->reduce(fn($acc, $v) => $acc + $v, 10)), j([1,2,3]->reduce(fn($acc, $v) => $acc + $v)), "\n";
echo j([1,2,3]->find(fn($v) => $v > 1)), j([1,2,3]->findIndex(fn($v) => $v > 5)), j([1,2,3]->every(fn($v) => $v > 0)), j([1,2,3]->some(fn($v) => $v > 2)), j([1,2]->flatMap(fn($v) => [$v, $v * 2])), j([1,2,3]->length), "\n";
$s = "Hello, 世界 World";
echo j($s->length), j($s->length()), j($s->indexOf("World")), j($s->indexOf("zz")), j($s->substring(7)), j($s->substring(0, 5)), j($s->substring(-3)), j($s->substring(5, 2)), "\n";
echo j($s->replace("l", "L")), j($s->split(", ")), j("  x ".trim()), j($s->toUpperCase()), j($s->toLowerCase()), j($s->startsWith("Hello")), j($s->endsWith("World")), j("a,b,,c"->split(",")), j("abc"->split("")), "\n";
