<?php
$a = 1;
$b = 2;
throw new Exception("x");
$c = 3;
