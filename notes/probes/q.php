<?php
function add($a, $b = 10, $c = "z") { return $a . ":" . $b . ":" . $c; }
echo add(1), " ", add(1, 2), " ", add(1, 2, "q"), "\n";
function counter() { static $n = 0; static $m = 5; $n++; $m += 2; return $n . "/" . $m; }
echo counter(), " ", counter(), " ", counter(), "\n";
function fib($n) { if ($n < 2) { return $n; } return fib($n - 1) + fib($n - 2); }
echo fib(10), "\n";
function locals($x) { $t = $x * 2; if ($x > 0) { $inner = locals($x - 1); } else { $inner = "base"; } return $t . "(" . $inner . ")"; }
echo locals(3), "\n";
$t = "global-t"; echo locals(1), " ", $t, "\n";
for ($i = 0; $i < 3; $i++) { foreach (["a" => 1, "b" => 2] as $k => $v) { if ($v == 2) { continue; } echo $i, $k, $v, " "; } }
echo "\n";
for ($i = 0; $i < 5; $i++) { if ($i == 1) { continue; } if ($i == 3) { break; } echo $i, " "; }
echo "\n";
$i = 10; do { echo $i, " "; $i--; } while ($i > 7);
echo "\n";
$x = 2; switch ($x) { case 1: echo "one"; break; case 2: echo "two"; break; default: echo "dflt"; break; }
echo "\n";
$s = "b"; switch ($s) { case "a": echo "A"; break; default: echo "D"; break; case "b": echo "B"; break; }
echo "\n";
echo match(true) { $x > 5 => "big", $x > 1 => "mid", default => "small" }, "\n";
function early($n) { foreach ([1,2,3,4] as $v) { if ($v == $n) { return "found" . $v; } } return "none"; }
echo early(3), early(9), "\n";
function nested($n) { $out = ""; for ($i = 0; $i < $n; $i++) { $j = 0; while ($j < $n) { $j++; if ($j == 2) { break; } $out .= $i . $j . ","; } } return $out; }
echo nested(3), "\n";
$arr = []; for ($i = 0; $i < 3; $i++) { $arr[] = $i * $i; } echo count($arr), ":", $arr[2], "\n";
$k = 0; while (true) { $k++; if ($k >= 3) { break; } } echo $k, "\n";
$a = 5; $a += 3; $a -= 1; $a *= 2; $a %= 5; echo $a, "\n";
$b = 1; $c = $b++ + ++$b; echo $b, ":", $c, "\n";
if ($a == 4) { echo "four"; } elseif ($a == 5) { echo "five"; } else { echo "other"; }
echo "\n";
function &noref() { return 1; }
