<?php
$i = 0;
while ($i < 4) { $i++; if ($i == 2) { continue; } echo "w$i "; }
echo "\n";
for ($i = 0; $i < 3; $i++) { for ($j = 0; $j < 3; $j++) { if ($j == 1) { break 2; } echo "$i$j "; } }
echo "\n";
for ($i = 0; $i < 3; $i++) { switch ($i) { case 0: echo "zero "; case 1: echo "one "; break; case 2: continue 2; default: echo "d "; } echo "after$i "; }
echo "\n";
$k = 0;
do { $k++; if ($k == 2) continue; echo "d$k "; } while ($k < 3);
echo "\n";
foreach ([1,2,3] as $k => $v) { if ($v == 2) continue; echo "$k=$v "; }
echo "\n";
echo match(3) { 1,2 => "a", 3 => "b", default => "c" }, "\n";
function fact($n) { if ($n <= 1) return 1; return $n * fact($n - 1); }
echo fact(5), "\n";
