<?php
// C03 probes
function show($v) { return gettype($v) . ":" . var_export($v, true); }
echo show(7 / 2), " ", show(6 / 2), " ", show(7 % 3), " ", show(-7 % 3), " ", show(2 ** 10), " ", show(2 ** -1), " ", show(2 ** 0.5), "\n";
echo show(9223372036854775807 + 1), " ", show(9223372036854775807 * 2), " ", show(-9223372036854775807 - 2), "\n";
echo show(1 <=> 2), show(2 <=> 2), show("a" <=> "b"), show(1.5 <=> 1.5), "\n";
echo show("abc" == 0), show("1" == "01"), show("10" == "1e1"), show(100 == "1e2"), show(null == false), show(0 == ""), show("a" == "a"), "\n";
echo show(1 === 1.0), show(1 == 1.0), show("1" === "1"), show(null === null), "\n";
echo show(1 + 1.5), show("5" + 3), show("5" . 3), show(true + 1), show(null + 1), "\n";
echo show(5 & 3), show(5 | 3), show(5 ^ 3), show(~5), show(1 << 3), show(-8 >> 1), show(1 << 64), show(1 << -1), "\n";
echo show(!0), show(!1), show(!-1), show(!""), show(!"0"), show(!"a"), show(!0.0), show(!-0.5), show(!null), show(![]), show(![0]), "\n";
echo show((bool)-1), show((bool)0.5), show((bool)-0.5), show((bool)"0"), show((bool)"0.0"), show((bool)[]), "\n";
echo show(-1 && true), show(-1 || false), show(0.5 && true), "\n";
echo show((int)"12abc"), show((int)1.9), show((int)-1.9), show((float)"1.5"), show((string)1.0), show((string)true), show((string)null), show((int)true), "\n";
echo show(0.1 + 0.2), show(1e308 * 10), show(-1e308 * 10), show(0.0 / 1), show(-0.0), "\n";
try { echo show(1 / 0); } catch (Throwable $e) { echo "caught:", get_class($e), ":", $e->getMessage(), "\n"; }
try { echo show(1 % 0); } catch (Throwable $e) { echo "caught:", get_class($e), ":", $e->getMessage(), "\n"; }
try { echo show(1.0 / 0.0); } catch (Throwable $e) { echo "caught:", get_class($e), ":", $e->getMessage(), "\n"; }
